import json, re
R='/repo/examples/data/scientific/'
out=[]
def solomon(path, rounded, tours):
    text=open(path).read()
    ls=text.split('\n')
    if ls[-1]=='': ls=ls[:-1]
    lines=[]; custs=[]
    for i,l in enumerate(ls):
        if i in (0,1,2,3,5,6,7,8): lines.append(None); continue
        toks=[int(t) for t in l.split()]
        lines.append(toks)
    veh=lines[4]; dep=lines[9]
    for t in lines[10:]:
        custs.append(dict(id=t[0],x=t[1],y=t[2],demand=t[3],start=t[4],stop=t[5],service=t[6]))
    f=dict(vehicles=veh[0],capacity=veh[1],depot=dict(x=dep[1],y=dep[2],ready=dep[4],due=dep[5]),customers=custs)
    return dict(k='sol',rounded=rounded,lines=lines,text=text,file=f,tours=tours,in_hyp=True)
def lilim(path, rounded, tours):
    text=open(path).read()
    ls=[l for l in text.split('\n')]
    if ls[-1]=='': ls=ls[:-1]
    lines=[[int(t) for t in l.split()] for l in ls]
    veh=lines[0]; dep=lines[1]
    rows=[dict(id=t[0],x=t[1],y=t[2],demand=t[3],start=t[4],stop=t[5],service=t[6],pIdx=t[7],dIdx=t[8]) for t in lines[2:]]
    f=dict(vehicles=veh[0],capacity=veh[1],depot=dict(x=dep[1],y=dep[2],ready=dep[4],due=dep[5]),rows=rows)
    return dict(k='lil',rounded=rounded,lines=lines,text=text,file=f,tours=tours,in_hyp=True)
def tsplib(path, rounded, tours):
    text=open(path).read()
    ls=text.split('\n')
    if ls[-1]=='': ls=ls[:-1]
    lines=[]; nodes=[]; dem=[]; sec=None; depot=None; cap=None
    for i,l in enumerate(ls):
        s=l.strip()
        if i<2: lines.append(None); continue
        if ':' in s:
            k,v=[x.strip() for x in s.split(':')]
            try: v=int(v)
            except: pass
            if k=='CAPACITY': cap=v
            lines.append(dict(k=k,v=v)); continue
        if re.fullmatch(r'[A-Z_]+',s):
            sec=s; lines.append(s); continue
        toks=[int(t) for t in s.split()]
        lines.append(toks)
        if sec=='NODE_COORD_SECTION': nodes.append(toks)
        elif sec=='DEMAND_SECTION': dem.append(toks)
        elif sec=='DEPOT_SECTION' and depot is None: depot=toks[0]
    f=dict(capacity=cap,nodes=nodes,demands=dem,depot=depot)
    return dict(k='tsp',rounded=rounded,lines=lines,text=text,file=f,tours=tours,in_hyp=True)

out.append(solomon(R+'solomon/C101.25.txt', True, [[5,3,7,8,10,11,9,6,4,2,1],[13,17,18,19,15,16,14,12],[20,24,25,23,22,21],list(range(1,26)),[15,16,12,13,2,21,25,14,1]]))
out.append(solomon(R+'solomon/C101.25.txt', False, [[1,2,3]]))
out.append(lilim(R+'lilim/LC101.txt', True, [[3,75],[3,5,75,7],[3,5,6,8,10,75,7,2],[81,78,76,71,70,73,77,79,80]]))
out.append(tsplib(R+'tsplib/example.txt', True, [[2,3],[2,4,5],[3,6,4],[2,3,4,5,6]]))
out.append(tsplib(R+'tsplib/A-n32-k5.vrp', True, [[22,32,20,18,14,8,27],[13,2,17,31],[28,25],[30,19,9,10,23,16,11,26,6,21],[15,29,12,5,24,4,3,7],list(range(2,12))]))
out.append(tsplib(R+'tsplib/A-n32-k5.vrp', False, [[13,2,17,31]]))
# initial solution shipped with the repository, read into the 100 customer problem
c=solomon(R+'solomon/C101.100.txt', False, [])
sol=open(R+'solomon/C101.100.best.txt').read()
sl=[]
for l in sol.split('\n'):
    p=l.split(':')
    if len(p)==2:
        sl.append(dict(n=int(p[0].split()[1]), ids=[int(t) for t in p[1].split()]))
    else: sl.append(None)
c.update(k='initread', fmt='sol', sol_lines=sl, sol_text=sol)
out.append(c)
c=solomon(R+'solomon/C101.100.txt', True, [])
sol=open(R+'solomon/C101.100.partial.txt').read()
sl=[]
for l in sol.split('\n'):
    p=l.split(':')
    if len(p)==2:
        sl.append(dict(n=int(p[0].split()[1]), ids=[int(t) for t in p[1].split()]))
    else: sl.append(None)
c.update(k='initread', fmt='sol', sol_lines=sl, sol_text=sol)
out.append(c)
# complete solution of C101.25 written and read back
c=solomon(R+'solomon/C101.25.txt', True, [])
c.update(k='init', fmt='sol', routes=[[5,3,7,8,10,11,9,6,4,2,1],[13,17,18,19,15,16,14,12],[20,24,25,23,22,21]], cost_bits=4641240890982006784)
out.append(c)
c=tsplib(R+'tsplib/example.txt', True, [])
c.update(k='init', fmt='tsp', routes=[[1,2],[],[5,4,3]], cost_bits=4641240890982006784)
out.append(c)
with open('/verif/corpus/C13/examples.jsonl','w') as f:
    for c in out: f.write(json.dumps(c)+'\n')
# S5 witness: Li&Lim file where capacity must bind through the signed pair (the reader before dd82143 dropped id and demand)
rows=[[3,42,66,10,65,146,90,0,5],[1,45,68,-8,912,967,90,2,0],[5,42,65,-10,15,67,90,3,0],[2,45,70,8,825,870,90,0,1]]
lines=[[3,15,1],[0,40,50,0,0,1236,0,0,0]]+rows
text='\n'.join('\t'.join(map(str,l)) for l in lines)+'\n'
f=dict(vehicles=3,capacity=15,depot=dict(x=40,y=50,ready=0,due=1236),rows=[dict(id=t[0],x=t[1],y=t[2],demand=t[3],start=t[4],stop=t[5],service=t[6],pIdx=t[7],dIdx=t[8]) for t in rows])
w=dict(k='lil',rounded=True,lines=lines,text=text,file=f,tours=[[3,2,5,1],[3,5,2,1],[3,5],[2,1],[5,3]],in_hyp=True)
with open('/verif/corpus/C13/s5-lilim-signed-pairs.jsonl','w') as f2: f2.write(json.dumps(w)+'\n')
print(len(out)+1,'corpus cases')
