//! Solver-level campaign (C01, C02, C03; reused by C07/C15 oracles): generated pragmatic problems solved by
//! the real solver under an enumerated set of configurations (population x hyper-heuristic x operator sets
//! x termination x parallelism), built through the vrp-cli config reader; the pragmatic solution JSON is
//! converted to integer form for the Lean specifications.

use serde_json::{Value, json};
use std::io::BufReader;
use std::sync::Arc;
use vrp_cli::extensions::solve::config::{create_builder_from_config, read_config};
use vrp_core::prelude::*;
use vrp_verif_harness::pragen::*;
use vrp_verif_harness::*;

// operator histories (generator and executor of C04): what a history ends in is a solution some solver configuration
// returns; judged here by the partition specification
#[allow(dead_code)]
#[path = "c04.rs"]
mod c04;

fn base_config() -> Value {
    let repo = std::env::var("VERIF_REPO").unwrap_or_else(|_| "/repo".to_string());
    let text = std::fs::read_to_string(format!("{repo}/examples/data/config/config.full.json")).expect("config.full.json");
    let mut c: Value = serde_json::from_str(&text).unwrap();
    c["telemetry"] = json!({"progress": {"enabled": false}, "metrics": {"enabled": false}});
    c["environment"]["logging"] = json!({"enabled": false});
    c["output"] = Value::Null;
    c
}

/// the enumerated configuration rows
fn config_row(row: usize, gens: usize) -> (String, Value) {
    let mut c = base_config();
    let populations = [
        ("greedy", json!({"type": "greedy", "selectionSize": 4})),
        ("elitism", json!({"type": "elitism", "maxSize": 4, "selectionSize": 4})),
        ("rosomaxa", json!({"type": "rosomaxa", "selectionSize": 4, "maxEliteSize": 2, "maxNodeSize": 2, "spreadFactor": 0.75,
                             "distributionFactor": 0.75, "rebalanceMemory": 50, "explorationRatio": 0.9})),
    ];
    let (pname, pop) = &populations[row % 3];
    c["evolution"]["population"] = pop.clone();
    let hyper_kind = (row / 3) % 4;
    let hname = match hyper_kind {
        0 => "static-full",
        1 => {
            c["hyper"] = json!({"type": "dynamic-selective"});
            "dynamic"
        }
        2 => {
            // decomposition and local search made frequent
            c["hyper"]["operators"][0]["probability"] = json!({"scalar": 0.5});
            c["hyper"]["operators"][1]["probability"] = json!({"scalar": 0.5});
            c["hyper"]["operators"][3]["probability"] = json!({"scalar": 0.5});
            "static-local-heavy"
        }
        _ => {
            // ruin-recreate only
            let rr = c["hyper"]["operators"][2].clone();
            c["hyper"]["operators"] = json!([rr]);
            "static-rr-only"
        }
    };
    let layouts = [(1, 1), (1, 4), (2, 2), (4, 1), (2, 8), (1, 2)];
    let (pools, threads) = layouts[(row / 12) % layouts.len()];
    c["environment"]["parallelism"] = json!({"numThreadPools": pools, "threadsPerPool": threads});
    c["termination"] = match (row / 5) % 3 {
        0 => json!({"maxGenerations": gens}),
        1 => json!({"maxGenerations": gens, "maxTime": 30}),
        _ => json!({"maxGenerations": gens, "variation": {"intervalType": "sample", "value": 30, "cv": 0.01, "isGlobal": true}}),
    };
    (format!("{pname}/{hname}/par{pools}x{threads}/term{}", (row / 5) % 3), c)
}

fn gen_cases(rng: &mut Rng, tier: Tier) -> Vec<Value> {
    let (n, gens) = if tier == Tier::Thorough { (1200, 150) } else { (120, 60) };
    (0..n)
        .map(|i| {
            let mut cfg = GenCfg::random(rng);
            if i % 3 == 2 {
                cfg.jobs = (15, 32);
                cfg.vehicles_per_type = (2, 4);
            }
            // one problem in twelve has long tours (the stochastic leg selection only samples from 16-32 legs on)
            if i % 12 == 10 {
                cfg = GenCfg::long_tours();
            }
            // the proof-backed stream: metric matrices
            cfg.metric = true;
            // every sixth problem asks for vicinity clustering (jobs are merged into cluster jobs before the search and
            // expanded afterwards); only the partition specification is judged on those (commute is not modelled)
            let clustered = i % 6 == 5 || i % 12 == 1;
            if clustered {
                cfg.multi_jobs = false;
                cfg.jobs = (8, 20);
            }
            // one problem in twelve makes the task order a dense hard rule: single-task jobs, most of them with an order of
            // 1..3, breaks or reloads (activities without an order) in the tours, no tour-order objective
            let ordered = i % 12 == 7;
            if ordered {
                cfg.order = true;
                cfg.multi_jobs = false;
                cfg.breaks = true;
                cfg.reloads = i % 24 == 7;
                cfg.groups = false;
                cfg.jobs = (8, 18);
            }
            // one problem in twelve: every shift has TWO reloads told apart by their tags, small capacities (several reload
            // intervals per tour) and every tour of a first solve is pinned by a sequence / strict relation that lists all its reloads
            let two_reloads = i % 12 == 3;
            if two_reloads {
                cfg = GenCfg::basic();
                cfg.metric = true;
                cfg.reloads = true;
                cfg.tags = true;
                cfg.jobs = (10, 16);
                cfg.types = (1, 2);
                cfg.vehicles_per_type = (1, 2);
                cfg.time_windows = false;
            }
            let mut sp = gen_problem(rng, &cfg);
            if two_reloads {
                for v in sp.vehicles.iter_mut() {
                    v.capacity = v.capacity.iter().map(|_| rng.range(2, 4)).collect();
                    for s in v.shifts.iter_mut() {
                        let loc = s.start_loc;
                        s.reloads = ["rlA", "rlB"]
                            .iter()
                            .map(|tag| SPlace { loc, dur: rng.range(0, 10), tws: vec![], tag: Some(tag.to_string()), resource: None })
                            .collect();
                    }
                }
                for j in sp.jobs.iter_mut() {
                    for t in j.tasks.iter_mut() {
                        t.demand = t.demand.iter().map(|_| 1).collect();
                    }
                }
                return json!({"k": "solve", "sp": sp, "row": i, "gens": gens, "relations": true, "rel_full": true, "rseed": rng.next() % 1000});
            }
            if ordered {
                for job in sp.jobs.iter_mut().filter(|j| j.tasks.len() == 1) {
                    if rng.chance(5, 6) {
                        job.tasks[0].order = Some(rng.range(1, 3));
                    }
                }
            }
            if clustered {
                sp.clustering = Some(gen_clustering(rng, &sp));
                return json!({"k": "clustered", "sp": sp, "row": i, "gens": gens, "relations": i % 12 == 1 || rng.chance(3, 4), "rseed": rng.next() % 1000});
            }
            // one problem in five states its objectives explicitly (work balance, compact tours, arrival time, fast service,
            // distance / duration instead of cost, maximize tours): whatever is optimised, the hard rules hold
            if i % 5 == 3 && !ordered {
                sp.objectives = gen_objectives(rng, &sp);
            }
            // one problem in ten is solved from an initial solution in which a job of a relation is left unassigned (an order
            // pinned to a vehicle after the previous plan was made); judged by the partition specification only
            if i % 10 == 6 && !ordered {
                return json!({"k": "init", "sp": sp, "row": i, "gens": gens.min(10), "relations": true, "rseed": rng.next() % 1000});
            }
            // one problem in eight has one-way dead ends (routing matrix with `errorCodes`): every leg OUT of the location of one
            // or two single-task jobs is unreachable, the legs INTO it are not. Such a job can only end an open tour. The choice
            // depends on the row only (the campaign's random stream is not touched)
            if i % 8 == 5 {
                mark_dead_ends(&mut sp, i);
            }
            json!({"k": "solve", "sp": sp, "row": i, "gens": gens, "relations": rng.chance(1, 4), "rseed": rng.next() % 1000})
        })
        .collect::<Vec<_>>()
        .into_iter()
        .chain(history_cases(rng, tier))
        .chain(merge_init_cases())
        .collect()
}

/// marks the places of one or two single-task jobs as dead ends in every profile (places shared with a vehicle's start, end, reload
/// or break are left alone)
fn mark_dead_ends(sp: &mut SProblem, row: usize) {
    let n = sp.n;
    let mut taken = vec![false; n];
    for vt in &sp.vehicles {
        for sh in &vt.shifts {
            taken[sh.start_loc] = true;
            if let Some(e) = &sh.end {
                taken[e.loc] = true;
            }
            sh.reloads.iter().for_each(|r| taken[r.loc] = true);
            sh.breaks.iter().flat_map(|b| b.places.iter()).filter_map(|p| p.loc).for_each(|l| taken[l] = true);
        }
    }
    let candidates: Vec<usize> = sp
        .jobs
        .iter()
        .filter(|j| j.tasks.len() == 1 && j.tasks[0].places.len() == 1)
        .map(|j| j.tasks[0].places[0].loc)
        .filter(|l| !taken[*l])
        .collect();
    if candidates.is_empty() {
        return;
    }
    let picks = [candidates[(row * 7 + 3) % candidates.len()], candidates[(row * 13 + 5) % candidates.len()]];
    for p in sp.profiles.iter_mut() {
        p.errors = vec![0; n * n];
        for l in picks.iter().take(1 + row % 2) {
            for x in 0..n {
                if x != *l {
                    p.errors[l * n + x] = 1;
                }
            }
        }
    }
}

/// deterministic cases (regression of S62 and a family around it): a FEASIBLE initial solution whose first tour visits a reload of
/// a shared resource (res0: `a` units drawn there, `c` more by a second tour) and later a plain reload or a reload of another
/// resource (`b` units) is handed to the solver with zero generations. The vehicle can carry both intervals at once (a + b <= C),
/// so the clean-up of trivial reloads is tempted to drop the second reload - which moves its deliveries onto res0. Case 0 is the
/// witness found on the unchanged tree (C 6, res0 5, a 1+4, b 1); the others vary capacities and amounts with a fixed stream of
/// their own (the campaign's random stream is not touched)
fn merge_init_cases() -> Vec<Value> {
    let mut x: u64 = 0x9E3779B97F4A7C15;
    let mut next = |m: u64| {
        x = x.wrapping_mul(6364136223846793005).wrapping_add(1442695040888963407);
        (x >> 33) % m
    };
    let mut out = vec![merge_init_case(6, 5, 2, 5, 1, 0, false)];
    for _ in 0..23 {
        let cap = 4 + next(6) as i64;
        let a = 1 + next((cap - 1) as u64) as i64;
        let b = 1 + next((cap - a) as u64) as i64;
        let c = next(3) as i64;
        let res = a + c + [0, 1, b - 1, b][next(4) as usize].max(0);
        let d0 = if next(2) == 0 { cap - a + 1 } else { 1 + next(cap as u64) as i64 };
        out.push(merge_init_case(cap, res, d0.min(cap), a, b, c, next(3) == 0));
    }
    out
}

fn merge_init_case(cap: i64, res: i64, d0: i64, a: i64, b: i64, c: i64, right_shared: bool) -> Value {
    // every location index up to the largest one has to be used (E1504)
    let n = if c > 0 { 9usize } else { 7 };
    let m: Vec<i64> = (0..n * n).map(|k| ((k / n) as i64 - (k % n) as i64).abs() * 10).collect();
    let job = |id: &str, loc: usize, d: i64| SJob {
        id: id.to_string(),
        tasks: vec![STask { kind: "delivery".into(), places: vec![SPlace { loc, dur: 10, tws: vec![], tag: None, resource: None }], demand: vec![d], order: None }],
        ..SJob::default()
    };
    // the second tour carries a job from the depot that does not fit together with `c`: its reload is needed
    let d1 = cap - c + 1;
    let (a1, a2) = if a >= 2 { (a / 2, a - a / 2) } else { (a, 0) };
    let mut jobs = vec![job("p0", 1, d0), job("a1", 3, a1), job("b1", 6, b)];
    if a2 > 0 {
        jobs.push(job("a2", 4, a2));
    }
    if c > 0 {
        jobs.push(job("c1", 7, c));
        jobs.push(job("p1", 8, d1));
    }
    let mut resources = vec![("res0".to_string(), vec![res])];
    if right_shared {
        resources.push(("res1".to_string(), vec![b]));
    }
    let sp = SProblem {
        n,
        profiles: vec![SProfile { name: "car".into(), dur: m.clone(), dist: m, errors: vec![] }],
        jobs,
        vehicles: vec![SVehicleType {
            type_id: "t".into(),
            ids: vec!["v1".into(), "v2".into()],
            profile: 0,
            scale: None,
            fixed: 10,
            cd: 1,
            ct: 1,
            shifts: vec![SShift {
                start_earliest: 0,
                start_latest: None,
                start_loc: 0,
                end: Some(SShiftEnd { earliest: None, latest: 80000, loc: 0 }),
                breaks: vec![],
                reloads: vec![
                    SPlace { loc: 5, dur: 10, tws: vec![], tag: Some("rl0".into()), resource: if right_shared { Some("res1".into()) } else { None } },
                    SPlace { loc: 2, dur: 10, tws: vec![], tag: Some("rl1".into()), resource: Some("res0".into()) },
                ],
            }],
            capacity: vec![cap],
            skills: vec![],
            max_distance: None,
            max_duration: None,
            tour_size: None,
        }],
        resources,
        ..SProblem::default()
    };
    let stat = json!({"cost": 0, "distance": 0, "duration": 0, "times": {"driving": 0, "serving": 0, "waiting": 0, "break": 0, "commuting": 0, "parking": 0}});
    let stop = |loc: usize, id: &str, kind: &str, tag: Option<&str>, load: i64| {
        let mut act = json!({"jobId": id, "type": kind});
        if let Some(t) = tag {
            act["jobTag"] = json!(t);
        }
        json!({"location": {"index": loc}, "time": {"arrival": ts(0), "departure": ts(0)}, "distance": 0, "load": [load], "activities": [act]})
    };
    let mut first = vec![stop(0, "departure", "departure", None, d0), stop(1, "p0", "delivery", None, 0), stop(2, "reload", "reload", Some("rl1"), a), stop(3, "a1", "delivery", None, a2)];
    if a2 > 0 {
        first.push(stop(4, "a2", "delivery", None, 0));
    }
    first.extend([stop(5, "reload", "reload", Some("rl0"), b), stop(6, "b1", "delivery", None, 0), stop(0, "arrival", "arrival", None, 0)]);
    let mut tours = vec![json!({"vehicleId": "v1", "typeId": "t", "shiftIndex": 0, "statistic": stat, "stops": first})];
    if c > 0 {
        tours.push(json!({"vehicleId": "v2", "typeId": "t", "shiftIndex": 0, "statistic": stat, "stops": [
            stop(0, "departure", "departure", None, d1), stop(8, "p1", "delivery", None, 0), stop(2, "reload", "reload", Some("rl1"), c), stop(7, "c1", "delivery", None, 0),
            stop(0, "arrival", "arrival", None, 0)]}));
    }
    let init = json!({"statistic": stat, "unassigned": [], "tours": tours});
    json!({"k": "merge_init", "sp": sp, "row": 0, "gens": 0, "relations": false, "init_doc": init,
           "params": {"capacity": cap, "res0": res, "depot": d0, "a": a, "b": b, "c": c, "right_shared": right_shared}})
}

/// operator histories of C04 (three independent batches of its generator), in this order of preference: explicit objectives
/// that do not rank minimize-unassigned first (a result with more unassigned jobs can win a comparison inside a composite
/// operator), long tours (leg sampling), other explicit objectives, the rest. EVERY solution of the history - one per step,
/// rendered by the real writer - is judged like a solver output
fn history_cases(rng: &mut Rng, tier: Tier) -> Vec<Value> {
    let keep = if tier == Tier::Thorough { 500 } else { 60 };
    let batches = if tier == Tier::Thorough { 1 } else { 3 };
    let mut all: Vec<Value> =
        (0..batches).flat_map(|_| c04::gen_cases(&mut rng.fork(), tier)).filter(|c| c["k"] == "history").collect();
    let rank = |c: &Value| {
        let objectives = c["sp"]["objectives"].as_array().cloned().unwrap_or_default();
        let first = objectives.iter().map(|o| o["type"].as_str().unwrap_or("")).find(|t| *t != "maximize-value").unwrap_or("").to_string();
        let long = c["sp"]["jobs"].as_array().map(|j| j.len()).unwrap_or(0) >= 30;
        if !objectives.is_empty() && first != "minimize-unassigned" {
            0
        } else if long {
            1
        } else if !objectives.is_empty() {
            2
        } else {
            3
        }
    };
    all.sort_by_key(rank);
    all.truncate(keep);
    for c in all.iter_mut() {
        c["k"] = json!("ophist");
    }
    all
}

fn exec_history(case: &Value) -> Value {
    let mut c = case.clone();
    c["k"] = json!("history");
    let out = c04::exec(&c);
    let Some(steps) = out.get("steps").and_then(|s| s.as_array()) else { return out };
    let solutions: Vec<Value> = steps.iter().filter(|s| !s["solution"].is_null()).map(|s| json!({"op": s["op"], "solution": s["solution"]})).collect();
    let Some(last) = solutions.last() else {
        return json!({"error": "history without a rendered solution", "sp_final": out["sp_final"]});
    };
    let ops: Vec<&str> = steps.iter().filter_map(|s| s["op"].as_str()).collect();
    json!({"config": format!("operator history: {}", ops.join(" > ")), "sp_final": out["sp_final"], "solution": last["solution"], "step_solutions": solutions})
}

fn solve_with_config(problem: Arc<vrp_core::models::Problem>, config: &Value) -> Result<Value, String> {
    solve_with_config_from(problem, config, None)
}

/// `init`: a pragmatic solution document the run is seeded with (read by the real initial solution reader)
fn solve_with_config_from(problem: Arc<vrp_core::models::Problem>, config: &Value, init: Option<&Value>) -> Result<Value, String> {
    let text = serde_json::to_string(config).unwrap();
    let config = read_config(BufReader::new(text.as_bytes())).map_err(|e| format!("config: {e}"))?;
    let solutions = match init {
        Some(doc) => {
            let text = serde_json::to_string(doc).unwrap();
            let solution = vrp_pragmatic::format::solution::read_init_solution(BufReader::new(text.as_bytes()), problem.clone(), Arc::new(DefaultRandom::default()))
                .map_err(|e| format!("generated problem is invalid: the initial solution is not readable: {e}"))?;
            vec![vrp_core::construction::heuristics::InsertionContext::new_from_solution(problem.clone(), (solution, None), quiet_env())]
        }
        None => vec![],
    };
    let builder = create_builder_from_config(problem.clone(), solutions, &config).map_err(|e| format!("builder: {e}"))?;
    let solution = Solver::new(problem.clone(), builder.build().map_err(|e| e.to_string())?).solve().map_err(|e| e.to_string())?;
    solution_json(&problem, &solution)
}

fn exec(case: &Value) -> Value {
    if case["k"] == "ophist" {
        return exec_history(case);
    }
    let mut sp: SProblem = serde_json::from_value(case["sp"].clone()).unwrap();
    let row = case["row"].as_u64().unwrap() as usize;
    let gens = case["gens"].as_u64().unwrap() as usize;
    let (name, config) = config_row(row, gens);
    let mut sp_final = Value::Null;
    let mut init_doc: Option<Value> = None;
    if case["relations"].as_bool().unwrap_or(false) {
        let problem = match sp.read() {
            Ok(p) => p,
            Err(codes) => return json!({"error": format!("generated problem is invalid: {codes:?}")}),
        };
        let first = isolated(1, move || solve_default(problem, quiet_env(), 20)).expect("first solve panicked");
        if let Ok((_, sol)) = first {
            sp.relations = derive_relations_opts(&sp, &sol, case["rseed"].as_u64().unwrap_or(0), case["rel_full"].as_bool().unwrap_or(false));
            sp_final = serde_json::to_value(&sp).unwrap();
            if case["k"] == "init" {
                // the first solution with the LAST customer job of one relation taken out of its tour and listed as unassigned
                let mut doc = sol.clone();
                let victim = sp.relations.iter().filter_map(|r| r.jobs.iter().rev().find(|j| sp.jobs.iter().any(|x| &x.id == *j && x.tasks.len() == 1)).cloned()).next();
                if let Some(victim) = victim {
                    if let Some(tours) = doc["tours"].as_array_mut() {
                        for t in tours.iter_mut() {
                            if let Some(stops) = t["stops"].as_array_mut() {
                                for st in stops.iter_mut() {
                                    if let Some(acts) = st["activities"].as_array_mut() {
                                        acts.retain(|a| a["jobId"] != json!(victim));
                                    }
                                }
                                stops.retain(|st| st["activities"].as_array().is_none_or(|a| !a.is_empty()));
                            }
                        }
                    }
                    let mut un = doc["unassigned"].as_array().cloned().unwrap_or_default();
                    un.push(json!({"jobId": victim, "reasons": [{"code": "NO_REASON_FOUND", "description": "unknown"}]}));
                    doc["unassigned"] = json!(un);
                    init_doc = Some(doc);
                }
            }
        }
    }
    let problem = match sp.read() {
        Ok(p) => p,
        Err(codes) => return json!({"error": format!("generated problem is invalid: {codes:?}"), "sp_final": sp_final}),
    };
    // thread count of the ambient pool is irrelevant: the config creates its own pools
    if case["k"] == "merge_init" {
        init_doc = Some(case["init_doc"].clone());
    }
    if case["k"] == "init" && init_doc.is_none() {
        return json!({"error": "generated problem is invalid: no relation job to leave unassigned", "sp_final": sp_final});
    }
    let result = isolated(2, move || solve_with_config_from(problem, &config, init_doc.as_ref()));
    match result {
        Err(_) => json!({"panic": "solver panicked", "config": name}),
        Ok(Err(e)) => json!({"error": e, "config": name, "sp_final": sp_final}),
        Ok(Ok(sol)) => json!({"config": name, "sp_final": sp_final, "solution": simplify_solution(&sol)}),
    }
}

fn main() {
    run_main(gen_cases, exec);
}
