//! Solver-level campaign (C01, C02, C03; reused by C07/C15 oracles): generated pragmatic problems solved by
//! the real solver under an enumerated set of configurations (population x hyper-heuristic x operator sets
//! x termination x parallelism), built through the vrp-cli config reader; the pragmatic solution JSON is
//! converted to integer form for the Lean specifications.

use serde_json::{Value, json};
use std::io::BufReader;
use std::sync::Arc;
use vrp_cli::extensions::solve::config::{create_builder_from_config, read_config};
use vrp_core::prelude::*;
use vrp_verif_harness::pragen::*;
use vrp_verif_harness::*;

// operator histories (generator and executor of C04): what a history ends in is a solution some solver configuration
// returns; judged here by the partition specification
#[allow(dead_code)]
#[path = "c04.rs"]
mod c04;

fn base_config() -> Value {
    let repo = std::env::var("VERIF_REPO").unwrap_or_else(|_| "/repo".to_string());
    let text = std::fs::read_to_string(format!("{repo}/examples/data/config/config.full.json")).expect("config.full.json");
    let mut c: Value = serde_json::from_str(&text).unwrap();
    c["telemetry"] = json!({"progress": {"enabled": false}, "metrics": {"enabled": false}});
    c["environment"]["logging"] = json!({"enabled": false});
    c["output"] = Value::Null;
    c
}

/// the enumerated configuration rows
fn config_row(row: usize, gens: usize) -> (String, Value) {
    let mut c = base_config();
    let populations = [
        ("greedy", json!({"type": "greedy", "selectionSize": 4})),
        ("elitism", json!({"type": "elitism", "maxSize": 4, "selectionSize": 4})),
        ("rosomaxa", json!({"type": "rosomaxa", "selectionSize": 4, "maxEliteSize": 2, "maxNodeSize": 2, "spreadFactor": 0.75,
                             "distributionFactor": 0.75, "rebalanceMemory": 50, "explorationRatio": 0.9})),
    ];
    let (pname, pop) = &populations[row % 3];
    c["evolution"]["population"] = pop.clone();
    let hyper_kind = (row / 3) % 4;
    let hname = match hyper_kind {
        0 => "static-full",
        1 => {
            c["hyper"] = json!({"type": "dynamic-selective"});
            "dynamic"
        }
        2 => {
            // decomposition and local search made frequent
            c["hyper"]["operators"][0]["probability"] = json!({"scalar": 0.5});
            c["hyper"]["operators"][1]["probability"] = json!({"scalar": 0.5});
            c["hyper"]["operators"][3]["probability"] = json!({"scalar": 0.5});
            "static-local-heavy"
        }
        _ => {
            // ruin-recreate only
            let rr = c["hyper"]["operators"][2].clone();
            c["hyper"]["operators"] = json!([rr]);
            "static-rr-only"
        }
    };
    let layouts = [(1, 1), (1, 4), (2, 2), (4, 1), (2, 8), (1, 2)];
    let (pools, threads) = layouts[(row / 12) % layouts.len()];
    c["environment"]["parallelism"] = json!({"numThreadPools": pools, "threadsPerPool": threads});
    c["termination"] = match (row / 5) % 3 {
        0 => json!({"maxGenerations": gens}),
        1 => json!({"maxGenerations": gens, "maxTime": 30}),
        _ => json!({"maxGenerations": gens, "variation": {"intervalType": "sample", "value": 30, "cv": 0.01, "isGlobal": true}}),
    };
    (format!("{pname}/{hname}/par{pools}x{threads}/term{}", (row / 5) % 3), c)
}

fn gen_cases(rng: &mut Rng, tier: Tier) -> Vec<Value> {
    let (n, gens) = if tier == Tier::Thorough { (1200, 150) } else { (120, 60) };
    (0..n)
        .map(|i| {
            let mut cfg = GenCfg::random(rng);
            if i % 3 == 2 {
                cfg.jobs = (15, 32);
                cfg.vehicles_per_type = (2, 4);
            }
            // one problem in twelve has long tours (the stochastic leg selection only samples from 16-32 legs on)
            if i % 12 == 10 {
                cfg = GenCfg::long_tours();
            }
            // the proof-backed stream: metric matrices
            cfg.metric = true;
            // every sixth problem asks for vicinity clustering (jobs are merged into cluster jobs before the search and
            // expanded afterwards); only the partition specification is judged on those (commute is not modelled)
            let clustered = i % 6 == 5 || i % 12 == 1;
            if clustered {
                cfg.multi_jobs = false;
                cfg.jobs = (8, 20);
            }
            // one problem in twelve makes the task order a dense hard rule: single-task jobs, most of them with an order of
            // 1..3, breaks or reloads (activities without an order) in the tours, no tour-order objective
            let ordered = i % 12 == 7;
            if ordered {
                cfg.order = true;
                cfg.multi_jobs = false;
                cfg.breaks = true;
                cfg.reloads = i % 24 == 7;
                cfg.groups = false;
                cfg.jobs = (8, 18);
            }
            // one problem in twelve: every shift has TWO reloads told apart by their tags, small capacities (several reload
            // intervals per tour) and every tour of a first solve is pinned by a sequence / strict relation that lists all its reloads
            let two_reloads = i % 12 == 3;
            if two_reloads {
                cfg = GenCfg::basic();
                cfg.metric = true;
                cfg.reloads = true;
                cfg.tags = true;
                cfg.jobs = (10, 16);
                cfg.types = (1, 2);
                cfg.vehicles_per_type = (1, 2);
                cfg.time_windows = false;
            }
            let mut sp = gen_problem(rng, &cfg);
            if two_reloads {
                for v in sp.vehicles.iter_mut() {
                    v.capacity = v.capacity.iter().map(|_| rng.range(2, 4)).collect();
                    for s in v.shifts.iter_mut() {
                        let loc = s.start_loc;
                        s.reloads = ["rlA", "rlB"]
                            .iter()
                            .map(|tag| SPlace { loc, dur: rng.range(0, 10), tws: vec![], tag: Some(tag.to_string()), resource: None })
                            .collect();
                    }
                }
                for j in sp.jobs.iter_mut() {
                    for t in j.tasks.iter_mut() {
                        t.demand = t.demand.iter().map(|_| 1).collect();
                    }
                }
                return json!({"k": "solve", "sp": sp, "row": i, "gens": gens, "relations": true, "rel_full": true, "rseed": rng.next() % 1000});
            }
            if ordered {
                for job in sp.jobs.iter_mut().filter(|j| j.tasks.len() == 1) {
                    if rng.chance(5, 6) {
                        job.tasks[0].order = Some(rng.range(1, 3));
                    }
                }
            }
            if clustered {
                sp.clustering = Some(gen_clustering(rng, &sp));
                return json!({"k": "clustered", "sp": sp, "row": i, "gens": gens, "relations": i % 12 == 1 || rng.chance(3, 4), "rseed": rng.next() % 1000});
            }
            // one problem in five states its objectives explicitly (work balance, compact tours, arrival time, fast service,
            // distance / duration instead of cost, maximize tours): whatever is optimised, the hard rules hold
            if i % 5 == 3 && !ordered {
                sp.objectives = gen_objectives(rng, &sp);
            }
            // one problem in ten is solved from an initial solution in which a job of a relation is left unassigned (an order
            // pinned to a vehicle after the previous plan was made); judged by the partition specification only
            if i % 10 == 6 && !ordered {
                return json!({"k": "init", "sp": sp, "row": i, "gens": gens.min(10), "relations": true, "rseed": rng.next() % 1000});
            }
            json!({"k": "solve", "sp": sp, "row": i, "gens": gens, "relations": rng.chance(1, 4), "rseed": rng.next() % 1000})
        })
        .collect::<Vec<_>>()
        .into_iter()
        .chain(history_cases(rng, tier))
        .collect()
}

/// operator histories of C04 (three independent batches of its generator), in this order of preference: explicit objectives
/// that do not rank minimize-unassigned first (a result with more unassigned jobs can win a comparison inside a composite
/// operator), long tours (leg sampling), other explicit objectives, the rest. EVERY solution of the history - one per step,
/// rendered by the real writer - is judged like a solver output
fn history_cases(rng: &mut Rng, tier: Tier) -> Vec<Value> {
    let keep = if tier == Tier::Thorough { 500 } else { 60 };
    let batches = if tier == Tier::Thorough { 1 } else { 3 };
    let mut all: Vec<Value> =
        (0..batches).flat_map(|_| c04::gen_cases(&mut rng.fork(), tier)).filter(|c| c["k"] == "history").collect();
    let rank = |c: &Value| {
        let objectives = c["sp"]["objectives"].as_array().cloned().unwrap_or_default();
        let first = objectives.iter().map(|o| o["type"].as_str().unwrap_or("")).find(|t| *t != "maximize-value").unwrap_or("").to_string();
        let long = c["sp"]["jobs"].as_array().map(|j| j.len()).unwrap_or(0) >= 30;
        if !objectives.is_empty() && first != "minimize-unassigned" {
            0
        } else if long {
            1
        } else if !objectives.is_empty() {
            2
        } else {
            3
        }
    };
    all.sort_by_key(rank);
    all.truncate(keep);
    for c in all.iter_mut() {
        c["k"] = json!("ophist");
    }
    all
}

fn exec_history(case: &Value) -> Value {
    let mut c = case.clone();
    c["k"] = json!("history");
    let out = c04::exec(&c);
    let Some(steps) = out.get("steps").and_then(|s| s.as_array()) else { return out };
    let solutions: Vec<Value> = steps.iter().filter(|s| !s["solution"].is_null()).map(|s| json!({"op": s["op"], "solution": s["solution"]})).collect();
    let Some(last) = solutions.last() else {
        return json!({"error": "history without a rendered solution", "sp_final": out["sp_final"]});
    };
    let ops: Vec<&str> = steps.iter().filter_map(|s| s["op"].as_str()).collect();
    json!({"config": format!("operator history: {}", ops.join(" > ")), "sp_final": out["sp_final"], "solution": last["solution"], "step_solutions": solutions})
}

fn solve_with_config(problem: Arc<vrp_core::models::Problem>, config: &Value) -> Result<Value, String> {
    solve_with_config_from(problem, config, None)
}

/// `init`: a pragmatic solution document the run is seeded with (read by the real initial solution reader)
fn solve_with_config_from(problem: Arc<vrp_core::models::Problem>, config: &Value, init: Option<&Value>) -> Result<Value, String> {
    let text = serde_json::to_string(config).unwrap();
    let config = read_config(BufReader::new(text.as_bytes())).map_err(|e| format!("config: {e}"))?;
    let solutions = match init {
        Some(doc) => {
            let text = serde_json::to_string(doc).unwrap();
            let solution = vrp_pragmatic::format::solution::read_init_solution(BufReader::new(text.as_bytes()), problem.clone(), Arc::new(DefaultRandom::default()))
                .map_err(|e| format!("init solution: {e}"))?;
            vec![vrp_core::construction::heuristics::InsertionContext::new_from_solution(problem.clone(), (solution, None), quiet_env())]
        }
        None => vec![],
    };
    let builder = create_builder_from_config(problem.clone(), solutions, &config).map_err(|e| format!("builder: {e}"))?;
    let solution = Solver::new(problem.clone(), builder.build().map_err(|e| e.to_string())?).solve().map_err(|e| e.to_string())?;
    solution_json(&problem, &solution)
}

fn exec(case: &Value) -> Value {
    if case["k"] == "ophist" {
        return exec_history(case);
    }
    let mut sp: SProblem = serde_json::from_value(case["sp"].clone()).unwrap();
    let row = case["row"].as_u64().unwrap() as usize;
    let gens = case["gens"].as_u64().unwrap() as usize;
    let (name, config) = config_row(row, gens);
    let mut sp_final = Value::Null;
    let mut init_doc: Option<Value> = None;
    if case["relations"].as_bool().unwrap_or(false) {
        let problem = match sp.read() {
            Ok(p) => p,
            Err(codes) => return json!({"error": format!("generated problem is invalid: {codes:?}")}),
        };
        let first = isolated(1, move || solve_default(problem, quiet_env(), 20)).expect("first solve panicked");
        if let Ok((_, sol)) = first {
            sp.relations = derive_relations_opts(&sp, &sol, case["rseed"].as_u64().unwrap_or(0), case["rel_full"].as_bool().unwrap_or(false));
            sp_final = serde_json::to_value(&sp).unwrap();
            if case["k"] == "init" {
                // the first solution with the LAST customer job of one relation taken out of its tour and listed as unassigned
                let mut doc = sol.clone();
                let victim = sp.relations.iter().filter_map(|r| r.jobs.iter().rev().find(|j| sp.jobs.iter().any(|x| &x.id == *j && x.tasks.len() == 1)).cloned()).next();
                if let Some(victim) = victim {
                    if let Some(tours) = doc["tours"].as_array_mut() {
                        for t in tours.iter_mut() {
                            if let Some(stops) = t["stops"].as_array_mut() {
                                for st in stops.iter_mut() {
                                    if let Some(acts) = st["activities"].as_array_mut() {
                                        acts.retain(|a| a["jobId"] != json!(victim));
                                    }
                                }
                                stops.retain(|st| st["activities"].as_array().is_none_or(|a| !a.is_empty()));
                            }
                        }
                    }
                    let mut un = doc["unassigned"].as_array().cloned().unwrap_or_default();
                    un.push(json!({"jobId": victim, "reasons": [{"code": "NO_REASON_FOUND", "description": "unknown"}]}));
                    doc["unassigned"] = json!(un);
                    init_doc = Some(doc);
                }
            }
        }
    }
    let problem = match sp.read() {
        Ok(p) => p,
        Err(codes) => return json!({"error": format!("generated problem is invalid: {codes:?}"), "sp_final": sp_final}),
    };
    // thread count of the ambient pool is irrelevant: the config creates its own pools
    if case["k"] == "init" && init_doc.is_none() {
        return json!({"error": "generated problem is invalid: no relation job to leave unassigned", "sp_final": sp_final});
    }
    let result = isolated(2, move || solve_with_config_from(problem, &config, init_doc.as_ref()));
    match result {
        Err(_) => json!({"panic": "solver panicked", "config": name}),
        Ok(Err(e)) => json!({"error": e, "config": name, "sp_final": sp_final}),
        Ok(Ok(sol)) => json!({"config": name, "sp_final": sp_final, "solution": simplify_solution(&sol)}),
    }
}

fn main() {
    run_main(gen_cases, exec);
}
