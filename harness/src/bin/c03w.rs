//! C03, writer correspondence: generated pragmatic problems are solved by the real solver; every route of the core
//! solution is dumped through the PUBLIC core API (activities with location, schedule, place window start, place duration,
//! job type / ids / place tags / demand, the leg the transport cost provider reports from the previous activity) together
//! with the tour the real writer (`write_pragmatic` -> `create_tour`) renders for it. The Lean model `C03W.writeTour` is run
//! on the dump and must produce the same tour (stops, activities, times, loads, distances, statistic).

use serde_json::{Value, json};
use vrp_core::construction::features::JobDemandDimension;
use vrp_core::models::common::{Demand, MultiDimLoad, SingleDimLoad};
use vrp_core::models::problem::{JobIdDimension, Multi, TravelTime, VehicleIdDimension};
#[allow(unused_imports)]
use vrp_pragmatic::format::JobTypeDimension as _;
use vrp_core::models::solution::Route;
use vrp_pragmatic::format::{JobTypeDimension, PlaceTagsDimension, ShiftIndexDimension};
use vrp_verif_harness::pragen::*;
use vrp_verif_harness::*;

fn gen_cases(rng: &mut Rng, tier: Tier) -> Vec<Value> {
    let n = if tier == Tier::Thorough { 3000 } else { 300 };
    (0..n)
        .map(|i| {
            let mut cfg = GenCfg::random(rng);
            if i % 3 == 2 {
                cfg.jobs = (12, 26);
            }
            // reload-heavy and break-heavy streams: the writer's interval fold and break accounting
            if i % 4 == 1 {
                cfg.reloads = true;
                cfg.multi_dim = i % 8 == 1;
            }
            if i % 4 == 3 {
                cfg.breaks = true;
            }
            // one in six: non-metric matrices (the writer reads the matrix, whatever its shape)
            cfg.metric = i % 6 != 4;
            let mut sp = gen_problem(rng, &cfg);
            if i % 7 == 3 {
                sp.objectives = gen_objectives(rng, &sp);
            }
            // one in five: vicinity clustering (commute and parking branches of the writer)
            if i % 5 == 4 {
                let mut cfg = GenCfg::random(rng);
                cfg.metric = true;
                cfg.multi_jobs = false;
                cfg.jobs = (8, 20);
                let mut sp = gen_problem(rng, &cfg);
                sp.clustering = Some(gen_clustering(rng, &sp));
                return json!({"k": "wcluster", "sp": sp, "gens": 3 + (i % 4) * 4});
            }
            // one in five: REQUIRED breaks (reserved times). The writer turns reserved time into break activities afterwards
            // (`insert_reserved_times_as_breaks`), which the model does not cover: those tours are judged by the break clauses of the
            // specification only (timing split, cost, break entries inside the tour's time span)
            if i % 5 == 2 {
                sp.vehicles.iter_mut().for_each(|v| v.shifts.iter_mut().for_each(|s| s.breaks.clear()));
                let rb: Vec<Value> = sp
                    .vehicles
                    .iter()
                    .map(|v| {
                        let shifts: Vec<Value> = v
                            .shifts
                            .iter()
                            .map(|s| {
                                let at = s.start_earliest + rng.range(0, 700);
                                let dur = rng.range(5, 60);
                                match &s.end {
                                    Some(e) if at + dur > e.latest => Value::Null,
                                    _ => json!({"at": at, "dur": dur}),
                                }
                            })
                            .collect();
                        json!(shifts)
                    })
                    .collect();
                return json!({"k": "wbreak", "sp": sp, "rb": rb, "gens": 3 + (i % 4) * 4});
            }
            json!({"k": "wtour", "sp": sp, "gens": if i % 5 == 0 { 0 } else { 3 + (i % 4) * 4 }})
        })
        .collect()
}

fn int(x: f64) -> Value {
    if x.fract() == 0. && x.abs() < 9.0e15 { json!(x as i64) } else { json!({"f": x}) }
}

fn load(l: &MultiDimLoad) -> Value {
    json!(l.load[..l.size].to_vec())
}

fn dump_route(problem: &vrp_core::models::Problem, route: &Route) -> Value {
    let vehicle = route.actor.vehicle.as_ref();
    let driver = route.actor.driver.as_ref();
    let transport = problem.transport.as_ref();
    let mut prev: Option<(usize, f64)> = None;
    let mut seen: Vec<usize> = vec![];
    let acts: Vec<Value> = route
        .tour
        .all_activities()
        .map(|a| {
            let single = a.job.as_ref();
            let (leg_dur, leg_dist) = match prev {
                Some((loc, dep)) => (
                    transport.duration(route, loc, a.place.location, TravelTime::Departure(dep)),
                    transport.distance(route, loc, a.place.location, TravelTime::Departure(dep)),
                ),
                None => (0., 0.),
            };
            // clustered routes: the vehicle may stand at an earlier location (the parking place) while the crew walks, so the
            // leg from every location visited so far is recorded (same departure time as the writer uses)
            let legs_from: Vec<Value> = match (prev, a.commute.is_some() || route.tour.all_activities().any(|x| x.commute.is_some())) {
                (Some((_, dep)), true) => seen
                    .iter()
                    .map(|l| {
                        json!([l, int(transport.duration(route, *l, a.place.location, TravelTime::Departure(dep))),
                               int(transport.distance(route, *l, a.place.location, TravelTime::Departure(dep)))])
                    })
                    .collect(),
                _ => vec![],
            };
            if !seen.contains(&a.place.location) {
                seen.push(a.place.location);
            }
            prev = Some((a.place.location, a.schedule.departure));
            // the demand as stored: multi-dimensional, or (one-dimensional problems) `SingleDimLoad` values the writer converts
            let dem: Option<&Demand<MultiDimLoad>> = single.and_then(|s| s.dimens.get_job_demand());
            let dem1: Option<&Demand<SingleDimLoad>> = single.and_then(|s| s.dimens.get_job_demand());
            let dem_json = match (dem, dem1) {
                (Some(d), _) => json!({"d0": load(&d.delivery.0), "d1": load(&d.delivery.1), "p0": load(&d.pickup.0), "p1": load(&d.pickup.1)}),
                (None, Some(d)) => json!({"single": [d.delivery.0.value, d.delivery.1.value, d.pickup.0.value, d.pickup.1.value]}),
                _ => Value::Null,
            };
            json!({
                "loc": a.place.location, "arr": int(a.schedule.arrival), "dep": int(a.schedule.departure),
                "tws": int(a.place.time.start), "dur": int(a.place.duration), "placeIdx": a.place.idx,
                "type": single.and_then(|s| s.dimens.get_job_type().cloned()),
                "jobId": single.and_then(|s| s.dimens.get_job_id().cloned()),
                "rootId": single.and_then(|s| Multi::roots(s)).and_then(|m| m.dimens.get_job_id().cloned()),
                "tags": single.and_then(|s| s.dimens.get_place_tags().cloned()).unwrap_or_default(),
                "dem": dem_json,
                "commute": a.commute.is_some(),
                "legsFrom": legs_from,
                "commuteLegs": a.commute.as_ref().map(|c| json!({
                    "fwd": {"loc": c.forward.location, "dist": int(c.forward.distance), "dur": int(c.forward.duration)},
                    "bwd": {"loc": c.backward.location, "dist": int(c.backward.distance), "dur": int(c.backward.duration)}})),
                "legDur": int(leg_dur), "legDist": int(leg_dist),
            })
        })
        .collect();
    use vrp_core::models::common::TimeSpan;
    use vrp_core::solver::processing::ReservedTimesExtraProperty;
    let reserved: Vec<Value> = problem
        .extras
        .get_reserved_times()
        .and_then(|index| index.get(&route.actor).cloned())
        .unwrap_or_default()
        .iter()
        .map(|r| match &r.time {
            TimeSpan::Window(tw) => json!({"offset": false, "start": int(tw.start), "stop": int(tw.end), "dur": int(r.duration)}),
            TimeSpan::Offset(o) => json!({"offset": true, "start": int(o.start), "stop": int(o.end), "dur": int(r.duration)}),
        })
        .collect();
    json!({
        "reserved": reserved, "openEnd": route.actor.detail.end.is_none(),
        "vehicleId": vehicle.dimens.get_vehicle_id().cloned(), "shiftIndex": vehicle.dimens.get_shift_index().copied(),
        "veh": {
            "fixed": int(vehicle.costs.fixed),
            "cd": int(vehicle.costs.per_distance + driver.costs.per_distance),
            "ct": int(vehicle.costs.per_driving_time + driver.costs.per_driving_time),
            "cw": int(vehicle.costs.per_waiting_time),
            "cs": int(vehicle.costs.per_service_time + driver.costs.per_service_time),
        },
        "acts": acts,
    })
}

fn exec(case: &Value) -> Value {
    let sp: SProblem = serde_json::from_value(case["sp"].clone()).unwrap();
    let gens = case["gens"].as_u64().unwrap() as usize;
    let read = if case["k"] == "wbreak" {
        let (mut p, ms) = sp.to_pragmatic();
        if let Some(types) = p["fleet"]["vehicles"].as_array_mut() {
            for (vt, rbs) in types.iter_mut().zip(case["rb"].as_array().unwrap()) {
                for (shift, rb) in vt["shifts"].as_array_mut().unwrap().iter_mut().zip(rbs.as_array().unwrap()) {
                    if let Some(at) = rb["at"].as_i64() {
                        shift["breaks"] = json!([{"time": {"earliest": ts(at), "latest": ts(at)}, "duration": rb["dur"].as_i64().unwrap() as f64}]);
                    }
                }
            }
        }
        read_pragmatic_json(&p, &ms)
    } else {
        sp.read()
    };
    let problem = match read {
        Ok(p) => p,
        Err(codes) => return json!({"error": format!("generated problem is invalid: {codes:?}")}),
    };
    // solve first, dump the core routes, and only then call the writer: a panic of the writer leaves the dump behind
    let p2 = problem.clone();
    let solved = isolated(1, move || -> Result<vrp_core::models::Solution, String> {
        use vrp_core::prelude::*;
        use vrp_core::rosomaxa::evolution::TelemetryMode;
        let config = VrpConfigBuilder::new(p2.clone())
            .set_environment(quiet_env())
            .set_telemetry_mode(TelemetryMode::None)
            .prebuild()
            .map_err(|e| e.to_string())?
            .with_max_generations(Some(gens))
            .build()
            .map_err(|e| e.to_string())?;
        Solver::new(p2.clone(), config).solve().map_err(|e| e.to_string())
    });
    let solution = match solved {
        Err(_) => return json!({"panic": format!("the solver panicked: {}", last_panic())}),
        Ok(Err(e)) => return json!({"error": e}),
        Ok(Ok(s)) => s,
    };
    let routes_dump: Vec<Value> = solution.routes.iter().map(|r| dump_route(&problem, r)).collect();
    let doc = match std::panic::catch_unwind(std::panic::AssertUnwindSafe(|| solution_json(&problem, &solution))) {
        Err(_) => {
            // which schedules the writer was given
            let odd: Vec<Value> = solution
                .routes
                .iter()
                .flat_map(|r| r.tour.all_activities().map(|a| (a.schedule.arrival, a.schedule.departure)).collect::<Vec<_>>())
                .filter(|(a, d)| !(a.abs() < 1e12 && d.abs() < 1e12))
                .map(|(a, d)| json!([a, d]))
                .collect();
            return json!({"panic": format!("the writer panicked: {}", last_panic()), "unrepresentable_schedules": odd, "routes": routes_dump});
        }
        Ok(Err(e)) => return json!({"error": e}),
        Ok(Ok(doc)) => doc,
    };
    let routes = routes_dump;
    // what the solver left out, as the core solution holds it, and what the writer listed for it (reasons of one job sorted by
    // code: their order comes out of a hash map)
    use vrp_core::construction::heuristics::UnassignmentInfo;
    let unassigned_dump: Vec<Value> = solution
        .unassigned
        .iter()
        .map(|(job, info)| {
            let dimens = job.dimens();
            json!({
                "jobId": dimens.get_job_id().cloned(), "vehicleId": dimens.get_vehicle_id().cloned(),
                "shiftIndex": dimens.get_shift_index().copied(), "type": dimens.get_job_type().cloned(),
                "info": match info {
                    UnassignmentInfo::Unknown => json!("unknown"),
                    UnassignmentInfo::Simple(code) => json!({"simple": code.0}),
                    UnassignmentInfo::Detailed(details) => json!({"detailed": details.iter().map(|(actor, code)| {
                        let d = &actor.vehicle.dimens;
                        json!([d.get_vehicle_id().cloned(), d.get_shift_index().copied(), code.0])
                    }).collect::<Vec<_>>()}),
                },
            })
        })
        .collect();
    let doc_unassigned: Vec<Value> = doc["unassigned"]
        .as_array()
        .cloned()
        .unwrap_or_default()
        .iter()
        .map(|u| {
            let mut reasons: Vec<Value> = u["reasons"]
                .as_array()
                .cloned()
                .unwrap_or_default()
                .iter()
                .map(|r| {
                    json!({"code": r["code"], "description": r["description"],
                           "details": r.get("details").and_then(|d| d.as_array()).map(|d| d.iter().map(|x| json!([x["vehicleId"], x["shiftIndex"]])).collect::<Vec<_>>())})
                })
                .collect();
            reasons.sort_by_key(|r| r["code"].as_str().unwrap_or("").to_string());
            json!({"jobId": u["jobId"], "reasons": reasons})
        })
        .collect();
    let doc_violations: Vec<Value> = doc["violations"]
        .as_array()
        .cloned()
        .unwrap_or_default()
        .iter()
        // the document names the fields of a violation in snake case (the activity and stop fields are camel case)
        .map(|v| json!([v.get("vehicle_id").or_else(|| v.get("vehicleId")), v.get("shift_index").or_else(|| v.get("shiftIndex"))]))
        .collect();
    let simple = simplify_solution(&doc);
    json!({"routes": routes, "tours": simple["tours"], "statistic": simple["statistic"],
           "unassigned_dump": unassigned_dump, "unassigned": doc_unassigned, "violations": doc_violations})
}

fn main() {
    run_main(gen_cases, exec);
}
