//! C04 — every search step maps a consistent solution to a consistent one: random histories over ALL named
//! operators of the default heuristic (hook H8: every ruin x recreate pair behind `CompositeRuin`, local
//! searches, decomposition, redistribution, infeasible search with repair, LKH re-sequencing), applied through
//! the public `HeuristicSearchOperator::search`; after every step the bookkeeping of the returned context, its
//! pragmatic rendering, its cache digests and the (unchanged) parent are dumped for the Lean invariant.

use serde_json::{Value, json};
use std::collections::HashMap;
use std::sync::{Arc, Mutex};
use vrp_core::construction::heuristics::*;
use vrp_core::models::problem::{Job, JobIdDimension, VehicleIdDimension};
use vrp_core::models::LockOrder;
use vrp_core::models::solution::Route;
use vrp_core::prelude::*;
use vrp_core::rosomaxa::evolution::TelemetryMode;
use vrp_core::rosomaxa::prelude::*;
use vrp_core::rosomaxa::utils::Parallelism;
use vrp_core::solver::search::verif::JobRemovalTracker;
use vrp_core::solver::search::*;
use vrp_core::solver::{RefinementContext, TargetSearchOperator, create_elitism_population, verif_default_diversify_operators, verif_default_operators};
use vrp_verif_harness::pragen::*;
use vrp_verif_harness::*;

/// operators a script number >= 1 000 000 selects by name
const NAMED_OPERATORS: &[&str] = &["redistribute", "infeasible_search", "redistribute", "lkh_diverse", "redistribute", "infeasible_search"];

pub fn gen_cases(rng: &mut Rng, tier: Tier) -> Vec<Value> {
    let (n, steps) = if tier == Tier::Thorough { (1500, 60) } else { (120, 25) };
    (0..n)
        .map(|i| {
            let mut cfg = GenCfg::random(rng);
            cfg.metric = true;
            cfg.multi_jobs = i % 2 == 0 || cfg.multi_jobs;
            cfg.reloads = i % 3 == 0 || cfg.reloads;
            cfg.jobs = (6, 18);
            // multi-task jobs and alternative places are only identifiable in a solution through tags
            cfg.tags = cfg.tags || cfg.multi_jobs || cfg.alt_places;
            // one history in four runs on long tours (the stochastic leg selection only samples from 16-32 legs on)
            let long = i % 4 == 3;
            let cfg = if long { GenCfg::long_tours() } else { cfg };
            // one history in four has tight tour size limits, pickup-and-delivery jobs and relations,
            // and spends half of its steps in the operators that repair a solution or redistribute jobs: the places where
            // limits and locks are re-checked outside the ordinary insertion path
            let tight = !long && (i % 8 == 5 || i % 8 == 1);
            let cfg = if tight {
                let mut c = cfg;
                c.multi_jobs = true;
                c.tags = true;
                c.limits = true;
                c.reloads = false;
                c
            } else {
                cfg
            };
            let mut sp = gen_problem(rng, &cfg);
            if tight {
                for v in sp.vehicles.iter_mut() {
                    v.tour_size = Some(rng.usize(3, 5));
                    v.max_distance = None;
                    v.max_duration = None;
                }
            }
            // one history in three runs under explicit objectives which keep per-solution aggregates (work balance,
            // compact tours, soft tour order): their cached values must follow every step as well
            if i % 3 == 2 {
                sp.objectives = gen_objectives(rng, &sp);
            }
            // on long tours three steps in four are ruin+recreate pairs (odd script numbers): they re-insert multi-part jobs
            // through the sampling leg selection
            let ops: Vec<u64> = (0..if long { steps * 2 } else { steps })
                .map(|_| {
                    let r = rng.next() % 100_000;
                    if long && rng.chance(1, 2) {
                        r | 1
                    } else if tight && rng.chance(1, 2) {
                        1_000_000 + rng.next() % 6
                    } else {
                        r
                    }
                })
                .collect();
            json!({"k": "history", "sp": sp, "ops": ops, "relations": i % 3 == 1 || tight, "rseed": rng.next() % 1000})
        })
        .collect()
}

/// elementary-step traces: the real bookkeeping functions driven directly (removal tracker through hook H3, the
/// insertion heuristic through its public `process` with an observing evaluator)
fn gen_machine_cases(rng: &mut Rng, tier: Tier) -> Vec<Value> {
    let n = if tier == Tier::Thorough { 3000 } else { 300 };
    (0..n)
        .map(|i| {
            let mut cfg = GenCfg::basic();
            cfg.multi_jobs = rng.chance(1, 2);
            cfg.skills = rng.chance(1, 4);
            cfg.multi_dim = rng.chance(1, 4);
            cfg.tags = true;
            cfg.jobs = (4, 12);
            let sp = gen_problem(rng, &cfg);
            let calls: Vec<u64> = (0..rng.usize(10, 40)).map(|_| rng.next() % 1_000_000).collect();
            json!({"k": "machine", "sp": sp, "calls": calls, "relations": i % 2 == 0, "rseed": rng.next() % 1000})
        })
        .collect()
}

fn sha(v: &Value) -> String {
    // cheap stable fingerprint (FNV-1a over the canonical text); only compared for equality
    let text = serde_json::to_string(v).unwrap();
    let mut h: u64 = 0xcbf29ce484222325;
    for b in text.bytes() {
        h ^= b as u64;
        h = h.wrapping_mul(0x100000001b3);
    }
    format!("{h:016x}:{}", text.len())
}

struct Ids {
    jobs: HashMap<Job, usize>,
}

impl Ids {
    fn new(problem: &vrp_core::models::Problem) -> Self {
        Self { jobs: problem.jobs.all().iter().enumerate().map(|(i, j)| (j.clone(), i)).collect() }
    }
    fn id(&self, job: &Job) -> i64 {
        self.jobs.get(job).map(|i| *i as i64).unwrap_or(-1)
    }
}

fn actor_id(route: &Route) -> String {
    actor_id_of(route.actor.as_ref())
}

fn actor_id_of(actor: &vrp_core::models::problem::Actor) -> String {
    let v = actor.vehicle.dimens.get_vehicle_id().cloned().unwrap_or_default();
    // one actor per (vehicle, shift): shift start time distinguishes shifts
    format!("{v}@{}", actor.detail.time.start as i64)
}

fn digests(problem: &vrp_core::models::Problem, route_ctx: &RouteContext) -> (Value, Value) {
    let have = json!(route_ctx.state().verif_digest());
    let mut fresh = RouteContext::new_with_state(
        Route { actor: route_ctx.route().actor.clone(), tour: route_ctx.route().tour.deep_copy() },
        RouteState::default(),
    );
    problem.goal.accept_route_state(&mut fresh);
    (have, json!(fresh.state().verif_digest()))
}

/// bookkeeping of a context in canonical form (job identity = index in `problem.jobs.all()`)
fn bookkeeping(ids: &Ids, ctx: &InsertionContext) -> Value {
    let mut routes: Vec<Value> = ctx
        .solution
        .routes
        .iter()
        .map(|rc| {
            let route = rc.route();
            // per activity: (job index, index of the single inside its multi job or -1)
            let acts: Vec<Value> = route
                .tour
                .all_activities()
                .filter_map(|a| a.job.as_ref())
                .map(|single| {
                    let job = a_job(single);
                    let sub = match &job {
                        Job::Multi(m) => m.jobs.iter().position(|s| Arc::ptr_eq(s, single)).map(|p| p as i64).unwrap_or(-2),
                        Job::Single(_) => -1,
                    };
                    json!([ids.id(&job), sub])
                })
                .collect();
            let mut set: Vec<i64> = route.tour.jobs().map(|j| ids.id(j)).collect();
            set.sort();
            json!({"actor": actor_id(route), "acts": acts, "job_set": set, "job_count": route.tour.job_count(),
                   "stale": rc.is_stale()})
        })
        .collect();
    routes.sort_by_key(|r| r["actor"].as_str().unwrap().to_string());
    let sorted = |it: &mut dyn Iterator<Item = i64>| {
        let mut v: Vec<i64> = it.collect();
        v.sort();
        v
    };
    let mut available: Vec<String> = ctx
        .solution
        .registry
        .resources()
        .available()
        .map(|actor| actor_id_of(actor.as_ref()))
        .collect();
    available.sort();
    json!({
        "routes": routes,
        "required": sorted(&mut ctx.solution.required.iter().map(|j| ids.id(j))),
        "ignored": sorted(&mut ctx.solution.ignored.iter().map(|j| ids.id(j))),
        "unassigned": sorted(&mut ctx.solution.unassigned.keys().map(|j| ids.id(j))),
        "locked": sorted(&mut ctx.solution.locked.iter().map(|j| ids.id(j))),
        "available": available,
    })
}

fn a_job(single: &Arc<vrp_core::models::problem::Single>) -> Job {
    vrp_core::models::problem::Multi::roots(single).map(Job::Multi).unwrap_or_else(|| Job::Single(single.clone()))
}

fn full_digest(problem: &vrp_core::models::Problem, ids: &Ids, ctx: &InsertionContext) -> Value {
    // everything observable about a context: bookkeeping, schedules and cached values
    let routes: Vec<Value> = ctx
        .solution
        .routes
        .iter()
        .map(|rc| {
            let sched: Vec<Value> =
                rc.route().tour.all_activities().map(|a| json!([a.schedule.arrival, a.schedule.departure, a.place.location])).collect();
            json!({"actor": actor_id(rc.route()), "sched": sched, "digest": rc.state().verif_digest()})
        })
        .collect();
    let fitness: Vec<String> = problem.goal.fitness(ctx).map(|f| format!("{f:?}")).collect();
    json!({"book": bookkeeping(ids, ctx), "routes": routes, "state": ctx.solution.state.verif_digest(), "fitness": fitness})
}

/// per-solution caches: everything in the solution state except the tabu list, which is the search's memory of
/// recently removed jobs (written by ruin methods, never derived from the tours)
fn sol_digest(ctx: &InsertionContext) -> Vec<(String, String)> {
    ctx.solution.state.verif_digest().into_iter().filter(|(k, _)| k != "TabuListSolutionStateKey").collect()
}

struct Observing {
    inner: PositionInsertionEvaluator,
    ids: Arc<Ids>,
    evals: Arc<Mutex<Vec<Value>>>,
}

impl InsertionEvaluator for Observing {
    fn evaluate_all(
        &self,
        insertion_ctx: &InsertionContext,
        jobs: &[&Job],
        routes: &[&RouteContext],
        leg_selection: &LegSelection,
        result_selector: &dyn ResultSelector,
    ) -> InsertionResult {
        // the state seen here is the state right after the previous applied result
        let state = bookkeeping(&self.ids, insertion_ctx);
        let result = self.inner.evaluate_all(insertion_ctx, jobs, routes, leg_selection, result_selector);
        let what = match &result {
            InsertionResult::Success(success) => json!({"success": [self.ids.id(&success.job), actor_id_of(success.actor.as_ref())]}),
            InsertionResult::Failure(failure) => json!({"failure": failure.job.as_ref().map(|j| self.ids.id(j))}),
        };
        self.evals.lock().unwrap().push(json!({"state": state, "result": what}));
        result
    }
}

fn exec_machine(case: &Value) -> Value {
    let mut sp: SProblem = serde_json::from_value(case["sp"].clone()).unwrap();
    let calls: Vec<u64> = case["calls"].as_array().unwrap().iter().map(|x| x.as_u64().unwrap()).collect();
    let with_relations = case["relations"].as_bool().unwrap_or(false);
    let rseed = case["rseed"].as_u64().unwrap_or(0);
    let result = isolated(1, move || -> Result<Value, String> {
        if with_relations {
            let problem = sp.read().map_err(|c| format!("generated problem is invalid: {c:?}"))?;
            if let Ok((_, sol)) = solve_default(problem, quiet_env(), 20) {
                sp.relations = derive_relations(&sp, &sol, rseed);
            }
        }
        let problem = sp.read().map_err(|c| format!("generated problem is invalid: {c:?}"))?;
        let env = Arc::new(Environment {
            random: Arc::new(DefaultRandom::new_repeatable()),
            quota: None,
            parallelism: Parallelism::new(1, 1),
            logger: Arc::new(|_: &str| {}),
            is_experimental: false,
        });
        let ids = Arc::new(Ids::new(&problem));
        let job_sizes: Vec<usize> = problem.jobs.all().iter().map(|j| match j { Job::Multi(m) => m.jobs.len(), Job::Single(_) => 1 }).collect();
        let mut actors: Vec<String> = problem.fleet.actors.iter().map(|actor| actor_id_of(actor.as_ref())).collect();
        actors.sort();
        let mut ctx = InsertionContext::new(problem.clone(), env.clone());
        let mut events = vec![json!({"ev": "init", "state": bookkeeping(&ids, &ctx)})];
        let mut tracker: Option<JobRemovalTracker> = None;
        let process = |ctx: InsertionContext, events: &mut Vec<Value>| -> InsertionContext {
            let evals = Arc::new(Mutex::new(vec![]));
            let heuristic = InsertionHeuristic::new(Box::new(Observing {
                inner: PositionInsertionEvaluator::default(),
                ids: ids.clone(),
                evals: evals.clone(),
            }));
            let out = heuristic.process(
                ctx,
                &AllJobSelector::default(),
                &AllRouteSelector::default(),
                &LegSelection::Exhaustive,
                &BestResultSelector::default(),
            );
            events.push(json!({"ev": "process", "evals": evals.lock().unwrap().clone(), "state": bookkeeping(&ids, &out)}));
            out
        };
        // a first construction, then the scripted calls
        ctx = process(ctx, &mut events);
        for c in calls.iter() {
            let kind = c % 10;
            let pick = (c / 10) as usize;
            match kind {
                0 => {
                    // fresh removal tracker with an exact budget (ranges of width zero), small ones included
                    let acts = pick % 7;
                    let routes = (pick / 7) % 4;
                    let limits = RemovalLimits { removed_activities_range: acts..acts, affected_routes_range: routes..routes };
                    tracker = Some(JobRemovalTracker::new(&limits, env.random.as_ref()));
                    events.push(json!({"ev": "new_tracker", "acts": acts, "routes": routes}));
                }
                1..=4 => {
                    if let (Some(tr), false) = (tracker.as_mut(), ctx.solution.routes.is_empty()) {
                        let r = pick % ctx.solution.routes.len();
                        let all = problem.jobs.all();
                        // mostly a job of that route, sometimes any job of the problem (absent, locked, unassigned ...)
                        let in_route: Vec<Job> = ctx.solution.routes[r].route().tour.jobs().cloned().collect();
                        let job = if (pick / 64) % 4 != 0 && !in_route.is_empty() { in_route[(pick / 256) % in_route.len()].clone() } else { all[(pick / 256) % all.len()].clone() };
                        let actor = actor_id(ctx.solution.routes[r].route());
                        let result = tr.try_remove_job(&mut ctx.solution, r, &job);
                        events.push(json!({"ev": "remove_job", "actor": actor, "job": ids.id(&job), "result": result, "limit": tr.is_limit(), "state": bookkeeping(&ids, &ctx)}));
                    }
                }
                5 | 6 => {
                    if let (Some(tr), false) = (tracker.as_mut(), ctx.solution.routes.is_empty()) {
                        let r = pick % ctx.solution.routes.len();
                        let actor = actor_id(ctx.solution.routes[r].route());
                        let result = tr.try_remove_route(&mut ctx.solution, r, env.random.as_ref());
                        events.push(json!({"ev": "remove_route", "actor": actor, "result": result, "limit": tr.is_limit(), "state": bookkeeping(&ids, &ctx)}));
                    }
                }
                7 => {
                    ctx.restore();
                    events.push(json!({"ev": "restore", "state": bookkeeping(&ids, &ctx)}));
                }
                _ => {
                    ctx = process(ctx, &mut events);
                }
            }
        }
        Ok(json!({"jobs": problem.jobs.size(), "job_sizes": job_sizes, "actors": actors, "events": events}))
    });
    match result {
        Err(_) => json!({"panic": format!("machine trace panicked: {}", last_panic())}),
        Ok(Err(e)) => json!({"error": e}),
        Ok(Ok(v)) => v,
    }
}

pub fn exec(case: &Value) -> Value {
    if case["k"] == "machine" {
        return exec_machine(case);
    }
    let mut sp: SProblem = serde_json::from_value(case["sp"].clone()).unwrap();
    let ops_idx: Vec<u64> = case["ops"].as_array().unwrap().iter().map(|x| x.as_u64().unwrap()).collect();
    let with_relations = case["relations"].as_bool().unwrap_or(false);
    let rseed = case["rseed"].as_u64().unwrap_or(0);
    let result = isolated(1, move || -> Result<Value, String> {
        let mut sp_final = Value::Null;
        if with_relations {
            let problem = sp.read().map_err(|c| format!("generated problem is invalid: {c:?}"))?;
            if let Ok((_, sol)) = solve_default(problem, quiet_env(), 20) {
                sp.relations = derive_relations(&sp, &sol, rseed);
                sp_final = serde_json::to_value(&sp).unwrap();
            }
        }
        let problem = sp.read().map_err(|c| format!("generated problem is invalid: {c:?}"))?;
        let sp_tasks: HashMap<String, usize> =
            sp.jobs.iter().map(|j| (j.id.clone(), j.tasks.iter().filter(|t| t.kind == "pickup").count())).collect();
        let env = Arc::new(Environment {
            random: Arc::new(DefaultRandom::new_repeatable()),
            quota: None,
            parallelism: Parallelism::new(1, 1),
            logger: Arc::new(|_: &str| {}),
            is_experimental: false,
        });
        let ids = Ids::new(&problem);
        let population = create_elitism_population(problem.goal.clone(), env.clone());
        let rctx = RefinementContext::new(problem.clone(), Box::new(population), TelemetryMode::None, env.clone());
        let operators = verif_default_operators(problem.clone(), env.clone());
        // operators that are shipped but not part of the named default list: the diversification composite of the
        // default heuristic (hook) and, individually, redistribution, infeasible search with repair, sequence
        // exchange and LKH in its diverse mode (public constructors, parameters as the default heuristic uses)
        let mut operators = operators;
        let cheapest: Arc<dyn Recreate> = Arc::new(RecreateWithCheapest::new(env.random.clone()));
        let inner: TargetSearchOperator = operators.iter().find(|(_, n, _)| n.contains('+')).map(|(o, _, _)| o.clone()).unwrap();
        let diversify = verif_default_diversify_operators(problem.clone(), env.clone());
        operators.push((Arc::new(RedistributeSearch::new(cheapest.clone())), "redistribute".to_string(), 1.));
        operators.push((
            Arc::new(InfeasibleSearch::new(inner, cheapest.clone(), 4, (0.05, 0.2), (0.33, 0.75))),
            "infeasible_search".to_string(),
            1.,
        ));
        operators.push((
            Arc::new(LocalSearch::new(Arc::new(CompositeLocalOperator::new(vec![(Arc::new(ExchangeSequence::new(8, 0.5, 0.1)), 1)], 2, 4)))),
            "local_sequence".to_string(),
            1.,
        ));
        operators.push((Arc::new(LKHSearch::new(LKHSearchMode::Diverse)), "lkh_diverse".to_string(), 1.));
        let names: Vec<String> = operators.iter().map(|(_, n, _)| n.clone()).collect();

        let mut cur = RecreateWithCheapest::new(env.random.clone()).run(&rctx, InsertionContext::new(problem.clone(), env.clone()));
        let all_jobs = problem.jobs.size();
        let actors: Vec<String> = {
            let mut a: Vec<String> = problem.fleet.actors.iter().map(|actor| actor_id_of(actor.as_ref())).collect();
            a.sort();
            a
        };
        let mut steps = vec![];
        let render = |ctx: &InsertionContext| -> Value {
            let solution: Solution = ctx.deep_copy().into();
            match solution_json(&problem, &solution) {
                Ok(j) => simplify_solution(&j),
                Err(e) => json!({"write_error": e}),
            }
        };
        steps.push(json!({"op": "initial:cheapest", "book": bookkeeping(&ids, &cur), "solution": render(&cur)}));
        for r in ops_idx.iter() {
            // half of the steps use the (few) non ruin-recreate operators, so that every one of them is exercised
            let singles: Vec<usize> = (0..operators.len()).filter(|i| !operators[*i].1.contains('+')).collect();
            let pairs: Vec<usize> = (0..operators.len()).filter(|i| operators[*i].1.contains('+')).collect();
            // three independent digits of the script number: pool, operator index, diversification (an earlier version
            // derived all three from the same low bits, which never selected three of the single operators)
            let pool = if r % 2 == 0 && !singles.is_empty() { &singles } else { &pairs };
            // script numbers from 1 000 000 on name an operator (the histories with tight tour size limits ask for the
            // operators that repair or redistribute); unknown names fall back to the ordinary choice
            let named = (*r >= 1_000_000)
                .then(|| NAMED_OPERATORS[(*r as usize - 1_000_000) % NAMED_OPERATORS.len()])
                .and_then(|wanted| operators.iter().position(|o| o.1 == wanted));
            let (op, name, _) = &operators[named.unwrap_or(pool[((*r / 16) as usize) % pool.len()])];
            let parent_before_full = if std::env::var("C04_DEBUG").is_ok() { Some(full_digest(&problem, &ids, &cur)) } else { None };
            let parent_before = sha(&full_digest(&problem, &ids, &cur));
            // one step in eight goes through the diversification composite of the default heuristic (hook H8b)
            let (child, name) = if *r < 1_000_000 && (r / 2) % 8 == 6 && !diversify.is_empty() {
                let mut out = diversify[(*r as usize / 16) % diversify.len()].diversify(&rctx, &cur);
                if out.is_empty() { (op.search(&rctx, &cur), name.clone()) } else { (out.remove(0), "diversify".to_string()) }
            } else {
                (op.search(&rctx, &cur), name.clone())
            };
            let name = &name;
            if std::env::var("C04_DEBUG").is_ok() {
                for rc in child.solution.routes.iter() {
                    if rc.route().tour.all_activities().any(|a| a.schedule.departure > 1e12 || a.schedule.arrival > 1e12) {
                        eprintln!("HUGE SCHEDULE after {name}: {:?}", rc.route().tour.all_activities().map(|a| (a.schedule.arrival, a.schedule.departure)).collect::<Vec<_>>());
                    }
                }
            }
            let parent_after = sha(&full_digest(&problem, &ids, &cur));
            if std::env::var("C04_DEBUG").is_ok() && parent_after != parent_before {
                eprintln!("PARENT CHANGED by {name}:\nBEFORE {}\nAFTER  {}", serde_json::to_string(&parent_before_full).unwrap(), serde_json::to_string(&full_digest(&problem, &ids, &cur)).unwrap());
            }
            // discard every cache of the child (route states and solution state) and recompute from the bare tours
            let cache_pairs: Vec<Value> = {
                let mut copy = child.deep_copy();
                copy.solution.routes = copy
                    .solution
                    .routes
                    .iter()
                    .map(|rc| {
                        RouteContext::new_with_state(
                            Route { actor: rc.route().actor.clone(), tour: rc.route().tour.deep_copy() },
                            RouteState::default(),
                        )
                    })
                    .collect();
                copy.solution.state = Default::default();
                copy.solution.routes.iter_mut().for_each(|rc| problem.goal.accept_route_state(rc));
                problem.goal.accept_solution_state(&mut copy.solution);
                let fit = |c: &InsertionContext| json!(problem.goal.fitness(c).map(|f| format!("{f:?}")).collect::<Vec<_>>());
                let mut pairs: Vec<Value> = child
                    .solution
                    .routes
                    .iter()
                    .map(|rc| {
                        let fresh = copy.solution.routes.iter().find(|r| actor_id(r.route()) == actor_id(rc.route()));
                        let sched = |r: &RouteContext| -> Value {
                            json!(r.route().tour.all_activities().map(|a| json!([a.schedule.arrival, a.schedule.departure])).collect::<Vec<_>>())
                        };
                        json!([
                            sha(&json!([rc.state().verif_digest(), sched(rc)])),
                            sha(&fresh.map(|r| json!([r.state().verif_digest(), sched(r)])).unwrap_or(Value::Null))
                        ])
                    })
                    .collect();
                pairs.push(json!([sha(&json!(sol_digest(&child))), sha(&json!(sol_digest(&copy)))]));
                pairs.push(json!([sha(&fit(&child)), sha(&fit(&copy))]));
                if std::env::var("C04_DEBUG").is_ok() {
                    if sol_digest(&child) != sol_digest(&copy) {
                        eprintln!("SOLSTATE DIFF after {name}:\nHAVE  {:?}\nFRESH {:?}", sol_digest(&child), sol_digest(&copy));
                    }
                    if fit(&child) != fit(&copy) {
                        eprintln!("FIT DIFF after {name}:\nHAVE  {:?}\nFRESH {:?}", fit(&child), fit(&copy));
                    }
                    for rc in child.solution.routes.iter() {
                        if let Some(fresh) = copy.solution.routes.iter().find(|r| actor_id(r.route()) == actor_id(rc.route())) {
                            if rc.state().verif_digest() != fresh.state().verif_digest() {
                                eprintln!("CACHE DIFF after {name}:\nHAVE  {:?}\nFRESH {:?}", rc.state().verif_digest(), fresh.state().verif_digest());
                            }
                        }
                    }
                }
                pairs
            };
            steps.push(json!({
                "op": name, "book": bookkeeping(&ids, &child), "solution": render(&child),
                "parent_before": parent_before, "parent_after": parent_after, "caches": cache_pairs,
            }));
            cur = child;
        }
        let single_names: Vec<&String> = names.iter().filter(|n| !n.contains('+')).collect();
        let job_sizes: Vec<usize> = problem.jobs.all().iter().map(|j| match j { Job::Multi(m) => m.jobs.len(), Job::Single(_) => 1 }).collect();
        // number of pickup parts of every multi job: the reader puts the pickup tasks first and permits every order
        // that keeps all of them before the other parts (`deliveries_start_index`)
        let job_pickups: Vec<usize> = problem
            .jobs
            .all()
            .iter()
            .map(|j| match j {
                Job::Multi(m) => {
                    let id = m.dimens.get_job_id().cloned().unwrap_or_default();
                    sp_tasks.get(&id).cloned().unwrap_or(0)
                }
                Job::Single(_) => 0,
            })
            .collect();
        // pinned jobs: every lock detail of the problem with the actors its condition admits
        let order_name = |o: &LockOrder| match o { LockOrder::Any => "any", LockOrder::Sequence => "sequence", LockOrder::Strict => "strict" };
        let pins: Vec<Value> = problem
            .locks
            .iter()
            .flat_map(|lock| {
                let mut admitted: Vec<String> =
                    problem.fleet.actors.iter().filter(|a| (lock.condition_fn)(a.as_ref())).map(|a| actor_id_of(a.as_ref())).collect();
                admitted.sort();
                lock.details
                    .iter()
                    .map(|d| json!({"actors": admitted, "order": order_name(&d.order), "jobs": d.jobs.iter().map(|j| ids.id(j)).collect::<Vec<_>>()}))
                    .collect::<Vec<_>>()
            })
            .collect();
        Ok(json!({"pins": pins, "job_pickups": job_pickups, "job_sizes": job_sizes, "jobs": all_jobs, "actors": actors, "operator_count": names.len(), "single_operators": single_names, "steps": steps, "sp_final": sp_final}))
    });
    match result {
        Err(_) => json!({"panic": format!("operator history panicked: {}", last_panic())}),
        Ok(Err(e)) => json!({"error": e}),
        Ok(Ok(v)) => v,
    }
}

#[allow(dead_code)]
fn main() {
    run_main(
        |rng, tier| {
            let mut cases = gen_cases(rng, tier);
            cases.extend(gen_machine_cases(rng, tier));
            cases
        },
        exec,
    );
}
