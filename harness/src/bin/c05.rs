//! C05 — cached tour state equals recomputation from the bare tours: construction histories through the
//! real `InsertionHeuristic`; after EVERY applied insertion (observed by a wrapping `InsertionEvaluator`)
//! and at hand-over the cached values (hook H1 digest) are dumped together with the bare tours and with
//! the digest obtained by discarding the caches and recomputing.

// operator histories (generation and execution) are shared with the C04 harness
#[allow(dead_code)]
#[path = "c04.rs"]
mod c04;

use serde_json::{Value, json};
use std::sync::{Arc, Mutex};
use vrp_core::construction::heuristics::*;
use vrp_core::models::problem::{Job, JobIdDimension, VehicleIdDimension};
use vrp_core::rosomaxa::prelude::HeuristicSolution;
use vrp_verif_harness::evalcase::*;
use vrp_verif_harness::evalgen::*;
use vrp_verif_harness::pragen::quiet_env;
use vrp_verif_harness::*;

fn gen_cases(rng: &mut Rng, tier: Tier) -> Vec<Value> {
    let n = if tier == Tier::Thorough { 8000 } else { 300 };
    (0..n)
        .map(|i| {
            let mut c = gen_multi_route_case(rng, i % 2 == 0);
            c["k"] = json!("construct");
            c["obj"] = json!(if rng.chance(1, 2) { "cost" } else { "distance" });
            c
        })
        .collect::<Vec<_>>()
        .into_iter()
        .chain(history_cases(rng, tier))
        // S61 (repaired): the group tag of a tour survives a refresh of the tour's state - a deterministic scenario
        .chain(std::iter::once(json!({"k": "group_refresh"})))
        .collect()
}

/// operator histories (every shipped search operator, see the C04 harness): only the cache comparison is kept
fn history_cases(rng: &mut Rng, tier: Tier) -> Vec<Value> {
    let keep = if tier == Tier::Thorough { 600 } else { 60 };
    // histories under explicit objectives with per-solution aggregates come first, then the others
    let mut all = c04::gen_cases(rng, tier);
    all.sort_by_key(|c| c["sp"]["objectives"].as_array().is_none_or(|o| o.is_empty()));
    all.truncate(keep);
    all
}

fn exec_history(case: &Value) -> Value {
    let out = c04::exec(case);
    match out.get("steps").and_then(|s| s.as_array()) {
        Some(steps) => {
            let steps: Vec<Value> = steps.iter().map(|s| json!({"op": s["op"], "caches": s["caches"], "stale": s["book"]["routes"].as_array().map(|r| r.iter().any(|x| x["stale"] == true)).unwrap_or(false)})).collect();
            json!({"history": steps})
        }
        None => out,
    }
}

fn digest_json(d: Vec<(String, String)>) -> Value {
    json!(d.into_iter().map(|(k, v)| json!([k, v])).collect::<Vec<_>>())
}

fn route_json(problem: &vrp_core::models::Problem, route_ctx: &RouteContext) -> Value {
    let route = route_ctx.route();
    let acts: Vec<Value> = route
        .tour
        .all_activities()
        .filter(|a| a.job.is_some())
        .map(|a| {
            let id = a.job.as_ref().and_then(|s| s.dimens.get_job_id().cloned()).unwrap_or_default();
            json!({"id": id, "loc": a.place.location, "s": a.place.time.start as i64, "e": a.place.time.end as i64, "dur": a.place.duration as i64})
        })
        .collect();
    let sched: Vec<Value> = route.tour.all_activities().map(|a| json!([a.schedule.arrival as i64, a.schedule.departure as i64])).collect();
    // discard the caches and recompute from the bare tour
    let mut fresh = RouteContext::new_with_state(
        vrp_core::models::solution::Route { actor: route.actor.clone(), tour: route.tour.deep_copy() },
        RouteState::default(),
    );
    problem.goal.accept_route_state(&mut fresh);
    let fresh_sched: Vec<Value> = fresh.route().tour.all_activities().map(|a| json!([a.schedule.arrival as i64, a.schedule.departure as i64])).collect();
    let vid = route.actor.vehicle.dimens.get_vehicle_id().cloned().unwrap_or_default();
    json!({
        "vid": vid[1..].parse::<usize>().unwrap(),
        "dep": route.tour.start().unwrap().schedule.departure as i64,
        "acts": acts, "sched": sched, "stale": route_ctx.is_stale(),
        "digest": digest_json(route_ctx.state().verif_digest()),
        "recomputed": {"sched": fresh_sched, "digest": digest_json(fresh.state().verif_digest())},
    })
}

fn snapshot(at: &str, ctx: &InsertionContext) -> Value {
    let mut routes: Vec<Value> = ctx.solution.routes.iter().map(|r| route_json(&ctx.problem, r)).collect();
    routes.sort_by_key(|r| r["vid"].as_u64());
    // solution level: strip and recompute everything on a deep copy
    let mut copy = ctx.deep_copy();
    copy.solution.routes = copy
        .solution
        .routes
        .iter()
        .map(|r| {
            RouteContext::new_with_state(
                vrp_core::models::solution::Route { actor: r.route().actor.clone(), tour: r.route().tour.deep_copy() },
                RouteState::default(),
            )
        })
        .collect();
    copy.solution.state = Default::default();
    copy.solution.routes.iter_mut().for_each(|r| ctx.problem.goal.accept_route_state(r));
    ctx.problem.goal.accept_solution_state(&mut copy.solution);
    let fitness = |c: &InsertionContext| -> Vec<String> { ctx.problem.goal.fitness(c).map(|f| format!("{f:?}")).collect() };
    json!({
        "at": at, "routes": routes,
        "solution_digest": digest_json(ctx.solution.state.verif_digest()),
        "fitness": fitness(ctx),
        "recomputed": {"solution_digest": digest_json(copy.solution.state.verif_digest()), "fitness": fitness(&copy)},
    })
}

struct Observing {
    inner: PositionInsertionEvaluator,
    snaps: Arc<Mutex<Vec<Value>>>,
}

impl InsertionEvaluator for Observing {
    fn evaluate_all(
        &self,
        insertion_ctx: &InsertionContext,
        jobs: &[&Job],
        routes: &[&RouteContext],
        leg_selection: &LegSelection,
        result_selector: &dyn ResultSelector,
    ) -> InsertionResult {
        // the state seen here is the state right after the previous applied insertion
        let n = self.snaps.lock().unwrap().len();
        self.snaps.lock().unwrap().push(snapshot(&format!("before-evaluate-{n}"), insertion_ctx));
        self.inner.evaluate_all(insertion_ctx, jobs, routes, leg_selection, result_selector)
    }
}

/// two jobs of one group, two vehicles; the first tour serves job a; is job b refused for the second tour - before and after the
/// goal refreshes the state of the first tour (as the solution repair does after it took a job out of a tour)?
fn exec_group_refresh() -> Value {
    use vrp_core::construction::features::{JobGroupDimension, create_group_feature};
    use vrp_core::construction::heuristics::MoveContext;
    use vrp_core::models::solution::Activity;
    use vrp_core::prelude::*;
    let job = |id: &str, loc: usize| {
        SingleBuilder::default()
            .id(id)
            .dimension(|d| {
                d.set_job_group("g1".to_string());
            })
            .location(loc)
            .unwrap()
            .build_as_job()
            .unwrap()
    };
    let (a, b) = (job("a", 1), job("b", 2));
    let vehicle = |id: &str| VehicleBuilder::default().id(id).add_detail(VehicleDetailBuilder::default().set_start_location(0).build().unwrap()).build().unwrap();
    let m = vec![0., 1., 1., 1., 0., 1., 1., 1., 0.];
    let transport = Arc::new(SimpleTransportCost::new(m.clone(), m).unwrap());
    let goal = GoalContextBuilder::with_features(&[
        MinimizeUnassignedBuilder::new("min-unassigned").build().unwrap(),
        create_group_feature("group", 2, ViolationCode(1)).unwrap(),
    ])
    .unwrap()
    .build()
    .unwrap();
    let problem = Arc::new(
        ProblemBuilder::default()
            .add_jobs(vec![a.clone(), b.clone()].into_iter())
            .add_vehicles(vec![vehicle("v1"), vehicle("v2")].into_iter())
            .with_goal(goal)
            .with_transport_cost(transport)
            .build()
            .unwrap(),
    );
    let mut ctx = InsertionContext::new(problem.clone(), quiet_env());
    let actors = problem.fleet.actors.clone();
    let mut r1 = ctx.solution.registry.get_route(&actors[0]).unwrap();
    r1.route_mut().tour.insert_last(Activity::new_with_job(a.to_single().clone()));
    ctx.solution.routes.push(r1);
    ctx.solution.required.retain(|j| *j != a);
    ctx.solution.unassigned.retain(|j, _| *j != a);
    let r2 = ctx.solution.registry.get_route(&actors[1]).unwrap();
    ctx.solution.routes.push(r2);
    problem.goal.accept_solution_state(&mut ctx.solution);
    let refused = |ctx: &InsertionContext| problem.goal.evaluate(&MoveContext::route(&ctx.solution, &ctx.solution.routes[1], &b)).is_some();
    let before = refused(&ctx);
    let _ = ctx.solution.routes[0].route_mut(); // a mutable access marks the tour stale
    problem.goal.clone().accept_route_state(&mut ctx.solution.routes[0]);
    let after = refused(&ctx);
    json!({"refused_before_refresh": before, "refused_after_refresh": after})
}

fn exec(case: &Value) -> Value {
    if case["k"] == "group_refresh" {
        return exec_group_refresh();
    }
    if case["k"] == "history" {
        return exec_history(case);
    }
    let mc = build_multi_case(case, quiet_env());
    let snaps = Arc::new(Mutex::new(vec![]));
    let heuristic = InsertionHeuristic::new(Box::new(Observing { inner: PositionInsertionEvaluator::default(), snaps: snaps.clone() }));
    let result = heuristic.process(
        mc.ctx.deep_copy(),
        &AllJobSelector::default(),
        &AllRouteSelector::default(),
        &LegSelection::Exhaustive,
        &BestResultSelector::default(),
    );
    let mut all = snaps.lock().unwrap().clone();
    all.push(snapshot("hand-over", &result));
    let unassigned = result.solution.unassigned.len();
    json!({"snaps": all, "unassigned": unassigned})
}

fn main() {
    run_main(gen_cases, exec);
}
