//! C06 — insertion evaluation vs brute-force simulation: runs the real `eval_job_insertion_in_route`
//! (Exhaustive legs, BestResultSelector) for `Any` and every `Concrete(p)` on generated tours.

use serde_json::{Value, json};
use vrp_core::construction::heuristics::*;
use vrp_verif_harness::evalcase::*;
use vrp_verif_harness::evalgen::*;
use vrp_verif_harness::pragen::quiet_env;
use vrp_verif_harness::*;

// tours with reload markers (capacity per route interval): generator and executor of the case kind "iv"
#[allow(dead_code)]
#[path = "c06iv.rs"]
mod c06iv;

fn gen_cases(rng: &mut Rng, tier: Tier) -> Vec<Value> {
    let scale = if tier == Tier::Thorough { 30 } else { 1 };
    let mut cases = vec![];
    for _ in 0..(2500 * scale) {
        cases.push(gen_case(rng, "single"));
    }
    for _ in 0..(800 * scale) {
        cases.push(gen_case(rng, "multi"));
    }
    // last, so that the streams above stay what they were: tours with reload markers
    cases.extend(c06iv::gen_cases(rng, tier));
    cases
}

fn ints(cost: &InsertionCost) -> Vec<i64> {
    cost.iter()
        .map(|v| {
            assert!(v.fract() == 0. && v.abs() < 9.0e15, "non-integral cost {v}");
            v as i64
        })
        .collect()
}

pub fn result_json(res: &InsertionResult) -> Value {
    match res {
        InsertionResult::Success(s) => {
            let acts: Vec<Value> = s
                .activities
                .iter()
                .map(|(a, idx)| {
                    json!({"idx": idx, "place": a.place.idx, "loc": a.place.location, "dur": a.place.duration as i64,
                           "tw": [a.place.time.start as i64, a.place.time.end as i64]})
                })
                .collect();
            json!({"acts": acts, "cost": ints(&s.cost)})
        }
        InsertionResult::Failure(_) => Value::Null,
    }
}

fn exec(case: &Value) -> Value {
    if case["k"] == "iv" {
        return c06iv::exec(case);
    }
    let ec = build_case(case, quiet_env());
    let route_ctx = match ec.ctx.solution.routes.first() {
        Some(r) => r.deep_copy(),
        None => ec.ctx.solution.registry.next_route().next().expect("a free route").deep_copy(),
    };
    let leg_selection = LegSelection::Exhaustive;
    let result_selector = BestResultSelector::default();
    let eval_ctx = EvaluationContext { goal: &ec.problem.goal, job: &ec.job, leg_selection: &leg_selection, result_selector: &result_selector };
    let legs = route_ctx.route().tour.legs().count();
    let eval = |pos: InsertionPosition| {
        result_json(&eval_job_insertion_in_route(&ec.ctx, &eval_ctx, &route_ctx, pos, InsertionResult::make_failure()))
    };
    let any = eval(InsertionPosition::Any);
    let concrete: Vec<Value> = (0..legs).map(|p| eval(InsertionPosition::Concrete(p))).collect();
    // observed schedule of the base tour (ties the forward pass of the model as well)
    let sched: Vec<Value> = route_ctx
        .route()
        .tour
        .all_activities()
        .map(|a| json!([a.schedule.arrival as i64, a.schedule.departure as i64]))
        .collect();
    json!({"legs": legs, "any": any, "concrete": concrete, "sched": sched})
}

fn main() {
    run_main(gen_cases, exec);
}
