//! C06 (route intervals) — insertion evaluation on tours WITH reload markers: the capacity feature is built by
//! `ReloadFeatureFactory::build_simple` (`CapacitatedMultiTrip` over `RouteIntervals::Multiple`), the tour holds
//! marker activities, and the real `eval_job_insertion_in_route` (Exhaustive legs, BestResultSelector) is run for
//! `Any` and every `Concrete(p)`. Besides the results the cached per-activity loads (`current`, `max_past`,
//! `max_future`) and the marker intervals are reported, so that the model of `recalculate_states` is compared exactly.
//!
//! Case kind `"k": "iv"`: the fields of a `"single"` case (see `evalcase.rs`) plus `"reload": true` on the tour
//! items which are marker activities (own location, window, duration, no demand).

use serde_json::{Value, json};
use std::sync::Arc;
use vrp_core::construction::enablers::update_route_departure;
use vrp_core::construction::features::*;
use vrp_core::construction::heuristics::*;
use vrp_core::models::common::*;
use vrp_core::models::problem::*;
use vrp_core::models::solution::{Activity, Place as ActPlace};
use vrp_core::models::{Feature, GoalContextBuilder, Problem, ViolationCode};
use vrp_core::prelude::{Environment, ProblemBuilder};
use vrp_verif_harness::evalcase::i64s;
use vrp_verif_harness::evalgen::{gen_matrix, gen_places};
use vrp_verif_harness::pragen::quiet_env;
use vrp_verif_harness::*;

// ---------------------------------------------------------------------------------------------------------------
// generator
// ---------------------------------------------------------------------------------------------------------------

fn zero(dims: usize) -> Vec<i64> {
    vec![0; dims]
}

fn rnd_load(rng: &mut Rng, dims: usize, max: i64) -> Vec<i64> {
    let mut v: Vec<i64> = (0..dims).map(|_| rng.range(0, max)).collect();
    if v.iter().all(|x| *x == 0) {
        let k = rng.usize(0, dims - 1);
        v[k] = 1;
    }
    v
}

fn dem_part(a: &Value, i: usize, dims: usize) -> Vec<i64> {
    if a["dem"].is_null() { zero(dims) } else { i64s(&a["dem"][i]) }
}

fn is_marker(a: &Value) -> bool {
    a["reload"].as_bool().unwrap_or(false)
}

/// per-interval load profile of a tour with markers, as the physical process goes: at the start of every trip
/// (tour start or marker) the static deliveries of the trip are on board together with what was carried over
/// (dynamic load); at the end of the trip the static pickups of the trip are unloaded. Returns the
/// component-wise maximum and whether a non-zero load was carried across some marker.
fn max_load_with_reloads(tour: &[Value], dims: usize) -> (Vec<i64>, bool) {
    let mut trips: Vec<Vec<&Value>> = vec![vec![]];
    for a in tour {
        if is_marker(a) {
            trips.push(vec![]);
        } else {
            trips.last_mut().unwrap().push(a);
        }
    }
    let mut carry = zero(dims);
    let mut mx = zero(dims);
    let mut carried = false;
    for (ti, trip) in trips.iter().enumerate() {
        if ti > 0 && carry.iter().any(|x| *x != 0) {
            carried = true;
        }
        let mut cur = carry.clone();
        let mut picked = zero(dims);
        for a in trip {
            let sd = dem_part(a, 2, dims);
            for k in 0..dims {
                cur[k] += sd[k];
            }
        }
        for k in 0..dims {
            mx[k] = mx[k].max(cur[k]);
        }
        for a in trip {
            let (sp, dp, sd, dd) = (dem_part(a, 0, dims), dem_part(a, 1, dims), dem_part(a, 2, dims), dem_part(a, 3, dims));
            for k in 0..dims {
                cur[k] += sp[k] + dp[k] - sd[k] - dd[k];
                picked[k] += sp[k];
                mx[k] = mx[k].max(cur[k]);
            }
        }
        for k in 0..dims {
            carry[k] = cur[k] - picked[k];
        }
    }
    (mx, carried)
}

/// a vehicle with a tour of 2-8 activities, 1-3 of them reload markers (rarely none), feasible by construction (windows around
/// the simulated arrival, capacity = max load over all intervals + slack); returns (veh, tour, cap, end time)
fn gen_route_iv(rng: &mut Rng, n: usize, dur: &[i64], dims: usize) -> (Value, Vec<Value>, Vec<i64>, i64) {
    let earliest = rng.range(0, 50);
    let k = rng.usize(2, 8);
    let can_shift = rng.chance(1, 3);
    let dep = if can_shift { earliest + rng.range(0, 20) } else { earliest };
    let latest = if can_shift { if rng.chance(1, 2) { Value::Null } else { json!(dep + rng.range(0, 30)) } } else { json!(earliest) };

    // marker positions: a random subset, sometimes forced to the first / last position or to an adjacent pair
    // (a small share of the tours has no marker at all: route intervals are enabled, `has_markers` is false)
    let nm = if rng.chance(1, 16) { 0 } else { rng.usize(1, 3).min(k) };
    let mut marker = vec![false; k];
    match if nm == 0 { 99 } else { rng.below(8) } {
        0 => marker[0] = true,
        1 => marker[k - 1] = true,
        2 => {
            let p = rng.usize(0, k - 2);
            marker[p] = true;
            marker[p + 1] = true;
        }
        _ => {}
    }
    while marker.iter().filter(|m| **m).count() < nm {
        let p = rng.usize(0, k - 1);
        marker[p] = true;
    }

    let mut tour = vec![];
    let (mut loc, mut t) = (0usize, dep);
    // pending shipments: a dynamic pickup now, the matching dynamic delivery later (maybe after a reload)
    let mut pending: Vec<Vec<i64>> = vec![];
    for is_m in marker.iter().copied() {
        let l = rng.usize(0, n - 1);
        let d = rng.range(0, 10);
        let arr = t + dur[loc * n + l];
        let (s, e) = if is_m && rng.chance(2, 3) {
            (0, 100000)
        } else {
            let s = if rng.chance(1, 3) { arr + rng.range(0, 15) } else { arr - rng.range(0, 20) }.max(0);
            let slack = *rng.pick(&[0i64, 0, 1, 3, 10, 100, 1000]);
            (s, s.max(arr) + slack)
        };
        if is_m {
            tour.push(json!({"loc": l, "s": s, "e": e, "dur": d, "dem": Value::Null, "reload": true}));
        } else {
            let dem = match rng.below(9) {
                0 => Value::Null,
                1 | 2 => json!([rnd_load(rng, dims, 3), zero(dims), zero(dims), zero(dims)]), // static pickup
                3 | 4 => json!([zero(dims), zero(dims), rnd_load(rng, dims, 3), zero(dims)]), // static delivery
                5 | 6 | 7 => {
                    // one half of a shipment: deliver a pending one (most of the time), else pick a new one up
                    if !pending.is_empty() && rng.chance(2, 3) {
                        let p = pending.remove(rng.usize(0, pending.len() - 1));
                        json!([zero(dims), zero(dims), zero(dims), p])
                    } else {
                        let p = rnd_load(rng, dims, 3);
                        pending.push(p.clone());
                        json!([zero(dims), p, zero(dims), zero(dims)])
                    }
                }
                _ => {
                    let x = rnd_load(rng, dims, 2);
                    let y = if rng.chance(1, 2) { x.clone() } else { rnd_load(rng, dims, 2) };
                    json!([x, zero(dims), y, zero(dims)]) // static pickup and static delivery
                }
            };
            tour.push(json!({"loc": l, "s": s, "e": e, "dur": d, "dem": dem}));
        }
        t = arr.max(s) + d;
        loc = l;
    }
    let end = if rng.chance(1, 3) {
        Value::Null
    } else {
        let el = if rng.chance(2, 3) { 0 } else { rng.usize(0, n - 1) };
        let arr = t + dur[loc * n + el];
        json!([el, arr + *rng.pick(&[0i64, 0, 2, 5, 20, 100, 1000])])
    };

    let (mx, _) = max_load_with_reloads(&tour, dims);
    let cap: Vec<i64> = mx.iter().map(|m| m + *rng.pick(&[0i64, 0, 1, 2, 3, 5])).collect();
    (json!({"start": 0, "earliest": earliest, "latest": latest, "dep": dep, "end": end}), tour, cap, t)
}

/// static demand only: none / pickup / delivery / both
fn gen_static_dem(rng: &mut Rng, dims: usize) -> Value {
    match rng.below(8) {
        0 => Value::Null,
        1 | 2 | 3 => json!([rnd_load(rng, dims, 3), zero(dims), zero(dims), zero(dims)]),
        4 | 5 | 6 => json!([zero(dims), zero(dims), rnd_load(rng, dims, 3), zero(dims)]),
        _ => {
            let x = rnd_load(rng, dims, 2);
            let y = if rng.chance(1, 2) { x.clone() } else { rnd_load(rng, dims, 3) };
            json!([x, zero(dims), y, zero(dims)])
        }
    }
}

pub fn gen_case_iv(rng: &mut Rng) -> Value {
    let n = rng.usize(3, 6);
    let metric = rng.chance(1, 2);
    let dur = gen_matrix(rng, n, 30, metric);
    let dist = if rng.chance(1, 3) { dur.clone() } else { gen_matrix(rng, n, 40, metric) };
    let dims = if rng.chance(1, 3) { 2 } else { 1 };
    let (veh, tour, cap, t) = gen_route_iv(rng, n, &dur, dims);
    let horizon = t + 60;
    let costs = json!([rng.range(0, 20), rng.range(1, 3), rng.range(0, 2)]);
    let obj = if rng.chance(1, 2) { "cost" } else { "distance" };
    let mut places = gen_places(rng, n, horizon);
    // half of the candidates can be served at any time, so that the capacity decides
    if rng.chance(1, 2) {
        for p in places.as_array_mut().unwrap() {
            p["tws"][0] = json!([0, 100000]);
        }
    }
    json!({
        "k": "iv", "n": n, "dur": dur, "dist": dist, "veh": veh,
        "cap": cap, "costs": costs, "obj": obj, "tour": tour,
        "job": {"places": places, "dem": gen_static_dem(rng, dims)},
    })
}

pub fn gen_cases(rng: &mut Rng, tier: Tier) -> Vec<Value> {
    let count = if tier == Tier::Thorough { 20000 } else { 800 };
    (0..count).map(|_| gen_case_iv(rng)).collect()
}

// ---------------------------------------------------------------------------------------------------------------
// executor
// ---------------------------------------------------------------------------------------------------------------

fn demand_of<T: LoadOps>(make: &dyn Fn(&[i64]) -> T, dem: &Value) -> Option<Demand<T>> {
    if dem.is_null() {
        return None;
    }
    Some(Demand {
        pickup: (make(&i64s(&dem[0])), make(&i64s(&dem[1]))),
        delivery: (make(&i64s(&dem[2])), make(&i64s(&dem[3]))),
    })
}

fn single_from(id: &str, places: &Value, dem: &Value, dims: usize) -> Single {
    let mut builder = SingleBuilder::default().id(id);
    let ps: Vec<Place> = places
        .as_array()
        .unwrap()
        .iter()
        .map(|p| Place {
            location: Some(p["loc"].as_u64().unwrap() as usize),
            duration: p["dur"].as_i64().unwrap() as f64,
            times: p["tws"]
                .as_array()
                .unwrap()
                .iter()
                .map(|w| TimeSpan::Window(TimeWindow::new(w[0].as_i64().unwrap() as f64, w[1].as_i64().unwrap() as f64)))
                .collect(),
        })
        .collect();
    builder = builder.add_places(ps.into_iter());
    if dims <= 1 {
        if let Some(d) = demand_of(&|x: &[i64]| SingleDimLoad::new(x.first().copied().unwrap_or(0) as i32), dem) {
            builder = builder.demand(d);
        }
    } else if let Some(d) = demand_of(&|x: &[i64]| MultiDimLoad::new(x.iter().map(|v| *v as i32).collect()), dem) {
        builder = builder.demand(d);
    }
    builder.build().unwrap()
}

fn is_reload_single(single: &Single) -> bool {
    single.dimens.get_job_id().is_some_and(|id| id.starts_with("rl"))
}

/// the reload flavour of the capacity feature: marker jobs are the ones whose id starts with "rl", they belong to
/// every route, the threshold of a new interval is the capacity itself
fn reload_capacity_feature<T: LoadOps + Clone>(name: &str) -> Feature {
    ReloadFeatureFactory::<T>::new(name)
        .set_capacity_code(ViolationCode(2))
        .set_is_reload_single(is_reload_single)
        .set_belongs_to_route(|_, job| job.as_single().is_some_and(|s| is_reload_single(s)))
        .set_load_schedule_threshold(|capacity: &T| capacity.clone())
        .build_simple()
        .unwrap()
}

pub struct IvCase {
    pub problem: Arc<Problem>,
    pub ctx: InsertionContext,
    pub job: Job,
    pub dims: usize,
}

/// as `evalcase::build_case`, with the reload flavour of the capacity feature and marker activities in the tour
pub fn build_case_iv(case: &Value, env: Arc<Environment>) -> IvCase {
    let durations: Vec<f64> = i64s(&case["dur"]).into_iter().map(|x| x as f64).collect();
    let distances: Vec<f64> = i64s(&case["dist"]).into_iter().map(|x| x as f64).collect();
    let transport = create_matrix_transport_cost(vec![MatrixData::new(0, None, durations, distances)]).unwrap();
    let cap = i64s(&case["cap"]);
    let dims = cap.len();

    let mut jobs: Vec<Job> = vec![];
    for (i, a) in case["tour"].as_array().unwrap().iter().enumerate() {
        let places = json!([{"loc": a["loc"], "dur": a["dur"], "tws": [[a["s"], a["e"]]]}]);
        let id = if is_marker(a) { format!("rl{i}") } else { format!("t{i}") };
        jobs.push(Job::Single(Arc::new(single_from(&id, &places, &a["dem"], dims))));
    }
    let tour_jobs = jobs.clone();
    let job = Job::Single(Arc::new(single_from("x", &case["job"]["places"], &case["job"]["dem"], dims)));
    jobs.push(job.clone());

    let veh = &case["veh"];
    let mut detail = VehicleDetailBuilder::default()
        .set_start_location(veh["start"].as_u64().unwrap() as usize)
        .set_start_time(veh["earliest"].as_i64().unwrap() as f64);
    detail = match veh["latest"].as_i64() {
        Some(l) => detail.set_start_time_latest(l as f64),
        None => detail.set_start_time_latest(f64::MAX),
    };
    if let Some(end) = veh["end"].as_array() {
        detail = detail.set_end_location(end[0].as_u64().unwrap() as usize).set_end_time(end[1].as_i64().unwrap() as f64);
    }
    let costs = i64s(&case["costs"]);
    let mut vb = VehicleBuilder::default().id("v1").add_detail(detail.build().unwrap()).set_distance_cost(costs[1] as f64).set_duration_cost(costs[2] as f64);
    vb = if dims <= 1 { vb.capacity(SingleDimLoad::new(cap[0] as i32)) } else { vb.capacity(MultiDimLoad::new(cap.iter().map(|v| *v as i32).collect())) };
    let mut vehicle = vb.build().unwrap();
    vehicle.costs.fixed = costs[0] as f64;

    // the goal of `evalcase::build_goal` with the capacity feature replaced by its reload flavour
    let unassigned = MinimizeUnassignedBuilder::new("min-unassigned").build().unwrap();
    let tours = create_minimize_tours_feature("min-tours").unwrap();
    let tb = TransportFeatureBuilder::new("transport").set_transport_cost(transport.clone()).set_violation_code(ViolationCode(1));
    let transport_feature = if case["obj"].as_str() == Some("cost") { tb.build_minimize_cost() } else { tb.build_minimize_distance() }.unwrap();
    let capacity = if dims <= 1 { reload_capacity_feature::<SingleDimLoad>("capacity") } else { reload_capacity_feature::<MultiDimLoad>("capacity") };
    let goal = GoalContextBuilder::with_features(&[unassigned, tours, transport_feature, capacity]).unwrap().build().unwrap();

    let problem = Arc::new(
        ProblemBuilder::default()
            .add_jobs(jobs.into_iter())
            .add_vehicles(std::iter::once(vehicle))
            .with_goal(goal)
            .with_transport_cost(transport)
            .build()
            .unwrap(),
    );

    let mut ctx = InsertionContext::new(problem.clone(), env);
    let actor = problem.fleet.actors.first().unwrap().clone();
    let mut route_ctx = ctx.solution.registry.get_route(&actor).expect("route for the only actor");
    for (a, job) in case["tour"].as_array().unwrap().iter().zip(tour_jobs.iter()) {
        let mut act = Activity::new_with_job(job.to_single().clone());
        act.place = ActPlace {
            idx: 0,
            location: a["loc"].as_u64().unwrap() as usize,
            duration: a["dur"].as_i64().unwrap() as f64,
            time: TimeWindow::new(a["s"].as_i64().unwrap() as f64, a["e"].as_i64().unwrap() as f64),
        };
        route_ctx.route_mut().tour.insert_last(act);
    }
    let dep = veh["dep"].as_i64().unwrap() as f64;
    // `accept_route_state` of the multi-trip state recomputes the marker intervals and the load caches
    problem.goal.accept_route_state(&mut route_ctx);
    update_route_departure(&mut route_ctx, problem.activity.as_ref(), problem.transport.as_ref(), dep);
    problem.goal.accept_route_state(&mut route_ctx);
    ctx.solution.routes.push(route_ctx);
    ctx.solution.required.retain(|j| !tour_jobs.contains(j));
    ctx.solution.unassigned.retain(|j, _| !tour_jobs.contains(j));
    // markers placed in the tour are no longer waiting in `ignored` (every job lives in exactly one place)
    ctx.solution.ignored.retain(|j| !tour_jobs.contains(j));
    // NOTE `accept_solution_state` is NOT called: with route intervals it removes a marker whose neighbour intervals
    // could be merged (`remove_trivial_markers`), i.e. it would change the generated tour. The evaluator reads route
    // level caches only; `impl.tour_kept` reports that the tour under evaluation is the generated one.

    IvCase { problem, ctx, job, dims }
}

fn ints(cost: &InsertionCost) -> Vec<i64> {
    cost.iter()
        .map(|v| {
            assert!(v.fract() == 0. && v.abs() < 9.0e15, "non-integral cost {v}");
            v as i64
        })
        .collect()
}

fn result_json(res: &InsertionResult) -> Value {
    match res {
        InsertionResult::Success(s) => {
            let acts: Vec<Value> = s
                .activities
                .iter()
                .map(|(a, idx)| {
                    json!({"idx": idx, "place": a.place.idx, "loc": a.place.location, "dur": a.place.duration as i64,
                           "tw": [a.place.time.start as i64, a.place.time.end as i64]})
                })
                .collect();
            json!({"acts": acts, "cost": ints(&s.cost)})
        }
        InsertionResult::Failure(_) => Value::Null,
    }
}

/// one cached load vector per tour activity, read from the verification digest of the route state (the typed
/// accessors of the capacity caches are crate-private): `["3", "4"]` or `["[1, 2, 0, ..]", ..]`
fn cached_loads(digest: &[(String, String)], key: &str, dims: usize) -> Value {
    let Some((_, text)) = digest.iter().find(|(k, _)| k == key) else { return Value::Null };
    let items: Vec<String> = serde_json::from_str(text).unwrap_or_else(|_| panic!("unreadable cache {key}: {text}"));
    let loads: Vec<Vec<i64>> = items
        .iter()
        .map(|s| match serde_json::from_str::<Value>(s).unwrap_or_else(|_| panic!("unreadable load {s}")) {
            Value::Array(a) => {
                let mut v: Vec<i64> = a.iter().map(|x| x.as_i64().unwrap()).collect();
                assert!(v.iter().skip(dims).all(|x| *x == 0), "load outside the used dimensions: {s}");
                v.resize(dims, 0);
                v
            }
            x => vec![x.as_i64().unwrap()],
        })
        .collect();
    json!(loads)
}

pub fn exec(case: &Value) -> Value {
    let ec = build_case_iv(case, quiet_env());
    let route_ctx = ec.ctx.solution.routes.first().expect("the route with the tour").deep_copy();
    let leg_selection = LegSelection::Exhaustive;
    let result_selector = BestResultSelector::default();
    let eval_ctx = EvaluationContext { goal: &ec.problem.goal, job: &ec.job, leg_selection: &leg_selection, result_selector: &result_selector };
    let legs = route_ctx.route().tour.legs().count();
    let eval = |pos: InsertionPosition| {
        result_json(&eval_job_insertion_in_route(&ec.ctx, &eval_ctx, &route_ctx, pos, InsertionResult::make_failure()))
    };
    let any = eval(InsertionPosition::Any);
    let concrete: Vec<Value> = (0..legs).map(|p| eval(InsertionPosition::Concrete(p))).collect();
    let sched: Vec<Value> = route_ctx
        .route()
        .tour
        .all_activities()
        .map(|a| json!([a.schedule.arrival as i64, a.schedule.departure as i64]))
        .collect();
    let intervals: Value = match route_ctx.state().get_reload_intervals() {
        Some(ivs) => json!(ivs.iter().map(|(s, e)| json!([s, e])).collect::<Vec<_>>()),
        None => Value::Null,
    };
    let digest = route_ctx.state().verif_digest();
    let caches = json!({
        "cur": cached_loads(&digest, "CurrentCapacityActivityStateKey", ec.dims),
        "past": cached_loads(&digest, "MaxPastCapacityActivityStateKey", ec.dims),
        "fut": cached_loads(&digest, "MaxFutureCapacityActivityStateKey", ec.dims),
    });
    // the tour under evaluation is the generated one (job activities in order, markers where the case has them)
    let tour_kept = route_ctx.route().tour.all_activities().filter(|a| a.job.is_some()).count() == case["tour"].as_array().unwrap().len();
    let mut out = json!({"legs": legs, "any": any, "concrete": concrete, "sched": sched, "intervals": intervals, "caches": caches, "tour_kept": tour_kept});
    // diagnostic, only on request (`"probe_solution_state": true` in the case): what `accept_solution_state` does to
    // the route with its markers — not part of the model comparison
    if case["probe_solution_state"].as_bool() == Some(true) {
        out["after_solution_state"] = probe_solution_state(ec);
    }
    out
}

/// calls `goal.accept_solution_state` (which removes markers between mergeable intervals) and reports whether the
/// cached route state still equals a recomputation from the bare tour, then calls it a second time
fn probe_solution_state(mut ec: IvCase) -> Value {
    let fresh_equal = |rc: &RouteContext, problem: &Problem| {
        let mut fresh = RouteContext::new_with_state(
            vrp_core::models::solution::Route { actor: rc.route().actor.clone(), tour: rc.route().tour.deep_copy() },
            RouteState::default(),
        );
        problem.goal.accept_route_state(&mut fresh);
        rc.state().verif_digest() == fresh.state().verif_digest()
    };
    let before = ec.ctx.solution.routes[0].route().tour.total();
    let dbg = std::env::var("C06IV_DEBUG").is_ok();
    let lists = |sc: &SolutionContext| {
        let id = |j: &Job| j.dimens().get_job_id().cloned().unwrap_or_default();
        format!("required={:?} ignored={:?} locked={:?} unassigned={:?} tour={:?}",
            sc.required.iter().map(id).collect::<Vec<_>>(), sc.ignored.iter().map(id).collect::<Vec<_>>(),
            sc.locked.iter().map(id).collect::<Vec<_>>(), sc.unassigned.keys().map(id).collect::<Vec<_>>(),
            sc.routes[0].route().tour.all_activities().map(|a| a.job.as_ref().and_then(|s| s.dimens.get_job_id().cloned()).unwrap_or("-".into())).collect::<Vec<_>>())
    };
    if dbg {
        eprintln!("before: {}", lists(&ec.ctx.solution));
    }
    ec.problem.goal.accept_solution_state(&mut ec.ctx.solution);
    if dbg {
        eprintln!("after 1st: {} stale={}", lists(&ec.ctx.solution), ec.ctx.solution.routes[0].is_stale());
    }
    let rc = &ec.ctx.solution.routes[0];
    let first = json!({"tour_total_before": before, "tour_total_after": rc.route().tour.total(), "is_stale": rc.is_stale(),
                       "caches_equal_recomputation": fresh_equal(rc, &ec.problem),
                       "intervals": rc.state().get_reload_intervals().map(|ivs| ivs.iter().map(|(s, e)| json!([s, e])).collect::<Vec<_>>())});
    let problem = ec.problem.clone();
    let second = match std::panic::catch_unwind(std::panic::AssertUnwindSafe(move || {
        problem.goal.accept_solution_state(&mut ec.ctx.solution);
        let rc = &ec.ctx.solution.routes[0];
        json!({"tour_total_after": rc.route().tour.total(), "caches_equal_recomputation": fresh_equal(rc, &problem)})
    })) {
        Ok(v) => v,
        Err(_) => json!({"panic": last_panic()}),
    };
    json!({"first_call": first, "second_call": second})
}

#[allow(dead_code)]
fn main() {
    run_main(gen_cases, exec);
}
