//! throwaway probe: what `accept_solution_state` does to a tour with markers (to be deleted)
#[allow(dead_code)]
#[path = "c06iv.rs"]
mod c06iv;

use vrp_core::construction::heuristics::*;
use vrp_core::rosomaxa::prelude::HeuristicSolution;
use vrp_verif_harness::pragen::quiet_env;
use vrp_verif_harness::*;

fn main() {
    let mut rng = Rng::new(1);
    let cases = c06iv::gen_cases(&mut rng, Tier::Quick);
    let (mut removed, mut stale_after, mut cache_diff, mut total) = (0, 0, 0, 0);
    for case in cases.iter() {
        let mut ec = c06iv::build_case_iv(case, quiet_env());
        let before = ec.ctx.solution.routes[0].route().tour.total();
        ec.problem.goal.accept_solution_state(&mut ec.ctx.solution);
        let rc = &ec.ctx.solution.routes[0];
        let after = rc.route().tour.total();
        total += 1;
        if after != before {
            removed += 1;
            if rc.is_stale() {
                stale_after += 1;
            }
            let mut fresh = RouteContext::new_with_state(
                vrp_core::models::solution::Route { actor: rc.route().actor.clone(), tour: rc.route().tour.deep_copy() },
                RouteState::default(),
            );
            ec.problem.goal.accept_route_state(&mut fresh);
            if rc.state().verif_digest() != fresh.state().verif_digest() {
                cache_diff += 1;
                if cache_diff <= 3 {
                    let ids = |js: &Vec<vrp_core::models::problem::Job>| js.iter().map(|j| vrp_core::models::problem::JobIdDimension::get_job_id(j.dimens()).cloned().unwrap_or_default()).collect::<Vec<_>>();
                    eprintln!("AFTER 1st: tour {} -> {}, required {:?} ignored {:?} unassigned {} locked {}", before, after, ids(&ec.ctx.solution.required), ids(&ec.ctx.solution.ignored), ec.ctx.solution.unassigned.len(), ec.ctx.solution.locked.len());
                    let mut copy = ec.ctx.deep_copy();
                    ec.problem.goal.accept_solution_state(&mut copy.solution);
                    let rc2 = &copy.solution.routes[0];
                    eprintln!("AFTER 2nd: tour {}, required {:?} ignored {:?}; digest now equals fresh recomputation of ITS tour: {}", rc2.route().tour.total(), ids(&copy.solution.required), ids(&copy.solution.ignored), {
                        let mut f2 = RouteContext::new_with_state(vrp_core::models::solution::Route { actor: rc2.route().actor.clone(), tour: rc2.route().tour.deep_copy() }, RouteState::default());
                        ec.problem.goal.accept_route_state(&mut f2);
                        f2.state().verif_digest() == rc2.state().verif_digest()
                    });
                    eprintln!("CASE tour markers {:?}", case["tour"].as_array().unwrap().iter().map(|a| a["reload"].as_bool().unwrap_or(false)).collect::<Vec<_>>());
                }
            }
        }
    }
    println!("total {total} marker removed {removed} stale after {stale_after} cache differs from recomputation {cache_diff}");
}
