//! C07 — interrupting the solver at any moment: a counting `Quota` that turns true at its k-th poll and stays
//! true; a first run counts the polls N, then every k in 0..=N (or an even sample when N is large) is run on
//! the same deterministic set-up (fresh thread, single-thread pool, repeatable random).

use serde_json::{Value, json};
use std::sync::Arc;
use std::sync::atomic::{AtomicUsize, Ordering};
use vrp_core::prelude::*;
use vrp_core::rosomaxa::evolution::TelemetryMode;
use vrp_core::rosomaxa::utils::{Parallelism, Quota};
use vrp_verif_harness::pragen::*;
use vrp_verif_harness::*;

struct CountingQuota {
    polls: AtomicUsize,
    fire_at: usize,
}

impl Quota for CountingQuota {
    fn is_reached(&self) -> bool {
        self.polls.fetch_add(1, Ordering::SeqCst) >= self.fire_at
    }
}

fn gen_cases(rng: &mut Rng, tier: Tier) -> Vec<Value> {
    let (n, limit) = if tier == Tier::Thorough { (60, 1500) } else { (10, 400) };
    (0..n)
        .map(|i| {
            let mut cfg = GenCfg::random(rng);
            cfg.metric = true;
            cfg.jobs = (4, 10);
            // every third problem has more jobs than its fleet can carry (three or more tours and jobs left unassigned): the
            // shape on which decomposition, with its separate part for the unassigned jobs, runs
            if i % 3 == 1 {
                cfg = GenCfg::basic();
                cfg.metric = true;
                cfg.jobs = (14, 20);
                cfg.types = (1, 1);
                cfg.vehicles_per_type = (3, 4);
                cfg.time_windows = false;
            }
            // two problems in five ask for vicinity clustering: cluster jobs are expanded into their members again by a post
            // processing step that has to run whenever a solution is returned, interrupted or not (judged by partition only)
            let clustered = i % 5 == 4 || i % 5 == 2;
            if clustered {
                cfg.multi_jobs = false;
                cfg.jobs = (8, 14);
            }
            let mut sp = gen_problem(rng, &cfg);
            if clustered {
                sp.clustering = Some(gen_clustering(rng, &sp));
            }
            if i % 3 == 1 {
                // capacity for about three quarters of the total delivery demand
                let total: i64 = sp.jobs.iter().flat_map(|j| j.tasks.iter()).filter_map(|t| t.demand.first().copied()).sum();
                let vehicles: i64 = sp.vehicles.iter().map(|v| v.ids.len() as i64).sum();
                for v in sp.vehicles.iter_mut() {
                    v.capacity = v.capacity.iter().map(|_| ((total * 3 / 4) / vehicles.max(1)).max(2)).collect();
                }
            }
            // every third problem is searched by ONE named operator of the default heuristic only (hook H8; the default
            // diversification composite stays): an operator the selection rarely picks gets its poll points enumerated too
            let focus = match i % 6 {
                1 | 4 => Some("infeasible_search"),
                3 => Some("redistribute"),
                _ => None,
            };
            { let mg = [1usize, 2, 3, 10, 25][i % 5]; json!({"k": "quota", "sp": sp, "max_gens": if focus == Some("infeasible_search") { 12 } else if focus.is_some() { mg.max(3) } else { mg },
                     "limit": if focus == Some("infeasible_search") { 3 * limit } else { limit }, "focus": focus}) }
        })
        .collect()
}

/// one solver run with the quota firing at poll `fire_at`; returns (polls, generations, solution JSON)
fn run_once(sp: &SProblem, max_gens: usize, fire_at: usize, focus: Option<String>) -> Result<(usize, Option<usize>, Value), String> {
    let sp = sp.clone();
    isolated(1, move || -> Result<(usize, Option<usize>, Value), String> {
        let problem = sp.read().map_err(|c| format!("generated problem is invalid: {c:?}"))?;
        let quota = Arc::new(CountingQuota { polls: AtomicUsize::new(0), fire_at });
        let env = Arc::new(Environment {
            random: Arc::new(DefaultRandom::new_repeatable()),
            quota: Some(quota.clone()),
            parallelism: Parallelism::new(1, 1),
            logger: Arc::new(|_: &str| {}),
            is_experimental: false,
        });
        let mut builder = VrpConfigBuilder::new(problem.clone())
            .set_environment(env.clone())
            .set_telemetry_mode(TelemetryMode::OnlyMetrics { track_population: 1000 });
        if let Some(name) = focus.as_ref() {
            use vrp_core::solver::{create_scalar_operator_probability, get_static_heuristic_from_heuristic_group, verif_default_operators};
            use vrp_core::solver::search::{InfeasibleSearch, Recreate, RecreateWithCheapest, RedistributeSearch};
            use vrp_core::solver::TargetSearchOperator;
            let operators = verif_default_operators(problem.clone(), env.clone());
            // operators the default heuristic ships inside its diversification composite, built with the public constructors and
            // the parameters it uses; the inner search of the infeasible search is the default ruin-and-recreate operator (hook H8)
            let cheapest: Arc<dyn Recreate> = Arc::new(RecreateWithCheapest::new(env.random.clone()));
            let inner: TargetSearchOperator = operators.iter().find(|(_, n, _)| n.contains('+')).map(|(o, _, _)| o.clone()).expect("a default operator");
            let op: Option<TargetSearchOperator> = match name.as_str() {
                "infeasible_search" => Some(Arc::new(InfeasibleSearch::new(inner, cheapest, 4, (0.05, 0.2), (0.33, 0.75)))),
                "redistribute" => Some(Arc::new(RedistributeSearch::new(cheapest))),
                other => operators.into_iter().find(|o| o.1 == other).map(|o| o.0),
            };
            let op = op.expect("unknown operator name");
            let heuristic = get_static_heuristic_from_heuristic_group(
                problem.clone(),
                env.clone(),
                vec![(op, create_scalar_operator_probability(1., env.random.clone()))],
            );
            builder = builder.set_heuristic(Box::new(heuristic));
        }
        let config = builder
            .prebuild()
            .map_err(|e| e.to_string())?
            .with_max_generations(Some(max_gens))
            .build()
            .map_err(|e| e.to_string())?;
        let solution = Solver::new(problem.clone(), config).solve().map_err(|e| format!("solve returned Err: {e}"))?;
        let gens = solution.telemetry.as_ref().map(|t| t.generations);
        let json = solution_json(&problem, &solution)?;
        Ok((quota.polls.load(Ordering::SeqCst), gens, simplify_solution(&json)))
    })
    .map_err(|_| "solver panicked".to_string())?
}

fn exec(case: &Value) -> Value {
    let sp: SProblem = serde_json::from_value(case["sp"].clone()).unwrap();
    let max_gens = case["max_gens"].as_u64().unwrap() as usize;
    let limit = case["limit"].as_u64().unwrap() as usize;
    let focus = case["focus"].as_str().map(|s| s.to_string());
    let (total, gens_full, _) = match run_once(&sp, max_gens, usize::MAX, focus.clone()) {
        Ok(x) => x,
        Err(e) => return json!({"error": e}),
    };
    // all k when feasible, otherwise an even sample that always contains 0, 1, 2 and the last polls
    let ks: Vec<usize> = if total <= limit {
        (0..=total).collect()
    } else {
        let mut ks: Vec<usize> = (0..limit).map(|i| i * total / limit).collect();
        ks.extend([0, 1, 2, 3, total.saturating_sub(1), total]);
        ks.sort();
        ks.dedup();
        ks
    };
    let runs: Vec<Value> = ks
        .iter()
        .map(|&k| match run_once(&sp, max_gens, k, focus.clone()) {
            Ok((polls, gens, sol)) => json!({"k": k, "polls": polls, "gens": gens, "solution": sol}),
            Err(e) => json!({"k": k, "error": e}),
        })
        .collect();
    json!({"total_polls": total, "gens_uninterrupted": gens_full, "exhaustive": total <= limit, "runs": runs})
}

fn main() {
    run_main(gen_cases, exec);
}
