//! C08 — a population never loses its best-known solution: operation sequences on the REAL `Greedy`,
//! `Elitism` and `Rosomaxa` populations (through the public `HeuristicPopulation` trait, with
//! `rosomaxa::example::VectorSolution` and the scalar `VectorObjective`), and whole runs of the real
//! evolution loop (`EvolutionSimulator` + `Iterative` + `TelemetryHeuristicContext`) with a scripted
//! hyper-heuristic.
//!
//! An individual is `[id, fitness, weight]` (integers): `VectorSolution { data: [id], fitness, weights: [weight, 7] }`.

use serde_json::{Value, json};
use std::fmt::{Display, Formatter};
use std::io::{BufReader, BufWriter};
use std::sync::{Arc, Mutex};
use vrp_core::construction::heuristics::InsertionContext;
use vrp_core::models::Problem;
use vrp_core::solver::{RefinementContext, Solver, VrpConfigBuilder, create_elitism_population};
use vrp_core::rosomaxa::algorithms::gsom::Input;
use vrp_core::rosomaxa::evolution::{EvolutionSimulator, InitialOperator};
use vrp_core::rosomaxa::example::*;
use vrp_core::rosomaxa::population::{Elitism, Greedy};
use vrp_core::rosomaxa::prelude::*;
use vrp_core::rosomaxa::utils::{Parallelism, Timer};
use vrp_pragmatic::format::problem::PragmaticProblem;
use vrp_pragmatic::format::solution::{PragmaticOutputType, read_init_solution, write_pragmatic};
use vrp_verif_harness::*;

type Pop = Box<dyn HeuristicPopulation<Objective = VectorObjective, Individual = VectorSolution> + Send + Sync>;

// ---------------------------------------------------------------------------------------------
// scripted random: every `Random` call derives from the case's `rseed`

struct ScriptedRandom(Mutex<Rng>);

impl ScriptedRandom {
    fn new(seed: u64) -> Self {
        Self(Mutex::new(Rng::derived(seed)))
    }
    fn next(&self) -> u64 {
        self.0.lock().unwrap().next()
    }
    fn unit(&self) -> f64 {
        (self.next() >> 11) as f64 / (1u64 << 53) as f64
    }
}

impl Random for ScriptedRandom {
    fn uniform_int(&self, min: i32, max: i32) -> i32 {
        if min == max {
            return min;
        }
        assert!(min < max);
        min + (self.next() % ((max as i64 - min as i64 + 1) as u64)) as i32
    }
    fn uniform_real(&self, min: Float, max: Float) -> Float {
        if (min - max).abs() < Float::EPSILON {
            return min;
        }
        assert!(min < max);
        min + (max - min) * self.unit()
    }
    fn is_head_not_tails(&self) -> bool {
        self.next() & 1 == 0
    }
    fn is_hit(&self, probability: Float) -> bool {
        self.unit() < probability.clamp(0., 1.)
    }
    fn weighted(&self, weights: &[usize]) -> usize {
        weights
            .iter()
            .zip(0_usize..)
            .map(|(&weight, index)| (-self.uniform_real(0., 1.).max(1e-300).ln() / weight as Float, index))
            .min_by(|a, b| a.0.total_cmp(&b.0))
            .unwrap()
            .1
    }
    fn get_rng(&self) -> RandomGen {
        // shuffles inside the GSOM code use the repository's repeatable thread-local generator
        // (fresh per case: rosomaxa/solve cases run on a fresh thread)
        RandomGen::new_repeatable()
    }
}

// ---------------------------------------------------------------------------------------------
// individuals

fn objective() -> Arc<VectorObjective> {
    Arc::new(VectorObjective::new(Arc::new(|_| 0.), Arc::new(|_| vec![0., 7.])))
}

fn ind(v: &Value) -> VectorSolution {
    let a = v.as_array().unwrap();
    let (id, fit, w) = (a[0].as_u64().unwrap(), a[1].as_i64().unwrap(), a[2].as_i64().unwrap());
    VectorSolution::new(vec![id as f64], fit as f64, vec![w as f64, 7.])
}

fn to_int(v: f64) -> i64 {
    assert!(v.fract() == 0. && v.abs() < 9.0e15, "non-integral value");
    v as i64
}

fn ind_json(s: &VectorSolution) -> Value {
    json!([to_int(s.data[0]), to_int(s.fitness().next().unwrap()), to_int(s.weights()[0])])
}

fn phase_num(p: SelectionPhase) -> u64 {
    match p {
        SelectionPhase::Initial => 0,
        SelectionPhase::Exploration => 1,
        SelectionPhase::Exploitation => 2,
    }
}

fn speed(v: &Value) -> HeuristicSpeed {
    let a = v.as_array().unwrap();
    match a[0].as_str().unwrap() {
        "u" => HeuristicSpeed::Unknown,
        "m" => HeuristicSpeed::Moderate { average: 100., median: None },
        "s" => HeuristicSpeed::Slow { ratio: a[1].as_u64().unwrap() as Float / 8., average: 1., median: None },
        other => panic!("unknown speed {other}"),
    }
}

fn statistics(op: &Value) -> HeuristicStatistics {
    HeuristicStatistics {
        generation: op["g"].as_u64().unwrap() as usize,
        time: Timer::start(),
        speed: speed(&op["sp"]),
        improvement_all_ratio: op["i"].as_u64().unwrap() as Float / 16.,
        improvement_1000_ratio: op["i"].as_u64().unwrap() as Float / 8.,
        termination_estimate: op["te"].as_u64().unwrap() as Float / 64.,
    }
}

// ---------------------------------------------------------------------------------------------
// populations

fn silent_env(rseed: u64) -> Arc<Environment> {
    Arc::new(Environment::new(
        Arc::new(ScriptedRandom::new(rseed)),
        None,
        Parallelism::new_with_cpus(1),
        Arc::new(|_| {}),
        false,
    ))
}

fn rel_close(den: f64, a: f64, b: f64) -> bool {
    // the same arithmetic as rosomaxa's `relative_distance` on one coordinate
    let divider = a.abs().max(b.abs());
    let change = if divider == 0. { 0. } else { (a - b).abs() / divider };
    (change * change).sqrt() < 1. / den
}

fn build_population(kind: &str, cfg: &Value, rseed: u64) -> Pop {
    let obj = objective();
    let sel = cfg["sel"].as_u64().unwrap() as usize;
    match kind {
        "greedy" => {
            let init = if cfg["init"].is_null() { None } else { Some(ind(&cfg["init"])) };
            Box::new(Greedy::new(obj, sel, init))
        }
        "elitism" => {
            let max = cfg["max"].as_u64().unwrap() as usize;
            let random: Arc<dyn Random> = Arc::new(ScriptedRandom::new(rseed));
            match cfg["dedup"].as_str().unwrap() {
                "default" => Box::new(Elitism::new(obj, random, max, sel)),
                "never" => Box::new(Elitism::new_with_dedup(obj, random, max, sel, Box::new(|_, _, _| false))),
                "fit" => Box::new(Elitism::new_with_dedup(
                    obj,
                    random,
                    max,
                    sel,
                    Box::new(|_, a, b| a.fitness().zip(b.fitness()).all(|(a, b)| a == b)),
                )),
                "w" => Box::new(Elitism::new_with_dedup(
                    obj,
                    random,
                    max,
                    sel,
                    Box::new(|_, a, b| a.weights()[0] == b.weights()[0]),
                )),
                // the shape of rosomaxa.rs `create_dedup_fn` with threshold 0.1 (what GSOM nodes use)
                "ros10" => Box::new(Elitism::new_with_dedup(
                    obj,
                    random,
                    max,
                    sel,
                    Box::new(|o: &VectorObjective, a: &VectorSolution, b: &VectorSolution| match o.total_order(a, b) {
                        std::cmp::Ordering::Equal => a.fitness().zip(b.fitness()).all(|(a, b)| a == b),
                        _ => rel_close(10., a.weights()[0], b.weights()[0]),
                    }),
                )),
                other => panic!("unknown dedup {other}"),
            }
        }
        "rosomaxa" => {
            let config = RosomaxaConfig {
                initial_size: cfg["initial"].as_u64().unwrap() as usize,
                selection_size: sel,
                elite_size: cfg["elite"].as_u64().unwrap() as usize,
                node_size: cfg["node"].as_u64().unwrap() as usize,
                spread_factor: cfg["spread16"].as_u64().unwrap() as Float / 16.,
                distribution_factor: cfg["distr16"].as_u64().unwrap() as Float / 16.,
                rebalance_memory: cfg["rebalance"].as_u64().unwrap() as usize,
                exploration_ratio: cfg["er"].as_u64().unwrap() as Float / 64.,
            };
            Box::new(Rosomaxa::new(VectorRosomaxaContext, obj, silent_env(rseed), config).expect("cannot create rosomaxa"))
        }
        other => panic!("unknown population kind {other}"),
    }
}

fn observe(pop: &Pop, ret: Value, sel: Value) -> Value {
    json!({
        "ret": ret,
        "ranked": pop.ranked().map(ind_json).collect::<Vec<_>>(),
        "size": pop.size(),
        "phase": phase_num(pop.selection_phase()),
        "sel": sel,
    })
}

fn run_ops(mut pop: Pop, ops: &[Value]) -> Value {
    let mut out = vec![];
    for op in ops {
        let obs = match op["o"].as_str().unwrap() {
            "add" => {
                let r = pop.add(ind(&op["x"]));
                observe(&pop, json!(r), Value::Null)
            }
            "add_all" => {
                let r = pop.add_all(op["xs"].as_array().unwrap().iter().map(ind).collect());
                observe(&pop, json!(r), Value::Null)
            }
            "gen" => {
                pop.on_generation(&statistics(op));
                observe(&pop, Value::Null, Value::Null)
            }
            "select" => {
                // bounded: a selection size can be huge for a degenerate speed ratio
                let ids: Vec<i64> = pop.select().take(10_000).map(|s| to_int(s.data[0])).collect();
                let sel = json!({"first": ids.first(), "n": ids.len(), "ids": ids});
                observe(&pop, Value::Null, sel)
            }
            other => panic!("unknown op {other}"),
        };
        out.push(obs);
    }
    json!(out)
}

fn on_fresh_thread(f: impl FnOnce() -> Value + Send + 'static) -> Value {
    match isolated(1, f) {
        Ok(v) => v,
        Err(e) => std::panic::resume_unwind(e),
    }
}

// ---------------------------------------------------------------------------------------------
// whole runs of the real evolution loop with a scripted hyper-heuristic

struct SolveLog {
    /// individuals made by the scripted initial operator (offered one by one through `on_initial`)
    created: Vec<Value>,
    /// per generation: the best known (first of `ctx.ranked()`) before the offspring is made; the offspring
    steps: Vec<(Value, Vec<Value>)>,
    next_id: u64,
    rng: Rng,
    palette: Vec<i64>,
}

impl SolveLog {
    fn fresh(&mut self) -> Value {
        let id = self.next_id;
        self.next_id += 1;
        let n = self.palette.len() as u64;
        let fit = self.palette[self.rng.below(n) as usize];
        let w = 100 + self.rng.range(0, 12);
        json!([id, fit, w])
    }
}

struct ScriptedHeuristic(Arc<Mutex<SolveLog>>);

impl Display for ScriptedHeuristic {
    fn fmt(&self, f: &mut Formatter<'_>) -> std::fmt::Result {
        write!(f, "scripted")
    }
}

impl ScriptedHeuristic {
    /// one offspring per parent, except that now and then a parent yields none or two
    fn make(&self, ctx: &VectorContext, parents: usize) -> Vec<VectorSolution> {
        let head = ctx.ranked().next().map(ind_json).unwrap_or(Value::Null);
        let mut log = self.0.lock().unwrap();
        let mut batch = vec![];
        for _ in 0..parents {
            let k = match log.rng.below(10) {
                0 => 0,
                1 => 2,
                _ => 1,
            };
            for _ in 0..k {
                let v = log.fresh();
                batch.push(v);
            }
        }
        let sols = batch.iter().map(ind).collect();
        log.steps.push((head, batch));
        sols
    }
}

impl HyperHeuristic for ScriptedHeuristic {
    type Context = VectorContext;
    type Objective = VectorObjective;
    type Solution = VectorSolution;

    fn search(&mut self, ctx: &Self::Context, _: &Self::Solution) -> Vec<Self::Solution> {
        self.make(ctx, 1)
    }
    fn search_many(&mut self, ctx: &Self::Context, solutions: Vec<&Self::Solution>) -> Vec<Self::Solution> {
        self.make(ctx, solutions.len())
    }
    fn diversify(&self, _: &Self::Context, _: &Self::Solution) -> Vec<Self::Solution> {
        vec![]
    }
    fn diversify_many(&self, _: &Self::Context, _: Vec<&Self::Solution>) -> Vec<Self::Solution> {
        vec![]
    }
}

struct ScriptedInitial(Arc<Mutex<SolveLog>>);

impl InitialOperator for ScriptedInitial {
    type Context = VectorContext;
    type Objective = VectorObjective;
    type Solution = VectorSolution;

    fn create(&self, _: &Self::Context) -> Self::Solution {
        let mut log = self.0.lock().unwrap();
        let v = log.fresh();
        log.created.push(v.clone());
        ind(&v)
    }
}

fn run_solve(case: &Value) -> Value {
    let rseed = case["rseed"].as_u64().unwrap();
    let env = silent_env(rseed);
    let obj = objective();
    let population = build_population(case["pop"].as_str().unwrap(), &case["cfg"], rseed);
    let context = VectorContext::new(obj.clone(), population, TelemetryMode::None, env);
    let init: Vec<Value> = case["init"].as_array().unwrap().clone();
    let init_max = case["init_max"].as_u64().unwrap() as usize;
    let log = Arc::new(Mutex::new(SolveLog {
        created: vec![],
        steps: vec![],
        next_id: 1000,
        rng: Rng::derived(rseed ^ 0x5eed),
        palette: case["palette"].as_array().unwrap().iter().map(|v| v.as_i64().unwrap()).collect(),
    }));
    let config = EvolutionConfigBuilder::default()
        .with_heuristic(Box::new(ScriptedHeuristic(log.clone())))
        .with_objective(obj)
        .with_context(context)
        .with_max_generations(Some(case["gens"].as_u64().unwrap() as usize));
    // both orders of the two builder calls that configure the initial population (the command line tool sets the given
    // solutions first and the `evolution.initial` section of a configuration file afterwards): the order must not matter
    let config = if rseed % 2 == 0 {
        config
            .with_initial(init_max, 0.05, vec![(Box::new(ScriptedInitial(log.clone())), 1)])
            .with_init_solutions(init.iter().map(ind).collect(), None)
    } else {
        config
            .with_init_solutions(init.iter().map(ind).collect(), None)
            .with_initial(init_max, 0.05, vec![(Box::new(ScriptedInitial(log.clone())), 1)])
    };
    let config = config.build().expect("cannot build evolution config");
    let (solutions, _) = EvolutionSimulator::new(config).expect("simulator").run().expect("evolution run failed");

    let log = log.lock().unwrap();
    // what `EvolutionSimulator::run` hands to `on_initial`: the given solutions up to `max_size`, then the created ones
    let singles: Vec<Value> = init.iter().take(init_max).cloned().chain(log.created.iter().cloned()).collect();
    json!({
        "tape": {"singles": singles, "batches": log.steps.iter().map(|s| s.1.clone()).collect::<Vec<_>>()},
        "heads": log.steps.iter().map(|s| s.0.clone()).collect::<Vec<_>>(),
        "res": solutions.iter().map(ind_json).collect::<Vec<_>>(),
    })
}

// ---------------------------------------------------------------------------------------------
// the VRP solver seeded with a feasible initial solution (vrp-core solver/mod.rs, pragmatic initial_reader.rs)

fn vrp_env(cpus: usize) -> Arc<Environment> {
    Arc::new(Environment::new(
        Arc::new(DefaultRandom::new_repeatable()),
        None,
        Parallelism::new_with_cpus(cpus),
        Arc::new(|_| {}),
        false,
    ))
}

fn vrp_problem_json(case: &Value) -> String {
    let loc = |p: &Value| json!({"lat": 52.5 + p[0].as_i64().unwrap() as f64 / 1000., "lng": 13.4 + p[1].as_i64().unwrap() as f64 / 1000.});
    let jobs: Vec<Value> = case["jobs"]
        .as_array()
        .unwrap()
        .iter()
        .enumerate()
        .map(|(i, j)| {
            let mut place = json!({"location": loc(&j["p"]), "duration": 120.});
            if !j["tw"].is_null() {
                let t = |m: i64| format!("2024-01-01T{:02}:{:02}:00Z", m / 60, m % 60);
                place["times"] = json!([[t(j["tw"][0].as_i64().unwrap()), t(j["tw"][1].as_i64().unwrap())]]);
            }
            json!({"id": format!("j{i}"), "deliveries": [{"places": [place], "demand": [j["d"]]}]})
        })
        .collect();
    let n_vehicles = case["vehicles"].as_u64().unwrap();
    let ids: Vec<String> = (0..n_vehicles).map(|i| format!("v_{i}")).collect();
    let depot = loc(&json!([0, 0]));
    json!({
        "plan": {"jobs": jobs},
        "fleet": {
            "vehicles": [{
                "typeId": "v", "vehicleIds": ids, "profile": {"matrix": "car"},
                "costs": {"fixed": 25., "distance": 0.002, "time": 0.005},
                "shifts": [if case["open_end"].as_bool() == Some(true) {
                               json!({"start": {"earliest": "2024-01-01T00:00:00Z", "location": depot}})
                           } else {
                               json!({"start": {"earliest": "2024-01-01T00:00:00Z", "location": depot},
                                      "end": {"latest": "2024-01-01T23:00:00Z", "location": depot}})
                           }],
                "capacity": [case["capacity"]]
            }],
            "profiles": [{"name": "car"}]
        }
    })
    .to_string()
}

fn vrp_solve(problem: &Arc<Problem>, env: &Arc<Environment>, pop: &str, init: Vec<InsertionContext>, gens: usize)
-> vrp_core::models::Solution {
    let builder = VrpConfigBuilder::new(problem.clone())
        .set_environment(env.clone())
        .set_telemetry_mode(TelemetryMode::None)
        .prebuild()
        .expect("prebuild")
        .with_init_solutions(init, None)
        .with_max_generations(Some(gens));
    let builder = if pop == "elitism" {
        let population = Box::new(create_elitism_population(problem.goal.clone(), env.clone()));
        builder.with_context(RefinementContext::new(problem.clone(), population, TelemetryMode::None, env.clone()))
    } else {
        builder
    };
    Solver::new(problem.clone(), builder.build().expect("config")).solve().expect("solve failed")
}

fn fitness_bits(problem: &Problem, ctx: &InsertionContext) -> Vec<u64> {
    problem.goal.fitness(ctx).map(|f| f.to_bits()).collect()
}

fn run_vrp(case: &Value) -> Value {
    let problem = Arc::new(vrp_problem_json(case).read_pragmatic().unwrap_or_else(|e| panic!("cannot read problem: {e}")));
    // population by the default rule: one cpu => Greedy, more => Rosomaxa
    let pop = case["pop"].as_str().unwrap();
    let env = vrp_env(if pop == "greedy" { 1 } else { 4 });
    // a feasible solution: what the solver returns after `gens0` generations, written as a pragmatic solution
    let first = vrp_solve(&problem, &env, pop, vec![], case["gens0"].as_u64().unwrap() as usize);
    let mut buffer = vec![];
    {
        let mut writer = BufWriter::new(&mut buffer);
        write_pragmatic(&problem, &first, PragmaticOutputType::OnlyPragmatic, &mut writer).expect("cannot write solution");
    }
    // ... read back by the initial solution reader and handed to a new solver run
    let init = read_init_solution(BufReader::new(buffer.as_slice()), problem.clone(), env.random.clone())
        .unwrap_or_else(|e| panic!("cannot read initial solution: {e}"));
    let init_ctx = InsertionContext::new_from_solution(problem.clone(), (init, None), env.clone());
    // the feasible solution as it was WRITTEN (not as it was read back): what the user seeded the solve with
    let first_ctx = InsertionContext::new_from_solution(problem.clone(), (first, None), env.clone());
    let seeded = vrp_solve(&problem, &env, pop, vec![init_ctx.deep_copy()], case["gens"].as_u64().unwrap() as usize);
    let res_ctx = InsertionContext::new_from_solution(problem.clone(), (seeded, None), env.clone());
    json!({
        "cmp": ord_to_i(problem.goal.total_order(&res_ctx, &init_ctx)),
        "cmp_written": ord_to_i(problem.goal.total_order(&res_ctx, &first_ctx)),
        "read_vs_written": ord_to_i(problem.goal.total_order(&init_ctx, &first_ctx)),
        "written_fitness": fitness_bits(&problem, &first_ctx),
        "init_fitness": fitness_bits(&problem, &init_ctx),
        "result_fitness": fitness_bits(&problem, &res_ctx),
        "init_unassigned": init_ctx.solution.unassigned.len(),
        "init_tours": init_ctx.solution.routes.len(),
    })
}

fn vrp_case(rng: &mut Rng) -> Value {
    let n = rng.usize(3, 12);
    let jobs: Vec<Value> = (0..n)
        .map(|_| {
            let tw = if rng.chance(1, 3) {
                let a = rng.range(0, 600);
                json!([a, a + rng.range(60, 600)])
            } else {
                Value::Null
            };
            json!({"p": [rng.range(-40, 40), rng.range(-40, 40)], "d": rng.range(1, 3), "tw": tw})
        })
        .collect();
    json!({
        "k": "vrp", "pop": *rng.pick(&["greedy", "rosomaxa", "rosomaxa", "elitism"]), "jobs": jobs,
        "vehicles": rng.range(1, 3), "capacity": rng.range(4, 15), "gens0": *rng.pick(&[1u64, 1, 3, 10]),
        "gens": *rng.pick(&[0u64, 0, 1, 2, 5, 30, 60]), "open_end": rng.chance(1, 2),
    })
}

// ---------------------------------------------------------------------------------------------
// generators

const FIT_PALETTES: &[&[i64]] = &[
    &[0, 1, 2],
    &[-3, -2, -1, 0, 1, 2, 3, 4, 5, 6],
    &[100, 101, 104, 105, 106, 110, 95, 96, 200, 0, 20, 19, 21],
    &[-100, -101, -105, -106, -95, 0, 5, -20, -19, -21],
    &[7],
    &[1, 2, 3],
];
const W_PALETTE: &[i64] = &[100, 101, 102, 103, 105, 110, 150, 200, 0, -100, -101, 1000, 1019, 1021, 50, 51, 98, 10, 9];

struct IndGen {
    next_id: u64,
    fits: Vec<i64>,
    offered: Vec<Value>,
}

impl IndGen {
    fn new(rng: &mut Rng) -> Self {
        let fits: Vec<i64> = match rng.below(8) {
            6 => (0..6).map(|_| rng.range(-(1 << 39), 1 << 39)).collect(),
            7 => (0..=60).collect(),
            i => FIT_PALETTES[i as usize].to_vec(),
        };
        Self { next_id: 1, fits, offered: vec![] }
    }
    fn fresh(&mut self, rng: &mut Rng) -> Value {
        let id = self.next_id;
        self.next_id += 1;
        let v = json!([id, *rng.pick(&self.fits), *rng.pick(W_PALETTE)]);
        self.offered.push(v.clone());
        v
    }
    /// mostly a new individual; now and then one that was offered before (the same id again)
    fn any(&mut self, rng: &mut Rng) -> Value {
        if !self.offered.is_empty() && rng.chance(1, 8) { rng.pick(&self.offered).clone() } else { self.fresh(rng) }
    }
    fn batch(&mut self, rng: &mut Rng) -> Vec<Value> {
        let n = match rng.below(20) {
            0 | 1 => 0,
            2..=4 => 1,
            5 => rng.usize(7, 20),
            _ => rng.usize(2, 6),
        };
        let mut xs: Vec<Value> = (0..n).map(|_| self.any(rng)).collect();
        match rng.below(6) {
            0 => xs.sort_by_key(|v| v[1].as_i64().unwrap()),
            1 => xs.sort_by_key(|v| -v[1].as_i64().unwrap()),
            _ => {}
        }
        xs
    }
}

fn gen_stats(rng: &mut Rng, generation: &mut u64, er: u64) -> Value {
    let r8 = *rng.pick(&[1u64, 2, 3, 4, 6, 8, 12, 16]);
    let sp = match rng.below(4) {
        0 => json!(["u"]),
        1 => json!(["m"]),
        _ => json!(["s", r8]),
    };
    // termination estimate in 64ths, biased towards the exploration-ratio boundary of the chosen speed
    let boundary = if sp[0] == "s" { er * r8 / 8 } else { er };
    let te = match rng.below(6) {
        0 => boundary.min(64),
        1 => (boundary + 1).min(64),
        2 => boundary.saturating_sub(1).min(64),
        3 => rng.below(8),
        _ => rng.below(65),
    };
    *generation += if rng.chance(1, 6) { 0 } else { 1 };
    json!({"o": "gen", "sp": sp, "te": te, "g": *generation, "i": rng.below(5)})
}

fn gen_ops(rng: &mut Rng, g: &mut IndGen, max_ops: usize, er: u64, add_heavy_prefix: usize) -> Vec<Value> {
    let n = rng.usize(1, max_ops);
    let mut generation = 0u64;
    (0..n)
        .map(|i| {
            let roll = if i < add_heavy_prefix { rng.below(12) } else { rng.below(20) };
            match roll {
                0..=6 => json!({"o": "add", "x": g.any(rng)}),
                7..=11 => json!({"o": "add_all", "xs": g.batch(rng)}),
                12..=14 => gen_stats(rng, &mut generation, er),
                _ => json!({"o": "select"}),
            }
        })
        .collect()
}

/// `false` when some `add_all` batch of a Greedy case has, after its first improving element, a strictly better
/// one — the inputs on which a short-circuiting `add_all` (`acc || self.add(..)`, S35, repaired) loses the best;
/// used only to label the cases (`later_better`) so that the evidence can count them
fn greedy_no_later_better(cfg: &Value, ops: &[Value]) -> bool {
    let fit = |v: &Value| v[1].as_i64().unwrap();
    let mut best: Option<i64> = if cfg["init"].is_null() { None } else { Some(fit(&cfg["init"])) };
    for op in ops {
        match op["o"].as_str().unwrap() {
            "add" => {
                let f = fit(&op["x"]);
                if best.is_none_or(|b| f < b) {
                    best = Some(f);
                }
            }
            "add_all" => {
                let xs = op["xs"].as_array().unwrap();
                if let Some(pos) = xs.iter().position(|x| best.is_none_or(|b| fit(x) < b)) {
                    let f = fit(&xs[pos]);
                    if xs[pos + 1..].iter().any(|y| fit(y) < f) {
                        return false;
                    }
                    best = Some(f);
                }
            }
            _ => {}
        }
    }
    true
}

fn greedy_case(rng: &mut Rng, max_ops: usize) -> Value {
    let mut g = IndGen::new(rng);
    let init = if rng.chance(1, 4) { g.fresh(rng) } else { Value::Null };
    let cfg = json!({"sel": *rng.pick(&[1u64, 1, 2, 3, 8]), "init": init});
    let ops = gen_ops(rng, &mut g, max_ops, 58, 0);
    json!({"k": "greedy", "later_better": !greedy_no_later_better(&cfg, &ops), "cfg": cfg, "ops": ops, "rseed": rng.below(1 << 32)})
}

fn elitism_case(rng: &mut Rng, max_ops: usize) -> Value {
    let mut g = IndGen::new(rng);
    let cfg = json!({
        "max": *rng.pick(&[1u64, 1, 2, 2, 3, 4, 5, 8, 30]),
        "sel": *rng.pick(&[1u64, 2, 3, 4, 8, 16]),
        "dedup": *rng.pick(&["default", "default", "never", "fit", "w", "ros10"]),
    });
    let ops = gen_ops(rng, &mut g, max_ops, 58, 0);
    json!({"k": "elitism", "cfg": cfg, "ops": ops, "rseed": rng.below(1 << 32)})
}

fn rosomaxa_cfg(rng: &mut Rng) -> Value {
    json!({
        "initial": *rng.pick(&[4u64, 4, 5, 8, 16]),
        "sel": *rng.pick(&[2u64, 3, 4, 7, 8, 12]),
        "elite": *rng.pick(&[1u64, 2, 2, 3, 5]),
        "node": *rng.pick(&[1u64, 2, 3]),
        "spread16": *rng.pick(&[4u64, 8, 12, 14]),
        "distr16": *rng.pick(&[4u64, 8, 14]),
        "rebalance": *rng.pick(&[1u64, 2, 5, 10, 100]),
        "er": *rng.pick(&[0u64, 16, 32, 58, 58, 58, 64]),
    })
}

fn rosomaxa_case(rng: &mut Rng, max_ops: usize) -> Value {
    let mut g = IndGen::new(rng);
    let cfg = rosomaxa_cfg(rng);
    let prefix = if rng.chance(3, 4) { cfg["initial"].as_u64().unwrap() as usize } else { 0 };
    let ops = gen_ops(rng, &mut g, max_ops, cfg["er"].as_u64().unwrap(), prefix);
    json!({"k": "rosomaxa", "cfg": cfg, "ops": ops, "rseed": rng.below(1 << 32)})
}

fn solve_case(rng: &mut Rng, max_gens: u64) -> Value {
    let mut g = IndGen::new(rng);
    let (pop, cfg) = match rng.below(4) {
        0 => ("greedy", json!({"sel": *rng.pick(&[1u64, 1, 2, 4]), "init": Value::Null})),
        1 => (
            "elitism",
            json!({"max": *rng.pick(&[1u64, 2, 4]), "sel": *rng.pick(&[1u64, 2, 4]), "dedup": *rng.pick(&["default", "never", "fit"])}),
        ),
        _ => ("rosomaxa", rosomaxa_cfg(rng)),
    };
    let n_init = rng.usize(0, 6);
    let init: Vec<Value> = (0..n_init).map(|_| g.fresh(rng)).collect();
    json!({
        "k": "solve", "pop": pop, "cfg": cfg, "init": init, "init_max": *rng.pick(&[1u64, 2, 4, 4, 6, 20]),
        "gens": *rng.pick(&[0u64, 1, 2, 5, 20, max_gens]), "palette": g.fits, "rseed": rng.below(1 << 32),
    })
}

/// every operation sequence of length `len` over a three-value fitness alphabet; `reduced` = a smaller op alphabet
fn exhaustive(kind: &str, cfg: &Value, len: usize, reduced: bool, cases: &mut Vec<Value>) {
    // the op alphabet; individuals get their ids from the position in the sequence
    let mut alphabet: Vec<Value> = vec![];
    for f in 1..=3 {
        alphabet.push(json!({"o": "add", "f": [f]}));
    }
    alphabet.push(json!({"o": "add_all", "f": []}));
    if reduced {
        for pair in [[2, 1], [1, 2], [3, 3]] {
            alphabet.push(json!({"o": "add_all", "f": pair}));
        }
    } else {
        for f in 1..=3 {
            for g in 1..=3 {
                alphabet.push(json!({"o": "add_all", "f": [f, g]}));
            }
        }
    }
    alphabet.push(json!({"o": "select"}));
    alphabet.push(json!({"o": "gen"}));
    let k = alphabet.len();
    let total = k.pow(len as u32);
    for code in 0..total {
        let mut c = code;
        let mut id = 0u64;
        let mut ops = vec![];
        for _ in 0..len {
            let a = &alphabet[c % k];
            c /= k;
            let mut mk = |f: &Value| {
                id += 1;
                json!([id, f.as_i64().unwrap(), 100 + id])
            };
            ops.push(match a["o"].as_str().unwrap() {
                "add" => json!({"o": "add", "x": mk(&a["f"][0])}),
                "add_all" => json!({"o": "add_all", "xs": a["f"].as_array().unwrap().iter().map(&mut mk).collect::<Vec<_>>()}),
                "gen" => json!({"o": "gen", "sp": ["s", 4], "te": 10, "g": 1, "i": 0}),
                _ => json!({"o": "select"}),
            });
        }
        let mut case = json!({"k": kind, "cfg": cfg, "ops": ops, "rseed": 1});
        if kind == "greedy" {
            case["later_better"] = json!(!greedy_no_later_better(cfg, case["ops"].as_array().unwrap()));
        }
        cases.push(case);
    }
}

fn gen_cases(rng: &mut Rng, tier: Tier) -> Vec<Value> {
    let thorough = tier == Tier::Thorough;
    let mut cases = vec![];
    let (n_seq, max_ops) = if thorough { (20_000, 400) } else { (4000, 60) };
    for i in 0..n_seq {
        // most sequences short (they find the boundary cases), some long
        let m = if i % 4 == 0 { max_ops } else { 25 };
        cases.push(match i % 8 {
            0 | 1 => greedy_case(rng, m),
            2..=4 => elitism_case(rng, m),
            _ => rosomaxa_case(rng, m),
        });
    }
    for _ in 0..(if thorough { 1500 } else { 300 }) {
        cases.push(solve_case(rng, if thorough { 300 } else { 60 }));
    }
    for _ in 0..(if thorough { 300 } else { 40 }) {
        cases.push(vrp_case(rng));
    }
    let greedy_cfgs = [json!({"sel": 1, "init": null}), json!({"sel": 2, "init": [0, 2, 100]})];
    let elitism_cfgs: Vec<Value> = [(1, "never"), (2, "never"), (2, "fit"), (2, "default"), (3, "fit")]
        .iter()
        .map(|(max, dedup)| json!({"max": max, "sel": 2, "dedup": dedup}))
        .collect();
    // exhaustive: all configurations up to length 2 (quick) / 3 (thorough); the main ones one or two steps further
    let max_len = if thorough { 3 } else { 2 };
    for len in 1..=max_len {
        for cfg in greedy_cfgs.iter() {
            exhaustive("greedy", cfg, len, false, &mut cases);
        }
        for cfg in elitism_cfgs.iter() {
            exhaustive("elitism", cfg, len, false, &mut cases);
        }
    }
    exhaustive("greedy", &greedy_cfgs[0], max_len + 1, false, &mut cases);
    exhaustive("elitism", &elitism_cfgs[2], max_len + 1, false, &mut cases);
    if thorough {
        exhaustive("elitism", &elitism_cfgs[0], 4, false, &mut cases);
        exhaustive("greedy", &greedy_cfgs[0], 5, true, &mut cases);
        exhaustive("elitism", &elitism_cfgs[2], 5, true, &mut cases);
    }
    cases
}

fn exec(case: &Value) -> Value {
    let kind = case["k"].as_str().unwrap().to_string();
    let rseed = case["rseed"].as_u64().unwrap_or(1);
    match kind.as_str() {
        "greedy" | "elitism" => {
            run_ops(build_population(&kind, &case["cfg"], rseed), case["ops"].as_array().unwrap())
        }
        "rosomaxa" => {
            let case = case.clone();
            on_fresh_thread(move || run_ops(build_population("rosomaxa", &case["cfg"], rseed), case["ops"].as_array().unwrap()))
        }
        "solve" => {
            let case = case.clone();
            on_fresh_thread(move || run_solve(&case))
        }
        "vrp" => {
            let case = case.clone();
            on_fresh_thread(move || run_vrp(&case))
        }
        other => panic!("unknown case kind {other}"),
    }
}

fn main() {
    run_main(gen_cases, exec);
}
