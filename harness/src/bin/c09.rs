//! C09 — comparisons obey order laws: runs the real `GoalContext::total_order`, `dominance_order`
//! and `InsertionCost` operators on adversarial bit patterns.

use serde_json::{Value, json};
use std::sync::Arc;
use vrp_core::construction::heuristics::InsertionCost;
use vrp_core::models::{Goal, GoalBuilder};
use vrp_core::prelude::*;
use vrp_core::rosomaxa::evolution::objectives::dominance_order;
use vrp_core::rosomaxa::prelude::{HeuristicObjective, HeuristicSolution};
use vrp_verif_harness::*;

struct FitKey;

/// fitness = the idx-th planted value of the solution
struct PlantedObjective(usize);

impl FeatureObjective for PlantedObjective {
    fn fitness(&self, solution: &InsertionContext) -> Cost {
        solution.solution.state.get_value::<FitKey, Vec<f64>>().and_then(|v| v.get(self.0)).copied().unwrap_or(0.)
    }
    fn estimate(&self, _: &MoveContext<'_>) -> Cost {
        0.
    }
}

const SPECIALS: &[u64] = &[
    0x0000_0000_0000_0000, // +0
    0x8000_0000_0000_0000, // -0
    0x7ff0_0000_0000_0000, // +inf
    0xfff0_0000_0000_0000, // -inf
    0x7ff8_0000_0000_0000, // qNaN
    0xfff8_0000_0000_0000, // -qNaN
    0x7ff0_0000_0000_0001, // sNaN
    0x7fff_ffff_ffff_ffff, // NaN max payload
    0xffff_ffff_ffff_ffff, // -NaN max payload
    0x0000_0000_0000_0001, // min denormal
    0x8000_0000_0000_0001, // -min denormal
    0x000f_ffff_ffff_ffff, // max denormal
    0x0010_0000_0000_0000, // min normal
    0x3ff0_0000_0000_0000, // 1.0
    0xbff0_0000_0000_0000, // -1.0
    0x7fef_ffff_ffff_ffff, // f64::MAX
    0xffef_ffff_ffff_ffff, // f64::MIN
    0x4059_0000_0000_0000, // 100.0
];

fn bits(rng: &mut Rng, pool: &mut Vec<u64>) -> u64 {
    let b = match rng.below(12) {
        // a value close to an earlier finite one: relative distance 10^-3 ... 10^-15, either side (a comparison with a
        // tolerance - symmetric or not - is not the order the property speaks of)
        10 | 11 if pool.iter().any(|b| f64::from_bits(*b).is_finite() && f64::from_bits(*b) != 0.) => {
            let finite: Vec<u64> = pool.iter().copied().filter(|b| f64::from_bits(*b).is_finite() && f64::from_bits(*b) != 0.).collect();
            let x = f64::from_bits(*rng.pick(&finite));
            let rel = 10f64.powi(-(rng.range(3, 15) as i32)) * (1. + rng.range(0, 9) as f64 / 10.);
            (if rng.chance(1, 2) { x * (1. + rel) } else { x * (1. - rel) }).to_bits()
        }
        0..=2 if !pool.is_empty() => *rng.pick(pool), // ties
        0..=4 => *rng.pick(SPECIALS),
        5 => rng.pick(SPECIALS).wrapping_add(1),
        6 => rng.pick(SPECIALS).wrapping_sub(1),
        7 => (rng.range(-5, 5) as f64).to_bits(),
        8 => ((rng.range(-1000, 1000) as f64) / 8.).to_bits(),
        _ => rng.next(),
    };
    pool.push(b);
    b
}

fn gen_cases(rng: &mut Rng, tier: Tier) -> Vec<Value> {
    let scale = if tier == Tier::Thorough { 40 } else { 1 };
    let mut cases = vec![];
    // goals: mixes of single and dominance layers, 3-4 solutions
    for i in 0..(1500 * scale) {
        let n_layers = rng.usize(1, 5);
        let all_single = i % 2 == 0;
        let kinds: Vec<(&str, usize)> = (0..n_layers)
            .map(|_| if all_single || rng.chance(1, 2) { ("s", 1) } else { ("m", rng.usize(1, 3)) })
            .collect();
        let n_sol = rng.usize(3, 4);
        let mut pool = vec![];
        let vecs: Vec<Vec<Vec<u64>>> = (0..n_sol)
            .map(|_| kinds.iter().map(|(_, n)| (0..*n).map(|_| bits(rng, &mut pool)).collect()).collect())
            .collect();
        cases.push(json!({"k": "goal", "kinds": kinds.iter().map(|k| k.0).collect::<Vec<_>>(), "vecs": vecs}));
    }
    for _ in 0..(300 * scale) {
        let n = rng.usize(0, 6);
        let os: Vec<i64> = (0..n).map(|_| rng.range(-1, 1)).collect();
        cases.push(json!({"k": "dom", "os": os}));
    }
    for _ in 0..(1500 * scale) {
        let mut pool = vec![];
        let vecs: Vec<Vec<u64>> = (0..3)
            .map(|_| {
                let len = rng.usize(0, 8);
                (0..len).map(|_| if rng.chance(1, 3) { 0 } else { bits(rng, &mut pool) }).collect()
            })
            .collect();
        cases.push(json!({"k": "icmp", "vecs": vecs}));
    }
    for _ in 0..(1000 * scale) {
        let lx = rng.usize(0, 8);
        let ly = rng.usize(0, 8);
        let big = rng.chance(1, 4);
        let m = if big { 1 << 40 } else { 50 };
        let x: Vec<i64> = (0..lx).map(|_| rng.range(-m, m)).collect();
        let y: Vec<i64> = (0..ly).map(|_| rng.range(-m, m)).collect();
        cases.push(json!({"k": "iarith", "x": x, "y": y}));
    }
    for _ in 0..(30 * scale) {
        cases.push(gen_realgoal(rng));
    }
    cases
}

/// a REAL goal on REAL solutions: a pragmatic problem whose `minimize-unassigned` objective weighs skipped breaks with a
/// fraction, several vehicles whose break cannot be taken once they serve a long job around it, jobs that fit no vehicle; solved
/// twice; the order laws and "fitness is a function of the solution" are evaluated repeatedly on the contexts
fn gen_realgoal(rng: &mut Rng) -> Value {
    let vehicles = rng.usize(3, 7);
    let long_jobs = rng.usize(2, vehicles);
    let big = rng.usize(1, 5);
    let small = rng.usize(0, 4);
    let weights = [[3, 10], [7, 10], [1, 10], [9, 10], [1, 1], [5, 2], [1, 3]];
    let w = *rng.pick(&weights);
    let n = 1 + long_jobs + big + small;
    let m: Vec<i64> = (0..n * n).map(|k| if k / n == k % n { 0 } else { rng.range(5, 60) }).collect();
    json!({"k": "realgoal", "vehicles": vehicles, "long": long_jobs, "big": big, "small": small, "w": w, "m": m,
           "gens": [rng.usize(2, 6), rng.usize(7, 15)], "tours_above_unassigned": rng.chance(1, 4)})
}

fn exec_realgoal(case: &Value) -> Value {
    use vrp_pragmatic::format::problem::PragmaticProblem;
    let u = |k: &str| case[k].as_u64().unwrap() as usize;
    let (vehicles, long_jobs, big, small) = (u("vehicles"), u("long"), u("big"), u("small"));
    let n = 1 + long_jobs + big + small;
    let ts = |t: i64| format!("1970-01-01T{:02}:{:02}:{:02}Z", t / 3600, (t % 3600) / 60, t % 60);
    let mut jobs = vec![];
    for i in 0..long_jobs {
        // service 11:30 .. 13:30 around the break window 12:00 .. 13:00
        jobs.push(json!({"id": format!("long{i}"), "deliveries": [{"places": [{"location": {"index": 1 + i}, "duration": 7200.0,
            "times": [[ts(41400), ts(41700)]]}], "demand": [1]}]}));
    }
    for i in 0..big {
        jobs.push(json!({"id": format!("big{i}"), "deliveries": [{"places": [{"location": {"index": 1 + long_jobs + i}, "duration": 300.0}], "demand": [100]}]}));
    }
    for i in 0..small {
        jobs.push(json!({"id": format!("small{i}"), "deliveries": [{"places": [{"location": {"index": 1 + long_jobs + big + i}, "duration": 60.0}], "demand": [1]}]}));
    }
    let w = case["w"][0].as_f64().unwrap() / case["w"][1].as_f64().unwrap();
    let mut objectives = vec![json!({"type": "minimize-unassigned", "breaks": w}), json!({"type": "minimize-tours"}), json!({"type": "minimize-cost"})];
    if case["tours_above_unassigned"].as_bool().unwrap_or(false) {
        objectives.swap(0, 1);
    }
    let problem = json!({
        "plan": {"jobs": jobs},
        "fleet": {"vehicles": [{
            "typeId": "v", "vehicleIds": (0..vehicles).map(|i| format!("v{i}")).collect::<Vec<_>>(),
            "profile": {"matrix": "car"}, "costs": {"fixed": 20.0, "distance": 1.0, "time": 1.0},
            "shifts": [{"start": {"earliest": ts(28800), "location": {"index": 0}}, "end": {"latest": ts(64800), "location": {"index": 0}},
                        "breaks": [{"time": [ts(43200), ts(46800)], "places": [{"duration": 1800.0}]}]}],
            "capacity": [10]}], "profiles": [{"name": "car"}]},
        "objectives": objectives,
    });
    let m: Vec<i64> = i64s(&case["m"]);
    assert_eq!(m.len(), n * n);
    let matrix = json!({"profile": "car", "travelTimes": m, "distances": m});
    let core = match (problem.to_string(), vec![matrix.to_string()]).read_pragmatic() {
        Ok(p) => Arc::new(p),
        Err(e) => return json!({"error": format!("generated problem is invalid: {:?}", e.errors.iter().map(|x| x.code.clone()).collect::<Vec<_>>())}),
    };
    let env = Arc::new(Environment { logger: Arc::new(|_| ()), ..Environment::default() });
    let mut ctxs: Vec<InsertionContext> = vec![];
    for g in case["gens"].as_array().unwrap() {
        let (p2, e2, gens) = (core.clone(), env.clone(), g.as_u64().unwrap() as usize);
        let solved = isolated(1, move || -> Result<vrp_core::models::Solution, String> {
            let config = VrpConfigBuilder::new(p2.clone())
                .set_environment(e2)
                .set_telemetry_mode(vrp_core::rosomaxa::evolution::TelemetryMode::None)
                .prebuild()
                .map_err(|e| e.to_string())?
                .with_max_generations(Some(gens))
                .build()
                .map_err(|e| e.to_string())?;
            Solver::new(p2.clone(), config).solve().map_err(|e| e.to_string())
        });
        match solved {
            Ok(Ok(solution)) => {
                let ctx = InsertionContext::new_from_solution(core.clone(), (solution, None), env.clone());
                let copy = ctx.deep_copy();
                ctxs.push(ctx);
                ctxs.push(copy);
            }
            Ok(Err(e)) => return json!({"error": e}),
            Err(_) => return json!({"panic": format!("the solver panicked: {}", last_panic())}),
        }
    }
    let goal = &core.goal;
    let fit = |c: &InsertionContext| -> Vec<u64> { goal.fitness(c).map(|v| v.to_bits()).collect() };
    let fits: Vec<Vec<u64>> = ctxs.iter().map(fit).collect();
    let matrix_of = || -> Vec<Vec<i64>> { ctxs.iter().map(|a| ctxs.iter().map(|b| ord_to_i(goal.total_order(a, b))).collect()).collect() };
    let m0 = matrix_of();
    // evaluated again and again: neither the fitness of a solution nor the outcome of a comparison may change
    let mut stable = true;
    for _ in 0..12 {
        stable &= ctxs.iter().zip(fits.iter()).all(|(c, f)| fit(c) == *f);
        stable &= matrix_of() == m0;
    }
    let unassigned: Vec<usize> = ctxs.iter().map(|c| c.solution.unassigned.len()).collect();
    json!({"fits": fits, "m": m0, "stable": stable, "unassigned": unassigned})
}

fn u64s(v: &Value) -> Vec<u64> {
    v.as_array().unwrap().iter().map(|x| x.as_u64().unwrap()).collect()
}

fn i64s(v: &Value) -> Vec<i64> {
    v.as_array().unwrap().iter().map(|x| x.as_i64().unwrap()).collect()
}

fn tiny_problem(goal_ctx: GoalContext) -> Arc<Problem> {
    let job = SingleBuilder::default().id("j1").location(1).unwrap().build_as_job().unwrap();
    let vehicle = VehicleBuilder::default()
        .id("v1")
        .add_detail(VehicleDetailBuilder::default().set_start_location(0).build().unwrap())
        .build()
        .unwrap();
    let transport = SimpleTransportCost::new(vec![0., 1., 1., 0.], vec![0., 1., 1., 0.]).unwrap();
    Arc::new(
        ProblemBuilder::default()
            .add_jobs(std::iter::once(job))
            .add_vehicles(std::iter::once(vehicle))
            .with_goal(goal_ctx)
            .with_transport_cost(Arc::new(transport))
            .build()
            .unwrap(),
    )
}

fn build_goal(kinds: &[String]) -> (Goal, Vec<Feature>) {
    let mut builder = GoalBuilder::default();
    let mut features = vec![];
    let mut idx = 0;
    for kind in kinds.iter() {
        // number of objectives in a multi layer is taken from the vectors by the caller; here the
        // kind string carries it as "m" + count
        if kind == "s" {
            let obj: Arc<dyn FeatureObjective> = Arc::new(PlantedObjective(idx));
            features.push(Feature { name: format!("f{idx}"), objective: Some(obj.clone()), ..Feature::default() });
            builder = builder.add_single(obj);
            idx += 1;
        } else {
            let n: usize = kind[1..].parse().unwrap();
            let objs: Vec<Arc<dyn FeatureObjective>> =
                (0..n).map(|k| Arc::new(PlantedObjective(idx + k)) as Arc<dyn FeatureObjective>).collect();
            for (k, o) in objs.iter().enumerate() {
                features.push(Feature { name: format!("f{}", idx + k), objective: Some(o.clone()), ..Feature::default() });
            }
            // the composition the pragmatic goal reader itself uses for a multi-objective layer (hook H9): plain sum for
            // even, weighted sum for odd positions
            let weights = if idx % 2 == 1 { Some(vec![1.; n]) } else { None };
            builder = vrp_pragmatic::format::problem::verif_eval_multi_objective_strategy(&objs, weights, builder).unwrap();
            idx += n;
        }
    }
    (builder.build().unwrap(), features)
}

fn exec(case: &Value) -> Value {
    match case["k"].as_str().unwrap() {
        "goal" => {
            let vecs: Vec<Vec<Vec<u64>>> =
                case["vecs"].as_array().unwrap().iter().map(|s| s.as_array().unwrap().iter().map(u64s).collect()).collect();
            let kinds: Vec<String> = case["kinds"]
                .as_array()
                .unwrap()
                .iter()
                .enumerate()
                .map(|(i, k)| if k == "s" { "s".to_string() } else { format!("m{}", vecs[0][i].len()) })
                .collect();
            let (goal, features) = build_goal(&kinds);
            let goal_ctx = GoalContextBuilder::with_features(&features).unwrap().set_main_goal(goal).build().unwrap();
            let problem = tiny_problem(goal_ctx);
            let env = Arc::new(Environment::default());
            let ctxs: Vec<InsertionContext> = vecs
                .iter()
                .map(|layers| {
                    let mut ctx = InsertionContext::new(problem.clone(), env.clone());
                    let flat: Vec<f64> = layers.iter().flatten().map(|b| f64::from_bits(*b)).collect();
                    ctx.solution.state.set_value::<FitKey, Vec<f64>>(flat);
                    ctx
                })
                .collect();
            let m: Vec<Vec<i64>> = ctxs
                .iter()
                .map(|a| ctxs.iter().map(|b| ord_to_i(problem.goal.total_order(a, b))).collect())
                .collect();
            json!(m)
        }
        "dom" => {
            let os = i64s(&case["os"]);
            let o = dominance_order(&(), &(), os.iter().map(|o| move |_: &(), _: &()| 0i64.cmp(&-o)));
            json!(ord_to_i(o))
        }
        "icmp" => {
            let vecs: Vec<InsertionCost> = case["vecs"]
                .as_array()
                .unwrap()
                .iter()
                .map(|v| u64s(v).into_iter().map(f64::from_bits).collect::<InsertionCost>())
                .collect();
            let m: Vec<Vec<i64>> = vecs.iter().map(|a| vecs.iter().map(|b| ord_to_i(a.cmp(b))).collect()).collect();
            // `==` and `partial_cmp` must tell the same story as `cmp`
            for a in vecs.iter() {
                for b in vecs.iter() {
                    assert_eq!(a == b, a.cmp(b) == std::cmp::Ordering::Equal, "eq disagrees with cmp");
                    assert_eq!(a.partial_cmp(b), Some(a.cmp(b)), "partial_cmp disagrees with cmp");
                }
            }
            json!(m)
        }
        "iarith" => {
            let x: InsertionCost = i64s(&case["x"]).into_iter().map(|v| v as f64).collect();
            let y: InsertionCost = i64s(&case["y"]).into_iter().map(|v| v as f64).collect();
            let to_ints = |c: &InsertionCost| -> Vec<i64> {
                c.iter()
                    .map(|v| {
                        assert!(v.fract() == 0. && v.abs() < 9.0e15, "non-integral result");
                        v as i64
                    })
                    .collect()
            };
            let add = &x + &y;
            let sub = &x - &y;
            let add_owned = x.clone() + y.clone();
            let sub_owned = x.clone() - y.clone();
            assert!(add_owned == add && sub_owned == sub, "owned and borrowed operators differ");
            let add_sub = &add - &y;
            let sub_add = &sub + &y;
            json!({"add": to_ints(&add), "sub": to_ints(&sub), "add_sub": to_ints(&add_sub),
                   "sub_add": to_ints(&sub_add), "cmp": ord_to_i(x.cmp(&y))})
        }
        "realgoal" => exec_realgoal(case),
        other => panic!("unknown case kind {other}"),
    }
}

fn main() {
    run_main(gen_cases, exec);
}
