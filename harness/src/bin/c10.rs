//! C10 — problem validation is total and matches its documented rules.
//!
//! A case carries a *simplified document* (`doc`): ids, tasks, shifts, relations, profiles, matrix
//! sizes and the objective tree; times are integer seconds (or the token `"bad"` for a malformed
//! timestamp). `exec` renders the document into the repository's own serde structs
//! (`vrp_pragmatic::format::problem::*`), serialises them to JSON and calls the real
//! `PragmaticProblem::read_pragmatic` (string entry, typed entry, or the approximation entry without
//! matrices). The Lean driver parses the same simplified document.

use serde_json::{Value, json};
use vrp_pragmatic::format::problem::*;
use vrp_pragmatic::format::{Location, MultiFormatError};
use vrp_verif_harness::*;

// ------------------------------------------------------------------------------------------------
// rendering: simplified document -> repository structs

/// RFC 3339 (UTC, `Z`) text of a unix timestamp; civil-from-days (proleptic Gregorian).
pub fn rfc3339(secs: i64) -> String {
    let days = secs.div_euclid(86_400);
    let rem = secs.rem_euclid(86_400);
    let z = days + 719_468;
    let era = z.div_euclid(146_097);
    let doe = z.rem_euclid(146_097);
    let yoe = (doe - doe / 1_460 + doe / 36_524 - doe / 146_096) / 365;
    let y = yoe + era * 400;
    let doy = doe - (365 * yoe + yoe / 4 - yoe / 100);
    let mp = (5 * doy + 2) / 153;
    let d = doy - (153 * mp + 2) / 5 + 1;
    let m = if mp < 10 { mp + 3 } else { mp - 9 };
    let y = if m <= 2 { y + 1 } else { y };
    format!("{:04}-{:02}-{:02}T{:02}:{:02}:{:02}Z", y, m, d, rem / 3600, (rem % 3600) / 60, rem % 60)
}

const BAD_TIME: &str = "not-a-date";

/// time token: integer seconds, or anything else (`"bad"`) = malformed text
fn tm(v: &Value) -> String {
    match v.as_i64() {
        Some(s) => rfc3339(s),
        None => BAD_TIME.to_string(),
    }
}

fn opt_tm(v: &Value) -> Option<String> {
    if v.is_null() { None } else { Some(tm(v)) }
}

fn s(v: &Value) -> String {
    v.as_str().unwrap_or("").to_string()
}

fn opt_s(v: &Value) -> Option<String> {
    v.as_str().map(|x| x.to_string())
}

fn f(v: &Value) -> f64 {
    v.as_i64().expect("integer expected") as f64
}

fn opt_f(v: &Value) -> Option<f64> {
    v.as_i64().map(|x| x as f64)
}

fn arr(v: &Value) -> &[Value] {
    v.as_array().map(|a| a.as_slice()).unwrap_or(&[])
}

fn ints(v: &Value) -> Vec<i32> {
    arr(v).iter().map(|x| x.as_i64().expect("integer expected") as i32).collect()
}

fn loc(v: &Value) -> Location {
    if let Some(i) = v.get("i") {
        Location::Reference { index: i.as_u64().expect("index") as usize }
    } else {
        let c = arr(&v["c"]);
        Location::Coordinate { lat: f(&c[0]), lng: f(&c[1]) }
    }
}

fn times(v: &Value) -> Option<Vec<Vec<String>>> {
    if v.is_null() { None } else { Some(arr(v).iter().map(|tw| arr(tw).iter().map(tm).collect()).collect()) }
}

fn place(v: &Value) -> JobPlace {
    JobPlace { location: loc(&v["loc"]), duration: f(&v["dur"]), times: times(&v["times"]), tag: opt_s(&v["tag"]) }
}

fn task(v: &Value) -> JobTask {
    JobTask {
        places: arr(&v["places"]).iter().map(place).collect(),
        demand: if v["demand"].is_null() { None } else { Some(ints(&v["demand"])) },
        order: v["order"].as_i64().map(|x| x as i32),
    }
}

fn tasks(v: &Value) -> Option<Vec<JobTask>> {
    if v.is_null() { None } else { Some(arr(v).iter().map(task).collect()) }
}

fn job(v: &Value) -> Job {
    Job {
        id: s(&v["id"]),
        pickups: tasks(&v["p"]),
        deliveries: tasks(&v["d"]),
        replacements: tasks(&v["r"]),
        services: tasks(&v["s"]),
        skills: if v["skills"].as_bool().unwrap_or(false) {
            Some(JobSkills { all_of: Some(vec!["sk1".to_string()]), one_of: None, none_of: Some(vec!["sk9".to_string()]) })
        } else {
            None
        },
        // value is carried in halves so that 0.5 is representable
        value: v["value2"].as_i64().map(|x| x as f64 / 2.),
        group: opt_s(&v["group"]),
        compatibility: opt_s(&v["compat"]),
    }
}

fn relation(v: &Value) -> Relation {
    Relation {
        type_field: match v["type"].as_str().unwrap_or("any") {
            "strict" => RelationType::Strict,
            "sequence" => RelationType::Sequence,
            _ => RelationType::Any,
        },
        jobs: arr(&v["jobs"]).iter().map(s).collect(),
        vehicle_id: s(&v["vehicle"]),
        shift_index: v["shift"].as_u64().map(|x| x as usize),
    }
}

fn break_places(v: &Value) -> Vec<VehicleOptionalBreakPlace> {
    arr(v)
        .iter()
        .map(|p| VehicleOptionalBreakPlace {
            duration: f(&p["dur"]),
            location: if p["loc"].is_null() { None } else { Some(loc(&p["loc"])) },
            tag: opt_s(&p["tag"]),
        })
        .collect()
}

fn policy(v: &Value) -> Option<VehicleOptionalBreakPolicy> {
    match v.as_str() {
        Some("skip-if-arrival-before-end") => Some(VehicleOptionalBreakPolicy::SkipIfArrivalBeforeEnd),
        Some(_) => Some(VehicleOptionalBreakPolicy::SkipIfNoIntersection),
        None => None,
    }
}

fn vbreak(v: &Value) -> VehicleBreak {
    match v["kind"].as_str().unwrap_or("") {
        "otw" => VehicleBreak::Optional {
            time: VehicleOptionalBreakTime::TimeWindow(arr(&v["tw"]).iter().map(tm).collect()),
            places: break_places(&v["places"]),
            policy: policy(&v["policy"]),
        },
        "ooff" => VehicleBreak::Optional {
            time: VehicleOptionalBreakTime::TimeOffset(arr(&v["off"]).iter().map(f).collect()),
            places: break_places(&v["places"]),
            policy: policy(&v["policy"]),
        },
        "rex" => VehicleBreak::Required {
            time: VehicleRequiredBreakTime::ExactTime { earliest: tm(&v["e"]), latest: tm(&v["l"]) },
            duration: f(&v["dur"]),
        },
        _ => VehicleBreak::Required {
            time: VehicleRequiredBreakTime::OffsetTime { earliest: f(&v["e"]), latest: f(&v["l"]) },
            duration: f(&v["dur"]),
        },
    }
}

fn reload(v: &Value) -> VehicleReload {
    VehicleReload {
        location: loc(&v["loc"]),
        duration: f(&v["dur"]),
        times: times(&v["times"]),
        tag: opt_s(&v["tag"]),
        resource_id: opt_s(&v["res"]),
    }
}

fn shift(v: &Value) -> VehicleShift {
    let st = &v["start"];
    VehicleShift {
        start: ShiftStart { earliest: tm(&st["e"]), latest: opt_tm(&st["l"]), location: loc(&st["loc"]) },
        end: if v["end"].is_null() {
            None
        } else {
            let e = &v["end"];
            Some(ShiftEnd { earliest: opt_tm(&e["e"]), latest: tm(&e["l"]), location: loc(&e["loc"]) })
        },
        breaks: if v["breaks"].is_null() { None } else { Some(arr(&v["breaks"]).iter().map(vbreak).collect()) },
        reloads: if v["reloads"].is_null() { None } else { Some(arr(&v["reloads"]).iter().map(reload).collect()) },
        recharges: if v["recharges"].is_null() {
            None
        } else {
            let r = &v["recharges"];
            Some(VehicleRecharges { max_distance: f(&r["maxd"]), stations: arr(&r["stations"]).iter().map(place).collect() })
        },
    }
}

fn vehicle(v: &Value) -> VehicleType {
    VehicleType {
        type_id: s(&v["type"]),
        vehicle_ids: arr(&v["ids"]).iter().map(s).collect(),
        profile: VehicleProfile { matrix: s(&v["profile"]), scale: opt_f(&v["scale"]) },
        costs: VehicleCosts { fixed: opt_f(&v["fixed"]), distance: f(&v["cdist"]), time: f(&v["ctime"]) },
        shifts: arr(&v["shifts"]).iter().map(shift).collect(),
        capacity: ints(&v["cap"]),
        skills: if v["skills"].as_bool().unwrap_or(false) { Some(vec!["sk1".to_string(), "sk2".to_string()]) } else { None },
        limits: if v["limits"].is_null() {
            None
        } else {
            let l = &v["limits"];
            Some(VehicleLimits {
                max_distance: opt_f(&l["dist"]),
                max_duration: opt_f(&l["dur"]),
                tour_size: l["size"].as_u64().map(|x| x as usize),
            })
        },
    }
}

fn objective(v: &Value) -> Objective {
    match v["t"].as_str().unwrap_or("") {
        "minimize-cost" => Objective::MinimizeCost,
        "minimize-distance" => Objective::MinimizeDistance,
        "minimize-duration" => Objective::MinimizeDuration,
        "minimize-tours" => Objective::MinimizeTours,
        "maximize-tours" => Objective::MaximizeTours,
        "maximize-value" => Objective::MaximizeValue { breaks: opt_f(&v["breaks"]) },
        "minimize-unassigned" => Objective::MinimizeUnassigned { breaks: opt_f(&v["breaks"]) },
        "minimize-arrival-time" => Objective::MinimizeArrivalTime,
        "balance-max-load" => Objective::BalanceMaxLoad,
        "balance-activities" => Objective::BalanceActivities,
        "balance-distance" => Objective::BalanceDistance,
        "balance-duration" => Objective::BalanceDuration,
        "compact-tour" => Objective::CompactTour { job_radius: v["radius"].as_u64().unwrap_or(2) as usize },
        "tour-order" => Objective::TourOrder,
        "fast-service" => Objective::FastService,
        "hierarchical-areas" => Objective::HierarchicalAreas { levels: v["levels"].as_u64().unwrap_or(1) as usize },
        _ => Objective::MultiObjective {
            strategy: if v["w"].is_null() {
                MultiStrategy::Sum
            } else {
                MultiStrategy::WeightedSum { weights: arr(&v["w"]).iter().map(f).collect() }
            },
            objectives: arr(&v["os"]).iter().map(objective).collect(),
        },
    }
}

fn matrix(v: &Value) -> Matrix {
    let fill = |n: u64| {
        let m = ((n as f64).sqrt().round() as u64).max(1);
        (0..n).map(|i| if i / m == i % m { 0 } else { 10 + ((i / m) * 3 + i % m) as i64 % 7 }).collect::<Vec<_>>()
    };
    Matrix {
        profile: opt_s(&v["profile"]),
        timestamp: opt_tm(&v["ts"]),
        travel_times: fill(v["tt"].as_u64().unwrap_or(0)),
        distances: fill(v["dist"].as_u64().unwrap_or(0)),
        error_codes: None,
    }
}

pub fn render(doc: &Value) -> (Problem, Vec<Matrix>) {
    let problem = Problem {
        plan: Plan {
            jobs: arr(&doc["jobs"]).iter().map(job).collect(),
            relations: if doc["relations"].is_null() { None } else { Some(arr(&doc["relations"]).iter().map(relation).collect()) },
            clustering: doc["clustering"].as_str().map(|p| Clustering::Vicinity {
                profile: VehicleProfile { matrix: p.to_string(), scale: None },
                threshold: VicinityThresholdPolicy {
                    duration: 120.,
                    distance: 100.,
                    min_shared_time: None,
                    smallest_time_window: None,
                    max_jobs_per_cluster: None,
                },
                visiting: VicinityVisitPolicy::Continue,
                serving: VicinityServingPolicy::Original { parking: 0. },
                filtering: None,
            }),
        },
        fleet: Fleet {
            vehicles: arr(&doc["vehicles"]).iter().map(vehicle).collect(),
            profiles: arr(&doc["profiles"]).iter().map(|p| MatrixProfile { name: s(&p["name"]), speed: opt_f(&p["speed"]) }).collect(),
            resources: if doc["resources"].is_null() {
                None
            } else {
                Some(arr(&doc["resources"]).iter().map(|r| VehicleResource::Reload { id: s(&r["id"]), capacity: ints(&r["cap"]) }).collect())
            },
        },
        objectives: if doc["objectives"].is_null() { None } else { Some(arr(&doc["objectives"]).iter().map(objective).collect()) },
    };
    let matrices = arr(&doc["matrices"]).iter().map(matrix).collect();
    (problem, matrices)
}

// ------------------------------------------------------------------------------------------------
// execution on the real code

fn codes_of<T>(res: Result<T, MultiFormatError>) -> Value {
    match res {
        Ok(_) => json!({ "codes": [], "e0": [] }),
        Err(err) => {
            let mut e1: Vec<String> = vec![];
            let mut e0: Vec<String> = vec![];
            for e in err.errors.iter() {
                if e.code.starts_with("E1") { e1.push(e.code.clone()) } else { e0.push(e.code.clone()) }
            }
            e1.sort();
            e0.sort();
            e0.dedup();
            // a rule reports at most one error: duplicates would be a behaviour change, keep them visible
            json!({ "codes": e1, "e0": e0 })
        }
    }
}

fn exec(case: &Value) -> Value {
    let kind = case["k"].as_str().unwrap_or("doc");
    if kind == "raw" {
        // debugging aid: problem/matrix JSON given literally
        let p = case["problem"].to_string();
        let ms = arr(&case["matrices"]).iter().map(|m| m.to_string()).collect::<Vec<_>>();
        return if case["entry"].as_str() == Some("approx") { codes_of(p.read_pragmatic()) } else { codes_of((p, ms).read_pragmatic()) };
    }
    let (problem, matrices) = render(&case["doc"]);
    match case["entry"].as_str().unwrap_or("str") {
        "typed" => codes_of((problem, matrices).read_pragmatic()),
        "approx" => {
            let p = serde_json::to_string(&problem).expect("serialise problem");
            codes_of(p.read_pragmatic())
        }
        _ => {
            let p = serde_json::to_string(&problem).expect("serialise problem");
            let ms = matrices.iter().map(|m| serde_json::to_string(m).expect("serialise matrix")).collect::<Vec<_>>();
            codes_of((p, ms).read_pragmatic())
        }
    }
}

fn gen_cases(_rng: &mut Rng, _tier: Tier) -> Vec<Value> {
    vec![]
}

fn main() {
    run_main(gen_cases, exec);
}
