//! C10 — problem validation is total and matches its documented rules.
//!
//! A case carries a *simplified document* (`doc`): ids, tasks, shifts, relations, profiles, matrix
//! sizes and the objective tree; times are integer seconds (or the token `"bad"` for a malformed
//! timestamp). `exec` renders the document into the repository's own serde structs
//! (`vrp_pragmatic::format::problem::*`), serialises them to JSON and calls the real
//! `PragmaticProblem::read_pragmatic` (string entry, typed entry, or the approximation entry without
//! matrices). The Lean driver parses the same simplified document.

use serde_json::{Value, json};
use vrp_pragmatic::format::problem::*;
use vrp_pragmatic::format::{Location, MultiFormatError};
use vrp_verif_harness::*;

// ------------------------------------------------------------------------------------------------
// rendering: simplified document -> repository structs

/// RFC 3339 (UTC, `Z`) text of a unix timestamp; civil-from-days (proleptic Gregorian).
pub fn rfc3339(secs: i64) -> String {
    let days = secs.div_euclid(86_400);
    let rem = secs.rem_euclid(86_400);
    let z = days + 719_468;
    let era = z.div_euclid(146_097);
    let doe = z.rem_euclid(146_097);
    let yoe = (doe - doe / 1_460 + doe / 36_524 - doe / 146_096) / 365;
    let y = yoe + era * 400;
    let doy = doe - (365 * yoe + yoe / 4 - yoe / 100);
    let mp = (5 * doy + 2) / 153;
    let d = doy - (153 * mp + 2) / 5 + 1;
    let m = if mp < 10 { mp + 3 } else { mp - 9 };
    let y = if m <= 2 { y + 1 } else { y };
    format!("{:04}-{:02}-{:02}T{:02}:{:02}:{:02}Z", y, m, d, rem / 3600, (rem % 3600) / 60, rem % 60)
}

const BAD_TIME: &str = "not-a-date";

/// time token: integer seconds, or anything else (`"bad"`) = malformed text
fn tm(v: &Value) -> String {
    match v.as_i64() {
        Some(s) => rfc3339(s),
        None => BAD_TIME.to_string(),
    }
}

fn opt_tm(v: &Value) -> Option<String> {
    if v.is_null() { None } else { Some(tm(v)) }
}

fn s(v: &Value) -> String {
    v.as_str().unwrap_or("").to_string()
}

fn opt_s(v: &Value) -> Option<String> {
    v.as_str().map(|x| x.to_string())
}

fn f(v: &Value) -> f64 {
    v.as_i64().expect("integer expected") as f64
}

fn opt_f(v: &Value) -> Option<f64> {
    v.as_i64().map(|x| x as f64)
}

fn arr(v: &Value) -> &[Value] {
    v.as_array().map(|a| a.as_slice()).unwrap_or(&[])
}

fn ints(v: &Value) -> Vec<i32> {
    arr(v).iter().map(|x| x.as_i64().expect("integer expected") as i32).collect()
}

fn loc(v: &Value) -> Location {
    if let Some(i) = v.get("i") {
        Location::Reference { index: i.as_u64().expect("index") as usize }
    } else {
        let c = arr(&v["c"]);
        Location::Coordinate { lat: f(&c[0]), lng: f(&c[1]) }
    }
}

fn times(v: &Value) -> Option<Vec<Vec<String>>> {
    if v.is_null() { None } else { Some(arr(v).iter().map(|tw| arr(tw).iter().map(tm).collect()).collect()) }
}

fn place(v: &Value) -> JobPlace {
    JobPlace { location: loc(&v["loc"]), duration: f(&v["dur"]), times: times(&v["times"]), tag: opt_s(&v["tag"]) }
}

fn task(v: &Value) -> JobTask {
    JobTask {
        places: arr(&v["places"]).iter().map(place).collect(),
        demand: if v["demand"].is_null() { None } else { Some(ints(&v["demand"])) },
        order: v["order"].as_i64().map(|x| x as i32),
    }
}

fn tasks(v: &Value) -> Option<Vec<JobTask>> {
    if v.is_null() { None } else { Some(arr(v).iter().map(task).collect()) }
}

fn job(v: &Value) -> Job {
    Job {
        id: s(&v["id"]),
        pickups: tasks(&v["p"]),
        deliveries: tasks(&v["d"]),
        replacements: tasks(&v["r"]),
        services: tasks(&v["s"]),
        skills: if v["skills"].as_bool().unwrap_or(false) {
            Some(JobSkills { all_of: Some(vec!["sk1".to_string()]), one_of: None, none_of: Some(vec!["sk9".to_string()]) })
        } else {
            None
        },
        // value is carried in halves so that 0.5 is representable
        value: v["value2"].as_i64().map(|x| x as f64 / 2.),
        group: opt_s(&v["group"]),
        compatibility: opt_s(&v["compat"]),
    }
}

fn relation(v: &Value) -> Relation {
    Relation {
        type_field: match v["type"].as_str().unwrap_or("any") {
            "strict" => RelationType::Strict,
            "sequence" => RelationType::Sequence,
            _ => RelationType::Any,
        },
        jobs: arr(&v["jobs"]).iter().map(s).collect(),
        vehicle_id: s(&v["vehicle"]),
        shift_index: v["shift"].as_u64().map(|x| x as usize),
    }
}

fn break_places(v: &Value) -> Vec<VehicleOptionalBreakPlace> {
    arr(v)
        .iter()
        .map(|p| VehicleOptionalBreakPlace {
            duration: f(&p["dur"]),
            location: if p["loc"].is_null() { None } else { Some(loc(&p["loc"])) },
            tag: opt_s(&p["tag"]),
        })
        .collect()
}

fn policy(v: &Value) -> Option<VehicleOptionalBreakPolicy> {
    match v.as_str() {
        Some("skip-if-arrival-before-end") => Some(VehicleOptionalBreakPolicy::SkipIfArrivalBeforeEnd),
        Some(_) => Some(VehicleOptionalBreakPolicy::SkipIfNoIntersection),
        None => None,
    }
}

fn vbreak(v: &Value) -> VehicleBreak {
    match v["kind"].as_str().unwrap_or("") {
        "otw" => VehicleBreak::Optional {
            time: VehicleOptionalBreakTime::TimeWindow(arr(&v["tw"]).iter().map(tm).collect()),
            places: break_places(&v["places"]),
            policy: policy(&v["policy"]),
        },
        "ooff" => VehicleBreak::Optional {
            time: VehicleOptionalBreakTime::TimeOffset(arr(&v["off"]).iter().map(f).collect()),
            places: break_places(&v["places"]),
            policy: policy(&v["policy"]),
        },
        "rex" => VehicleBreak::Required {
            time: VehicleRequiredBreakTime::ExactTime { earliest: tm(&v["e"]), latest: tm(&v["l"]) },
            duration: f(&v["dur"]),
        },
        _ => VehicleBreak::Required {
            time: VehicleRequiredBreakTime::OffsetTime { earliest: f(&v["e"]), latest: f(&v["l"]) },
            duration: f(&v["dur"]),
        },
    }
}

fn reload(v: &Value) -> VehicleReload {
    VehicleReload {
        location: loc(&v["loc"]),
        duration: f(&v["dur"]),
        times: times(&v["times"]),
        tag: opt_s(&v["tag"]),
        resource_id: opt_s(&v["res"]),
    }
}

fn shift(v: &Value) -> VehicleShift {
    let st = &v["start"];
    VehicleShift {
        start: ShiftStart { earliest: tm(&st["e"]), latest: opt_tm(&st["l"]), location: loc(&st["loc"]) },
        end: if v["end"].is_null() {
            None
        } else {
            let e = &v["end"];
            Some(ShiftEnd { earliest: opt_tm(&e["e"]), latest: tm(&e["l"]), location: loc(&e["loc"]) })
        },
        breaks: if v["breaks"].is_null() { None } else { Some(arr(&v["breaks"]).iter().map(vbreak).collect()) },
        reloads: if v["reloads"].is_null() { None } else { Some(arr(&v["reloads"]).iter().map(reload).collect()) },
        recharges: if v["recharges"].is_null() {
            None
        } else {
            let r = &v["recharges"];
            Some(VehicleRecharges { max_distance: f(&r["maxd"]), stations: arr(&r["stations"]).iter().map(place).collect() })
        },
    }
}

fn vehicle(v: &Value) -> VehicleType {
    VehicleType {
        type_id: s(&v["type"]),
        vehicle_ids: arr(&v["ids"]).iter().map(s).collect(),
        profile: VehicleProfile { matrix: s(&v["profile"]), scale: opt_f(&v["scale"]) },
        costs: VehicleCosts { fixed: opt_f(&v["fixed"]), distance: f(&v["cdist"]), time: f(&v["ctime"]) },
        shifts: arr(&v["shifts"]).iter().map(shift).collect(),
        capacity: ints(&v["cap"]),
        skills: if v["skills"].as_bool().unwrap_or(false) { Some(vec!["sk1".to_string(), "sk2".to_string()]) } else { None },
        limits: if v["limits"].is_null() {
            None
        } else {
            let l = &v["limits"];
            Some(VehicleLimits {
                max_distance: opt_f(&l["dist"]),
                max_duration: opt_f(&l["dur"]),
                tour_size: l["size"].as_u64().map(|x| x as usize),
            })
        },
    }
}

fn objective(v: &Value) -> Objective {
    match v["t"].as_str().unwrap_or("") {
        "minimize-cost" => Objective::MinimizeCost,
        "minimize-distance" => Objective::MinimizeDistance,
        "minimize-duration" => Objective::MinimizeDuration,
        "minimize-tours" => Objective::MinimizeTours,
        "maximize-tours" => Objective::MaximizeTours,
        "maximize-value" => Objective::MaximizeValue { breaks: opt_f(&v["breaks"]) },
        "minimize-unassigned" => Objective::MinimizeUnassigned { breaks: opt_f(&v["breaks"]) },
        "minimize-arrival-time" => Objective::MinimizeArrivalTime,
        "balance-max-load" => Objective::BalanceMaxLoad,
        "balance-activities" => Objective::BalanceActivities,
        "balance-distance" => Objective::BalanceDistance,
        "balance-duration" => Objective::BalanceDuration,
        "compact-tour" => Objective::CompactTour { job_radius: v["radius"].as_u64().unwrap_or(2) as usize },
        "tour-order" => Objective::TourOrder,
        "fast-service" => Objective::FastService,
        "hierarchical-areas" => Objective::HierarchicalAreas { levels: v["levels"].as_u64().unwrap_or(1) as usize },
        _ => Objective::MultiObjective {
            strategy: if v["w"].is_null() {
                MultiStrategy::Sum
            } else {
                MultiStrategy::WeightedSum { weights: arr(&v["w"]).iter().map(f).collect() }
            },
            objectives: arr(&v["os"]).iter().map(objective).collect(),
        },
    }
}

fn matrix(v: &Value) -> Matrix {
    let fill = |n: u64| {
        let m = ((n as f64).sqrt().round() as u64).max(1);
        (0..n).map(|i| if i / m == i % m { 0 } else { 10 + ((i / m) * 3 + i % m) as i64 % 7 }).collect::<Vec<_>>()
    };
    Matrix {
        profile: opt_s(&v["profile"]),
        timestamp: opt_tm(&v["ts"]),
        travel_times: fill(v["tt"].as_u64().unwrap_or(0)),
        distances: fill(v["dist"].as_u64().unwrap_or(0)),
        error_codes: None,
    }
}

pub fn render(doc: &Value) -> (Problem, Vec<Matrix>) {
    let problem = Problem {
        plan: Plan {
            jobs: arr(&doc["jobs"]).iter().map(job).collect(),
            relations: if doc["relations"].is_null() { None } else { Some(arr(&doc["relations"]).iter().map(relation).collect()) },
            clustering: doc["clustering"].as_str().map(|p| Clustering::Vicinity {
                profile: VehicleProfile { matrix: p.to_string(), scale: None },
                threshold: VicinityThresholdPolicy {
                    duration: 120.,
                    distance: 100.,
                    min_shared_time: None,
                    smallest_time_window: None,
                    max_jobs_per_cluster: None,
                },
                visiting: VicinityVisitPolicy::Continue,
                serving: VicinityServingPolicy::Original { parking: 0. },
                filtering: None,
            }),
        },
        fleet: Fleet {
            vehicles: arr(&doc["vehicles"]).iter().map(vehicle).collect(),
            profiles: arr(&doc["profiles"]).iter().map(|p| MatrixProfile { name: s(&p["name"]), speed: opt_f(&p["speed"]) }).collect(),
            resources: if doc["resources"].is_null() {
                None
            } else {
                Some(arr(&doc["resources"]).iter().map(|r| VehicleResource::Reload { id: s(&r["id"]), capacity: ints(&r["cap"]) }).collect())
            },
        },
        objectives: if doc["objectives"].is_null() { None } else { Some(arr(&doc["objectives"]).iter().map(objective).collect()) },
    };
    let matrices = arr(&doc["matrices"]).iter().map(matrix).collect();
    (problem, matrices)
}

// ------------------------------------------------------------------------------------------------
// execution on the real code

fn codes_of<T>(res: Result<T, MultiFormatError>) -> Value {
    match res {
        Ok(_) => json!({ "codes": [], "e0": [] }),
        Err(err) => {
            let mut e1: Vec<String> = vec![];
            let mut e0: Vec<String> = vec![];
            for e in err.errors.iter() {
                if e.code.starts_with("E1") { e1.push(e.code.clone()) } else { e0.push(e.code.clone()) }
            }
            e1.sort();
            e0.sort();
            e0.dedup();
            // a rule reports at most one error: duplicates would be a behaviour change, keep them visible
            json!({ "codes": e1, "e0": e0 })
        }
    }
}

fn exec(case: &Value) -> Value {
    if std::env::var("C10_LOUD").is_ok() {
        // debugging aid: print where a panic of the real code comes from
        std::panic::set_hook(Box::new(|info| eprintln!("PANIC at {:?}: {}", info.location(), info)));
    }
    let kind = case["k"].as_str().unwrap_or("doc");
    if kind == "raw" {
        // debugging aid: problem/matrix JSON given literally
        let p = case["problem"].to_string();
        let ms = arr(&case["matrices"]).iter().map(|m| m.to_string()).collect::<Vec<_>>();
        return if case["entry"].as_str() == Some("approx") { codes_of(p.read_pragmatic()) } else { codes_of((p, ms).read_pragmatic()) };
    }
    let (problem, matrices) = render(&case["doc"]);
    match case["entry"].as_str().unwrap_or("str") {
        "typed" => codes_of((problem, matrices).read_pragmatic()),
        "approx" => {
            let p = serde_json::to_string(&problem).expect("serialise problem");
            codes_of(p.read_pragmatic())
        }
        _ => {
            let p = serde_json::to_string(&problem).expect("serialise problem");
            let ms = matrices.iter().map(|m| serde_json::to_string(m).expect("serialise matrix")).collect::<Vec<_>>();
            codes_of((p, ms).read_pragmatic())
        }
    }
}

// ------------------------------------------------------------------------------------------------
// generator: mostly valid documents with many optional sections, then targeted rule-breaking
// mutations (every rule reachable) and a malformed-value stream for totality

const DAY: i64 = 86_400;
const HOUR: i64 = 3_600;
const T0: i64 = 1_562_198_400; // 2019-07-04T00:00:00Z
const SLOTS: [(i64, i64); 3] = [(10, 11), (12, 13), (14, 15)];
const COST_KINDS: [&str; 3] = ["minimize-cost", "minimize-distance", "minimize-duration"];
const EXTRA_KINDS: [&str; 9] = [
    "balance-max-load",
    "balance-activities",
    "balance-distance",
    "balance-duration",
    "minimize-arrival-time",
    "fast-service",
    "compact-tour",
    "maximize-tours",
    "minimize-tours",
];

fn gloc(coords: bool, i: usize) -> Value {
    if coords { json!({"c": [52 + i as i64, 13 + (i as i64 % 3)]}) } else { json!({"i": i}) }
}

fn gen_times(rng: &mut Rng, day: i64) -> Value {
    match rng.below(10) {
        0..=4 => Value::Null,
        5..=6 => json!([[day + 9 * HOUR, day + 17 * HOUR]]),
        7..=8 => json!([[day + 9 * HOUR, day + 11 * HOUR], [day + 13 * HOUR, day + 15 * HOUR]]),
        _ => json!([[day + 15 * HOUR, day + 16 * HOUR], [day + 9 * HOUR, day + 10 * HOUR], [day + 12 * HOUR, day + 13 * HOUR]]),
    }
}

fn gen_place(rng: &mut Rng, coords: bool, nloc: usize, simple: bool) -> Value {
    json!({
        "loc": gloc(coords, rng.usize(0, nloc - 1)),
        "dur": rng.range(0, 600),
        "times": if simple { if rng.chance(1, 2) { Value::Null } else { json!([[T0 + 9 * HOUR, T0 + 17 * HOUR]]) } } else { gen_times(rng, T0) },
        "tag": if rng.chance(1, 4) { json!(format!("tag{}", rng.below(3))) } else { Value::Null },
    })
}

fn gen_task(rng: &mut Rng, coords: bool, nloc: usize, demand: Option<Vec<i64>>, order: bool, simple: bool) -> Value {
    let nplaces = if simple || rng.chance(3, 4) { 1 } else { 2 };
    json!({
        "places": (0..nplaces).map(|_| gen_place(rng, coords, nloc, simple)).collect::<Vec<_>>(),
        "demand": demand,
        "order": if order && rng.chance(1, 2) { json!(rng.range(1, 3)) } else { Value::Null },
    })
}

fn gen_shift(rng: &mut Rng, coords: bool, nloc: usize, k: i64, multi_shift: bool, has_resources: bool) -> Value {
    let day = T0 + k * DAY;
    let e = day + 8 * HOUR;
    let depot = rng.usize(0, nloc - 1);
    let mut breaks = Value::Null;
    let mut uses_offset = false;
    if rng.chance(1, 3) {
        let n = rng.usize(0, 2);
        let mut slots = SLOTS.to_vec();
        rng.shuffle(&mut slots);
        let mut list = vec![];
        for (a, b) in slots.into_iter().take(n) {
            let places = json!([{"dur": 600, "loc": if rng.chance(1, 2) { Value::Null } else { gloc(coords, rng.usize(0, nloc - 1)) },
                                  "tag": if rng.chance(1, 4) { json!("brk") } else { Value::Null }}]);
            let policy = match rng.below(3) {
                0 => Value::Null,
                1 => json!("skip-if-no-intersection"),
                _ => json!("skip-if-arrival-before-end"),
            };
            list.push(match rng.below(4) {
                0 => json!({"kind": "otw", "tw": [day + a * HOUR, day + b * HOUR], "places": places, "policy": policy}),
                1 => {
                    uses_offset = true;
                    json!({"kind": "ooff", "off": [(a - 8) * HOUR, (b - 8) * HOUR], "places": places, "policy": policy})
                }
                2 => json!({"kind": "rex", "e": day + a * HOUR, "l": day + a * HOUR + 1800, "dur": 600}),
                _ => {
                    uses_offset = true;
                    json!({"kind": "roff", "e": (a - 8) * HOUR, "l": (a - 8) * HOUR + 1800, "dur": 600})
                }
            });
        }
        breaks = json!(list);
    }
    let latest = if uses_offset {
        json!(e)
    } else {
        match rng.below(3) {
            0 => Value::Null,
            1 => json!(e),
            _ => json!(e + HOUR),
        }
    };
    let end = if !multi_shift && rng.chance(1, 5) {
        Value::Null
    } else {
        json!({"e": if rng.chance(1, 6) { json!(day + 16 * HOUR) } else { Value::Null }, "l": day + 18 * HOUR,
               "loc": gloc(coords, if rng.chance(2, 3) { depot } else { rng.usize(0, nloc - 1) })})
    };
    let reloads = if rng.chance(1, 3) {
        let n = rng.usize(0, 2);
        json!((0..n)
            .map(|i| json!({"loc": gloc(coords, rng.usize(0, nloc - 1)), "dur": 300,
                "times": if rng.chance(1, 2) { Value::Null } else { json!([[day + 9 * HOUR, day + 17 * HOUR]]) },
                "tag": if rng.chance(1, 3) { json!(format!("rl{i}")) } else { Value::Null },
                "res": if has_resources && rng.chance(1, 2) { json!("res1") } else { Value::Null }}))
            .collect::<Vec<_>>())
    } else {
        Value::Null
    };
    let recharges = if rng.chance(1, 6) {
        let n = rng.usize(1, 2);
        json!({"maxd": 50_000, "stations": (0..n).map(|_| json!({"loc": gloc(coords, rng.usize(0, nloc - 1)), "dur": 600,
            "times": if rng.chance(1, 2) { Value::Null } else { json!([[day + 9 * HOUR, day + 17 * HOUR]]) }, "tag": Value::Null})).collect::<Vec<_>>()})
    } else {
        Value::Null
    };
    json!({"start": {"e": e, "l": latest, "loc": gloc(coords, depot)}, "end": end, "breaks": breaks, "reloads": reloads, "recharges": recharges})
}

/// matrix dimension a document needs (largest index + 1, number of distinct locations, at least 1)
fn required_size(doc: &Value) -> u64 {
    let mut locs: Vec<String> = vec![];
    let mut max_idx = 0u64;
    fn walk(v: &Value, locs: &mut Vec<String>, max_idx: &mut u64) {
        match v {
            Value::Object(m) => {
                for (k, x) in m.iter() {
                    if k == "loc" && !x.is_null() {
                        let key = x.to_string();
                        if !locs.contains(&key) {
                            locs.push(key);
                        }
                        if let Some(i) = x.get("i").and_then(|i| i.as_u64()) {
                            *max_idx = (*max_idx).max(i + 1);
                        }
                    } else {
                        walk(x, locs, max_idx);
                    }
                }
            }
            Value::Array(a) => a.iter().for_each(|x| walk(x, locs, max_idx)),
            _ => {}
        }
    }
    walk(&doc["jobs"], &mut locs, &mut max_idx);
    walk(&doc["vehicles"], &mut locs, &mut max_idx);
    max_idx.max(locs.len() as u64).max(1)
}

fn set_matrices(doc: &mut Value, rng: &mut Rng) {
    let n = required_size(doc);
    let names: Vec<String> = arr(&doc["profiles"]).iter().map(|p| s(&p["name"])).collect();
    let style = rng.below(20);
    let mut ms = vec![];
    for name in names.iter() {
        match style {
            0 | 1 => ms.push(json!({"profile": Value::Null, "ts": Value::Null, "tt": n * n, "dist": n * n})),
            2 => {
                ms.push(json!({"profile": name, "ts": T0, "tt": n * n, "dist": n * n}));
                ms.push(json!({"profile": name, "ts": T0 + 6 * HOUR, "tt": n * n, "dist": n * n}));
            }
            _ => ms.push(json!({"profile": name, "ts": Value::Null, "tt": n * n, "dist": n * n})),
        }
    }
    doc["matrices"] = json!(ms);
}

fn gen_objectives(rng: &mut Rng, has_value: bool, has_order: bool) -> Value {
    let mut os: Vec<Value> = vec![json!({"t": "minimize-unassigned", "breaks": if rng.chance(1, 3) { json!(1) } else { Value::Null }})];
    if has_value {
        os.insert(0, json!({"t": "maximize-value", "breaks": Value::Null}));
    }
    if has_order && rng.chance(2, 3) {
        os.push(json!({"t": "tour-order"}));
    }
    let mut extras = EXTRA_KINDS.to_vec();
    rng.shuffle(&mut extras);
    for k in extras.into_iter().take(rng.usize(0, 2)) {
        os.push(match k {
            "compact-tour" => json!({"t": k, "radius": rng.usize(1, 3)}),
            _ => json!({"t": k}),
        });
    }
    os.push(json!({"t": *rng.pick(&COST_KINDS)}));
    // sometimes nest two neighbours into one multi-objective
    if os.len() >= 2 && rng.chance(1, 3) {
        let i = rng.usize(0, os.len() - 2);
        let a = os.remove(i);
        let b = os.remove(i);
        let w = if rng.chance(1, 2) { Value::Null } else { json!([1, 2]) };
        os.insert(i, json!({"t": "multi-objective", "os": [a, b], "w": w}));
    }
    json!(os)
}

struct Gen {
    doc: Value,
    entry: &'static str,
}

fn gen_valid(rng: &mut Rng) -> Gen {
    let coords = rng.chance(1, 5);
    let nloc = rng.usize(3, 7);
    let dims = if rng.chance(1, 4) { 2 } else { 1 };
    let has_objectives = rng.chance(3, 5);
    let has_value = rng.chance(1, 4);
    let has_order = rng.chance(1, 4);
    let nprof = rng.usize(1, 2);
    let profiles: Vec<Value> = ["car", "truck"][..nprof]
        .iter()
        .map(|n| json!({"name": n, "speed": if rng.chance(1, 4) { json!(rng.range(5, 20)) } else { Value::Null }}))
        .collect();
    let has_resources = rng.chance(1, 4);
    let resources = if has_resources {
        let mut r = vec![json!({"id": "res1", "cap": vec![20; dims]})];
        if rng.chance(1, 2) {
            r.push(json!({"id": "res2", "cap": vec![30; dims]}));
        }
        json!(r)
    } else {
        Value::Null
    };

    let mut vehicles = vec![];
    let mut next_id = 1;
    for t in 0..rng.usize(1, 3) {
        let ids: Vec<String> = (0..rng.usize(1, 2))
            .map(|_| {
                next_id += 1;
                format!("v{}", next_id - 1)
            })
            .collect();
        let nshifts = if rng.chance(1, 4) { 2 } else { 1 };
        let shifts: Vec<Value> = (0..nshifts).map(|k| gen_shift(rng, coords, nloc, k, nshifts > 1, has_resources)).collect();
        let zero_one = rng.below(6);
        let vprofile = ["car", "truck"][rng.usize(0, nprof - 1)];
        vehicles.push(json!({
            "type": format!("type{}", t + 1), "ids": ids, "profile": vprofile,
            "scale": if rng.chance(1, 6) { json!(2) } else { Value::Null },
            "fixed": if rng.chance(1, 2) { json!(rng.range(0, 100)) } else { Value::Null },
            "cdist": if zero_one == 0 { 0 } else { rng.range(1, 3) }, "ctime": if zero_one == 1 { 0 } else { rng.range(1, 3) },
            "shifts": shifts, "cap": (0..dims).map(|_| rng.range(5, 20)).collect::<Vec<_>>(), "skills": rng.chance(1, 4),
            "limits": if rng.chance(1, 4) { json!({"dist": if rng.chance(1, 2) { json!(100_000) } else { Value::Null },
                "dur": if rng.chance(1, 2) { json!(40_000) } else { Value::Null }, "size": if rng.chance(1, 2) { json!(rng.range(3, 9)) } else { Value::Null }}) } else { Value::Null },
        }));
    }

    let mut jobs = vec![];
    let njobs = rng.usize(2, 6);
    for i in 0..njobs {
        let dem = |rng: &mut Rng| (0..dims).map(|_| rng.range(0, 3)).collect::<Vec<i64>>();
        // the first two jobs are simple (one place, at most one window) so that relations can name them
        let simple = i < 2 || rng.chance(1, 3);
        let mut j = json!({"id": format!("job{}", i + 1), "p": Value::Null, "d": Value::Null, "r": Value::Null, "s": Value::Null,
            "value2": if has_value && (i == 0 || rng.chance(1, 2)) { json!(rng.range(2, 20)) } else { Value::Null },
            "skills": rng.chance(1, 6),
            "group": if rng.chance(1, 8) { json!("g1") } else { Value::Null },
            "compat": if rng.chance(1, 8) { json!("c1") } else { Value::Null }});
        let order = has_order;
        match rng.below(8) {
            0 | 1 => {
                let x = dem(rng);
                j["d"] = json!([gen_task(rng, coords, nloc, Some(x), order, simple)]);
            }
            2 => {
                let x = dem(rng);
                j["p"] = json!([gen_task(rng, coords, nloc, Some(x), order, simple)]);
            }
            3 => {
                let x = dem(rng);
                j["p"] = json!([gen_task(rng, coords, nloc, Some(x.clone()), order, simple)]);
                j["d"] = json!([gen_task(rng, coords, nloc, Some(x), order, simple)]);
            }
            4 => {
                let a = dem(rng);
                let b = dem(rng);
                let sum: Vec<i64> = a.iter().zip(b.iter()).map(|(x, y)| x + y).collect();
                j["p"] = json!([gen_task(rng, coords, nloc, Some(a), order, simple), gen_task(rng, coords, nloc, Some(b), order, simple)]);
                j["d"] = json!([gen_task(rng, coords, nloc, Some(sum), order, simple)]);
            }
            5 => j["s"] = json!([gen_task(rng, coords, nloc, None, order, simple)]),
            6 => {
                let x = dem(rng);
                j["r"] = json!([gen_task(rng, coords, nloc, Some(x), order, simple)]);
            }
            _ => {
                // unusual but valid layouts: empty list next to a filled one, two deliveries
                j["p"] = json!([]);
                let (x, y) = (dem(rng), dem(rng));
                j["d"] = json!([gen_task(rng, coords, nloc, Some(x), order, simple), gen_task(rng, coords, nloc, Some(y), order, simple)]);
            }
        }
        jobs.push(j);
    }
    if has_order && !jobs.iter().any(|j| has_positive_order(j)) {
        let key = ["p", "d", "r", "s"].into_iter().find(|k| !arr(&jobs[0][*k]).is_empty()).unwrap();
        jobs[0][key][0]["order"] = json!(1);
    }

    let mut doc = json!({"jobs": jobs, "relations": Value::Null, "clustering": if rng.chance(1, 12) { json!("car") } else { Value::Null },
        "vehicles": vehicles, "profiles": profiles, "resources": resources,
        "objectives": if has_objectives { gen_objectives(rng, has_value, has_order) } else { Value::Null }, "matrices": []});

    if rng.chance(2, 5) {
        gen_relations(&mut doc, rng);
    }
    let entry = if coords && rng.chance(1, 2) {
        "approx"
    } else if rng.chance(1, 3) {
        "typed"
    } else {
        "str"
    };
    if entry != "approx" {
        set_matrices(&mut doc, rng);
    }
    Gen { doc, entry }
}

fn has_positive_order(j: &Value) -> bool {
    ["p", "d", "r", "s"].iter().any(|k| arr(&j[*k]).iter().any(|t| t["order"].as_i64().is_some_and(|o| o > 0)))
}

fn task_count(j: &Value) -> usize {
    ["p", "d", "r", "s"].iter().map(|k| arr(&j[*k]).len()).sum()
}

fn is_simple_job(j: &Value) -> bool {
    ["p", "d", "r", "s"].iter().all(|k| {
        arr(&j[*k]).iter().all(|t| arr(&t["places"]).len() == 1 && arr(&t["places"]).iter().all(|p| arr(&p["times"]).len() <= 1))
    })
}

/// (vehicle id, number of shifts, shifts) of every vehicle id
fn vehicle_ids(doc: &Value) -> Vec<(String, Vec<Value>)> {
    arr(&doc["vehicles"]).iter().flat_map(|v| arr(&v["ids"]).iter().map(|id| (s(id), arr(&v["shifts"]).to_vec())).collect::<Vec<_>>()).collect()
}

fn optional_breaks(shift: &Value) -> usize {
    arr(&shift["breaks"]).iter().filter(|b| matches!(b["kind"].as_str(), Some("otw") | Some("ooff"))).count()
}

fn gen_relations(doc: &mut Value, rng: &mut Rng) {
    let mut vids = vehicle_ids(doc);
    rng.shuffle(&mut vids);
    let mut pool: Vec<(String, usize)> = arr(&doc["jobs"]).iter().filter(|j| is_simple_job(j)).map(|j| (s(&j["id"]), task_count(j))).collect();
    rng.shuffle(&mut pool);
    let mut rels = vec![];
    for (vid, shifts) in vids.into_iter().take(rng.usize(1, 2)) {
        if pool.is_empty() || shifts.is_empty() {
            break;
        }
        let sidx = rng.usize(0, shifts.len() - 1);
        let shift = &shifts[sidx];
        let mut jobs: Vec<String> = vec![];
        for _ in 0..rng.usize(1, 2) {
            if let Some((id, n)) = pool.pop() {
                for _ in 0..n {
                    jobs.push(id.clone());
                }
            }
        }
        for _ in 0..rng.usize(0, optional_breaks(shift)) {
            let at = rng.usize(0, jobs.len());
            jobs.insert(at, "break".to_string());
        }
        for _ in 0..rng.usize(0, arr(&shift["reloads"]).len()) {
            let at = rng.usize(0, jobs.len());
            jobs.insert(at, "reload".to_string());
        }
        if rng.chance(1, 3) {
            jobs.insert(0, "departure".to_string());
        }
        if !shift["end"].is_null() && rng.chance(1, 3) {
            jobs.push("arrival".to_string());
        }
        rels.push(json!({"type": *rng.pick(&["any", "sequence", "strict"]), "jobs": jobs, "vehicle": vid,
            "shift": if sidx == 0 && rng.chance(1, 2) { Value::Null } else { json!(sidx) }}));
    }
    doc["relations"] = json!(rels);
}

// ---- targeted mutations -------------------------------------------------------------------------

fn task_keys() -> [&'static str; 4] {
    ["p", "d", "r", "s"]
}

/// (job index, list key, task index) of all tasks
fn all_tasks(doc: &Value) -> Vec<(usize, &'static str, usize)> {
    let mut out = vec![];
    for (ji, j) in arr(&doc["jobs"]).iter().enumerate() {
        for k in task_keys() {
            for ti in 0..arr(&j[k]).len() {
                out.push((ji, k, ti));
            }
        }
    }
    out
}

fn pick_task(doc: &Value, rng: &mut Rng, pred: impl Fn(&Value, &str) -> bool) -> Option<(usize, &'static str, usize)> {
    let c: Vec<_> = all_tasks(doc).into_iter().filter(|(j, k, t)| pred(&doc["jobs"][*j][*k][*t], k)).collect();
    if c.is_empty() { None } else { Some(*rng.pick(&c)) }
}

/// (vehicle index, shift index) of all shifts
fn all_shifts(doc: &Value) -> Vec<(usize, usize)> {
    arr(&doc["vehicles"]).iter().enumerate().flat_map(|(vi, v)| (0..arr(&v["shifts"]).len()).map(move |si| (vi, si))).collect()
}

fn ensure_relation(doc: &mut Value, rng: &mut Rng) -> Option<usize> {
    if arr(&doc["relations"]).is_empty() {
        let vids = vehicle_ids(doc);
        let (vid, shifts) = vids.into_iter().find(|(_, sh)| !sh.is_empty())?;
        let _ = shifts;
        let job = arr(&doc["jobs"]).iter().find(|j| is_simple_job(j) && task_count(j) > 0)?;
        let jobs: Vec<String> = (0..task_count(job)).map(|_| s(&job["id"])).collect();
        doc["relations"] = json!([{"type": *rng.pick(&["any", "sequence", "strict"]), "jobs": jobs, "vehicle": vid, "shift": Value::Null}]);
    }
    Some(rng.usize(0, arr(&doc["relations"]).len() - 1))
}

fn rel_shift<'a>(doc: &'a Value, rel: &Value) -> Option<&'a Value> {
    let vid = s(&rel["vehicle"]);
    let v = arr(&doc["vehicles"]).iter().rev().find(|v| arr(&v["ids"]).iter().any(|i| s(i) == vid))?;
    arr(&v["shifts"]).get(rel["shift"].as_u64().unwrap_or(0) as usize)
}

fn ensure_objectives(doc: &mut Value, rng: &mut Rng) {
    if doc["objectives"].is_null() {
        let has_value = arr(&doc["jobs"]).iter().any(|j| j["value2"].as_i64().is_some_and(|v| v > 0));
        doc["objectives"] = gen_objectives(rng, has_value, false);
        // keep E1605 quiet unless asked for
        for j in doc["jobs"].as_array_mut().unwrap().iter_mut() {
            if j["value2"].as_i64().is_some_and(|v| v < 2) {
                j["value2"] = json!(2);
            }
        }
    }
}

/// appends an objective at top level or inside a (possibly new) multi-objective
fn push_objective(doc: &mut Value, rng: &mut Rng, o: Value) -> &'static str {
    let os = doc["objectives"].as_array_mut().unwrap();
    let multi: Vec<usize> = os.iter().enumerate().filter(|(_, x)| x["t"] == "multi-objective").map(|(i, _)| i).collect();
    if !multi.is_empty() && rng.chance(1, 2) {
        let i = *rng.pick(&multi);
        os[i]["os"].as_array_mut().unwrap().push(o);
        os[i]["w"] = Value::Null;
        "nested"
    } else if rng.chance(1, 3) {
        os.push(json!({"t": "multi-objective", "os": [o, {"t": "minimize-tours-x"}], "w": Value::Null}));
        // the placeholder kind is replaced by a harmless distinct one below
        let last = os.len() - 1;
        os[last]["os"][1] = json!({"t": "hierarchical-areas", "levels": 1});
        "new-multi"
    } else {
        let at = rng.usize(0, os.len());
        os.insert(at, o);
        "top"
    }
}

fn flat_kinds(doc: &Value) -> Vec<String> {
    arr(&doc["objectives"]).iter().flat_map(|o| if o["t"] == "multi-objective" { arr(&o["os"]).iter().map(|x| s(&x["t"])).collect() } else { vec![s(&o["t"])] }).collect()
}

fn remove_kind(doc: &mut Value, pred: impl Fn(&str) -> bool) {
    if let Some(os) = doc["objectives"].as_array_mut() {
        os.retain(|o| !pred(o["t"].as_str().unwrap_or("")));
        for o in os.iter_mut() {
            if o["t"] == "multi-objective" {
                o["os"].as_array_mut().unwrap().retain(|x| !pred(x["t"].as_str().unwrap_or("")));
                o["w"] = Value::Null;
            }
        }
    }
}

const N_MUTATIONS: u64 = 64;

/// applies the targeted mutation number `m`; returns its label when it was applicable
fn mutate(doc: &mut Value, m: u64, rng: &mut Rng) -> Option<String> {
    let njobs = arr(&doc["jobs"]).len();
    let day = T0;
    match m {
        0 => {
            if njobs < 2 { return None; }
            let k = rng.usize(1, njobs - 1);
            let src = rng.usize(0, k - 1);
            doc["jobs"][k]["id"] = doc["jobs"][src]["id"].clone();
            Some("E1100:dup-job-id".into())
        }
        1 => {
            let (j, k, t) = pick_task(doc, rng, |_, k| k != "s")?;
            doc["jobs"][j][k][t]["demand"] = Value::Null;
            Some(format!("E1101:no-demand:{k}"))
        }
        2 => {
            let (j, k, t) = pick_task(doc, rng, |_, k| k == "s")?;
            doc["jobs"][j][k][t]["demand"] = json!([1]);
            Some("E1101:service-demand".into())
        }
        3 => {
            // unbalance a pickup/delivery job in one (possibly the last) dimension
            let c: Vec<usize> = (0..njobs).filter(|j| !arr(&doc["jobs"][*j]["p"]).is_empty() && !arr(&doc["jobs"][*j]["d"]).is_empty()).collect();
            if c.is_empty() { return None; }
            let j = *rng.pick(&c);
            let side = *rng.pick(&["p", "d"]);
            let t = rng.usize(0, arr(&doc["jobs"][j][side]).len() - 1);
            let dm = doc["jobs"][j][side][t]["demand"].as_array_mut()?;
            if dm.is_empty() || rng.chance(1, 4) {
                dm.push(json!(1));
            } else {
                let i = if rng.chance(1, 2) { dm.len() - 1 } else { rng.usize(0, dm.len() - 1) };
                dm[i] = json!(dm[i].as_i64().unwrap_or(0) + rng.range(1, 2));
            }
            Some(format!("E1102:unbalance:{side}"))
        }
        4..=10 => {
            // time windows of a job place (every task type)
            let (j, k, t) = pick_task(doc, rng, |t, _| !arr(&t["places"]).is_empty())?;
            let p = rng.usize(0, arr(&doc["jobs"][j][k][t]["places"]).len() - 1);
            let times = &mut doc["jobs"][j][k][t]["places"][p]["times"];
            let what = match m {
                4 => { *times = json!([[day + 12 * HOUR, day + 9 * HOUR]]); "reversed" }
                5 => { *times = json!([[day + 9 * HOUR, day + 12 * HOUR], [day + 12 * HOUR, day + 13 * HOUR]]); "touching" }
                6 => { *times = json!([[day + 9 * HOUR, day + 12 * HOUR], [day + 14 * HOUR, day + 15 * HOUR], [day + 11 * HOUR, day + 13 * HOUR]]); "three-intersecting" }
                7 => { *times = json!([[day + 13 * HOUR, day + 14 * HOUR], [day + 12 * HOUR, day + 9 * HOUR], [day + 15 * HOUR, day + 16 * HOUR]]); "three-one-reversed" }
                8 => { *times = if rng.chance(1, 2) { json!([["bad", day + 12 * HOUR]]) } else { json!([[day + 9 * HOUR, day + 10 * HOUR], [day + 12 * HOUR, "bad"]]) }; "bad-date" }
                9 => { *times = if rng.chance(1, 2) { json!([[day + 9 * HOUR]]) } else { json!([[day + 9 * HOUR, day + 10 * HOUR, day + 11 * HOUR]]) }; "wrong-length" }
                _ => { *times = json!([]); "empty-list" }
            };
            Some(format!("E1103:{what}:{k}"))
        }
        11 => {
            let j = rng.usize(0, njobs.checked_sub(1)?);
            doc["jobs"][j]["id"] = json!(*rng.pick(&["departure", "arrival", "break", "reload"]));
            Some("E1104:reserved-id".into())
        }
        12 => {
            let j = rng.usize(0, njobs.checked_sub(1)?);
            for k in task_keys() {
                doc["jobs"][j][k] = if rng.chance(1, 2) { Value::Null } else { json!([]) };
            }
            Some("E1105:empty-job".into())
        }
        13 => {
            let (j, k, t) = pick_task(doc, rng, |t, _| !arr(&t["places"]).is_empty())?;
            let p = rng.usize(0, arr(&doc["jobs"][j][k][t]["places"]).len() - 1);
            doc["jobs"][j][k][t]["places"][p]["dur"] = json!(-rng.range(1, 100));
            Some(format!("E1106:negative-duration:{k}"))
        }
        14 => {
            let (j, k, t) = pick_task(doc, rng, |t, _| !arr(&t["demand"]).is_empty())?;
            let n = arr(&doc["jobs"][j][k][t]["demand"]).len();
            doc["jobs"][j][k][t]["demand"][rng.usize(0, n - 1)] = json!(-1);
            Some(format!("E1107:negative-demand:{k}"))
        }
        15 => {
            let r = ensure_relation(doc, rng)?;
            let jobs = doc["relations"][r]["jobs"].as_array_mut()?;
            let at = rng.usize(0, jobs.len());
            jobs.insert(at, json!(*rng.pick(&["ghost", "job99", "recharge", ""])));
            Some("E1200:unknown-job".into())
        }
        16 => {
            let r = ensure_relation(doc, rng)?;
            doc["relations"][r]["vehicle"] = json!(*rng.pick(&["ghost", "type1", ""]));
            Some("E1201:unknown-vehicle".into())
        }
        17 => {
            let r = ensure_relation(doc, rng)?;
            doc["relations"][r]["jobs"] = match rng.below(3) {
                0 => json!([]),
                1 => json!(["departure"]),
                _ => json!(["departure", "arrival"]),
            };
            Some("E1202:no-jobs".into())
        }
        18 | 19 => {
            // job named by a relation gets a second place / a second window (any relation type)
            let r = ensure_relation(doc, rng)?;
            let ty = s(&doc["relations"][r]["type"]);
            let ids: Vec<String> = arr(&doc["relations"][r]["jobs"]).iter().map(s).collect();
            let ji = (0..njobs).find(|j| ids.contains(&s(&doc["jobs"][*j]["id"])))?;
            let k = task_keys().into_iter().find(|k| !arr(&doc["jobs"][ji][*k]).is_empty())?;
            let places = doc["jobs"][ji][k][0]["places"].as_array_mut()?;
            if places.is_empty() { return None; }
            if m == 18 {
                let extra = places[0].clone();
                places.push(extra);
            } else {
                places[0]["times"] = json!([[day + 9 * HOUR, day + 10 * HOUR], [day + 12 * HOUR, day + 13 * HOUR]]);
            }
            Some(format!("E1203:{}:{ty}", if m == 18 { "two-places" } else { "two-windows" }))
        }
        20 => {
            // same job in two relations with different vehicles
            let r = ensure_relation(doc, rng)?;
            let rel = doc["relations"][r].clone();
            let vid = s(&rel["vehicle"]);
            let other = vehicle_ids(doc).into_iter().map(|(v, _)| v).find(|v| *v != vid);
            let other = match other {
                Some(o) => o,
                None => {
                    doc["vehicles"][0]["ids"].as_array_mut()?.push(json!("v_extra"));
                    "v_extra".to_string()
                }
            };
            let mut copy = rel;
            copy["vehicle"] = json!(other);
            copy["shift"] = Value::Null;
            copy["jobs"] = json!(arr(&copy["jobs"]).iter().filter(|j| !["departure", "arrival", "break", "reload"].contains(&j.as_str().unwrap_or(""))).cloned().collect::<Vec<_>>());
            if arr(&copy["jobs"]).is_empty() { return None; }
            doc["relations"].as_array_mut()?.push(copy);
            Some("E1204:two-vehicles".into())
        }
        21 => {
            let r = ensure_relation(doc, rng)?;
            let n = vehicle_ids(doc).into_iter().find(|(v, _)| *v == s(&doc["relations"][r]["vehicle"])).map(|(_, sh)| sh.len())?;
            doc["relations"][r]["shift"] = json!(n + rng.usize(0, 1));
            Some("E1205:shift-index".into())
        }
        22 => {
            // one more reserved entry than the shift defines
            let r = ensure_relation(doc, rng)?;
            let rel = doc["relations"][r].clone();
            let shift = rel_shift(doc, &rel)?.clone();
            let kind = *rng.pick(&["break", "reload", "recharge", "arrival"]);
            let defined = match kind {
                "break" => optional_breaks(&shift),
                "reload" => arr(&shift["reloads"]).len(),
                "recharge" => arr(&shift["recharges"]["stations"]).len(),
                _ => if shift["end"].is_null() { 0 } else { return None },
            };
            let have = arr(&rel["jobs"]).iter().filter(|j| j.as_str() == Some(kind)).count();
            let jobs = doc["relations"][r]["jobs"].as_array_mut()?;
            for _ in have..=defined {
                let at = if kind == "arrival" { jobs.len() } else { rng.usize(0, jobs.len()) };
                jobs.insert(at, json!(kind));
            }
            Some(format!("E1206:surplus-{kind}"))
        }
        23 => {
            let r = ensure_relation(doc, rng)?;
            let jobs = doc["relations"][r]["jobs"].as_array_mut()?;
            let c: Vec<usize> = (0..jobs.len()).filter(|i| !["departure", "arrival", "break", "reload", "recharge"].contains(&jobs[*i].as_str().unwrap_or(""))).collect();
            if c.is_empty() { return None; }
            let i = *rng.pick(&c);
            if rng.chance(1, 2) {
                let x = jobs[i].clone();
                jobs.insert(i, x);
                Some("E1207:listed-too-often".into())
            } else {
                // a job with two tasks listed once
                let id = s(&jobs[i]);
                let ji = (0..njobs).find(|j| s(&doc["jobs"][*j]["id"]) == id)?;
                let k = task_keys().into_iter().find(|k| !arr(&doc["jobs"][ji][*k]).is_empty())?;
                let extra = doc["jobs"][ji][k][0].clone();
                doc["jobs"][ji][k].as_array_mut()?.push(extra);
                Some("E1207:listed-too-rarely".into())
            }
        }
        24 => {
            let n = arr(&doc["vehicles"]).len();
            if n == 0 { return None; }
            if n >= 2 {
                doc["vehicles"][n - 1]["type"] = doc["vehicles"][0]["type"].clone();
            } else {
                let mut copy = doc["vehicles"][0].clone();
                copy["ids"] = json!(["v_copy"]);
                doc["vehicles"].as_array_mut()?.push(copy);
            }
            Some("E1300:dup-type-id".into())
        }
        25 => {
            let n = arr(&doc["vehicles"]).len();
            if n == 0 { return None; }
            let src = s(arr(&doc["vehicles"][0]["ids"]).first()?);
            let target = rng.usize(0, n - 1);
            doc["vehicles"][target]["ids"].as_array_mut()?.push(json!(src));
            Some("E1301:dup-vehicle-id".into())
        }
        26..=32 => {
            let sh = all_shifts(doc);
            if sh.is_empty() { return None; }
            let (vi, si) = *rng.pick(&sh);
            let shift = &mut doc["vehicles"][vi]["shifts"][si];
            let what = match m {
                26 => { if shift["end"].is_null() { return None; } shift["end"]["l"] = json!(shift["start"]["e"].as_i64()? - HOUR); "end-before-start" }
                27 => { shift["start"]["e"] = json!("bad"); "bad-start" }
                28 => { if shift["end"].is_null() { return None; } shift["end"]["l"] = json!("bad"); "bad-end" }
                29 => {
                    // a second shift overlapping the first
                    let mut copy = shift.clone();
                    if let Some(e) = copy["start"]["e"].as_i64() { copy["start"]["e"] = json!(e + HOUR); if !copy["start"]["l"].is_null() { copy["start"]["l"] = json!(e + HOUR); } }
                    doc["vehicles"][vi]["shifts"].as_array_mut()?.push(copy);
                    "overlapping-shifts"
                }
                30 => { doc["vehicles"][vi]["shifts"] = json!([]); "no-shifts" }
                31 => { shift["start"]["l"] = json!("bad"); "bad-start-latest" }
                _ => { if shift["end"].is_null() { return None; } shift["end"]["e"] = json!("bad"); "bad-end-earliest" }
            };
            Some(format!("E1302:{what}"))
        }
        33..=39 => {
            let sh = all_shifts(doc);
            if sh.is_empty() { return None; }
            let (vi, si) = *rng.pick(&sh);
            let shift = &mut doc["vehicles"][vi]["shifts"][si];
            let e = shift["start"]["e"].as_i64()?;
            let places = json!([{"dur": 600, "loc": Value::Null, "tag": Value::Null}]);
            let mut list = arr(&shift["breaks"]).to_vec();
            let what = match m {
                33 => { list.push(json!({"kind": "otw", "tw": [e - 5 * HOUR, e - 4 * HOUR], "places": places, "policy": Value::Null})); "outside-shift" }
                34 => { list.push(json!({"kind": "otw", "tw": [e + 3 * HOUR, e + 2 * HOUR], "places": places, "policy": Value::Null})); "reversed" }
                35 => { list.push(json!({"kind": "otw", "tw": if rng.chance(1, 2) { json!(["bad", e + 2 * HOUR]) } else { json!([e + HOUR]) }, "places": places, "policy": Value::Null})); "malformed-window" }
                36 => {
                    list.push(json!({"kind": "otw", "tw": [e + 6 * HOUR + 600, e + 6 * HOUR + 1800], "places": places, "policy": Value::Null}));
                    list.push(json!({"kind": "rex", "e": e + 6 * HOUR, "l": e + 6 * HOUR + 900, "dur": 600}));
                    "intersecting-breaks"
                }
                37 => { list.push(json!({"kind": "rex", "e": if rng.chance(1, 2) { json!("bad") } else { json!(e + HOUR) }, "l": "bad", "dur": 600})); "bad-exact-date" }
                38 => {
                    shift["start"]["l"] = json!(e);
                    list.push(json!({"kind": "ooff", "off": if rng.chance(1, 2) { json!([3600]) } else { json!([3600, 7200, 9000]) }, "places": places, "policy": Value::Null}));
                    "offset-list-length"
                }
                _ => {
                    shift["start"]["l"] = json!(e);
                    list.push(json!({"kind": "roff", "e": 30 * HOUR, "l": 31 * HOUR, "dur": 600}));
                    if shift["end"].is_null() { return None; }
                    "offset-outside-shift"
                }
            };
            shift["breaks"] = json!(list);
            Some(format!("E1303:{what}"))
        }
        40..=43 => {
            let sh = all_shifts(doc);
            if sh.is_empty() { return None; }
            let (vi, si) = *rng.pick(&sh);
            let shift = &mut doc["vehicles"][vi]["shifts"][si];
            let e = shift["start"]["e"].as_i64()?;
            let loc = shift["start"]["loc"].clone();
            let times = match m {
                40 => json!([[e - 5 * HOUR, e - 4 * HOUR]]),
                41 => json!([[e + 3 * HOUR, e + 2 * HOUR]]),
                42 => if rng.chance(1, 2) { json!([[e + HOUR, "bad"]]) } else { json!([[e + HOUR]]) },
                _ => json!([]),
            };
            let what = ["outside-shift", "reversed", "malformed-window", "empty-list"][(m - 40) as usize];
            if rng.chance(1, 2) {
                let mut list = arr(&shift["reloads"]).to_vec();
                list.push(json!({"loc": loc, "dur": 300, "times": times, "tag": Value::Null, "res": Value::Null}));
                shift["reloads"] = json!(list);
                Some(format!("E1304:reload-{what}"))
            } else {
                let mut stations = arr(&shift["recharges"]["stations"]).to_vec();
                stations.push(json!({"loc": loc, "dur": 300, "times": times, "tag": Value::Null}));
                shift["recharges"] = json!({"maxd": 50_000, "stations": stations});
                Some(format!("E1304:recharge-{what}"))
            }
        }
        44 => {
            let n = arr(&doc["vehicles"]).len();
            let vi = rng.usize(0, n.checked_sub(1)?);
            doc["vehicles"][vi]["cdist"] = json!(0);
            doc["vehicles"][vi]["ctime"] = json!(0);
            Some("E1306:zero-costs".into())
        }
        45 => {
            let sh = all_shifts(doc);
            if sh.is_empty() { return None; }
            let (vi, si) = *rng.pick(&sh);
            let shift = &mut doc["vehicles"][vi]["shifts"][si];
            let e = shift["start"]["e"].as_i64()?;
            let mut list = arr(&shift["breaks"]).to_vec();
            if !list.iter().any(|b| matches!(b["kind"].as_str(), Some("ooff") | Some("roff"))) {
                list.push(if rng.chance(1, 2) {
                    json!({"kind": "roff", "e": 5 * HOUR + 1200, "l": 5 * HOUR + 1500, "dur": 300})
                } else {
                    json!({"kind": "ooff", "off": [5 * HOUR + 1200, 5 * HOUR + 1500], "places": [{"dur": 300, "loc": Value::Null, "tag": Value::Null}], "policy": Value::Null})
                });
                shift["breaks"] = json!(list);
            }
            shift["start"]["l"] = if rng.chance(1, 2) { Value::Null } else { json!(e + 60) };
            Some("E1307:offset-with-rescheduling".into())
        }
        46 => {
            let mut r = arr(&doc["resources"]).to_vec();
            if r.is_empty() { r.push(json!({"id": "res1", "cap": [20]})); }
            let copy = r[0].clone();
            r.push(copy);
            doc["resources"] = json!(r);
            Some("E1308:dup-resource-id".into())
        }
        47 => {
            let sh = all_shifts(doc);
            if sh.is_empty() { return None; }
            let (vi, si) = *rng.pick(&sh);
            let shift = &mut doc["vehicles"][vi]["shifts"][si];
            let loc = shift["start"]["loc"].clone();
            let mut list = arr(&shift["reloads"]).to_vec();
            list.push(json!({"loc": loc, "dur": 300, "times": Value::Null, "tag": Value::Null, "res": "ghost-res"}));
            shift["reloads"] = json!(list);
            Some("E1308:unknown-resource".into())
        }
        48 => {
            let p = doc["profiles"].as_array_mut()?;
            let first = p.first()?.clone();
            p.push(first);
            Some("E1500:dup-profile".into())
        }
        49 => {
            doc["profiles"] = json!([]);
            Some("E1501:no-profiles".into())
        }
        50 => {
            // mix location types
            let (j, k, t) = pick_task(doc, rng, |t, _| !arr(&t["places"]).is_empty())?;
            let l = &mut doc["jobs"][j][k][t]["places"][0]["loc"];
            *l = if l.get("i").is_some() { json!({"c": [52, 13]}) } else { json!({"i": 0}) };
            Some("E1502:mixed-locations".into())
        }
        51 => {
            doc["matrices"] = json!([]);
            Some("E1503:no-matrix".into())
        }
        52 => {
            let n = arr(&doc["matrices"]).len();
            if n == 0 { return None; }
            let i = rng.usize(0, n - 1);
            let size = (doc["matrices"][i]["dist"].as_u64()? as f64).sqrt().round() as u64;
            let (what, len) = match rng.below(5) {
                0 => ("smaller", (size.max(1) - 1) * (size.max(1) - 1)),
                1 => ("larger", (size + 1) * (size + 1)),
                2 => ("not-square-below", (size * size).max(1) - 1),
                3 => ("not-square-above", size * size + 1),
                _ => ("empty", 0),
            };
            doc["matrices"][i]["dist"] = json!(len);
            doc["matrices"][i]["tt"] = json!(len);
            Some(format!("E1504:matrix-{what}:{}", if i == 0 { "first" } else { "other" }))
        }
        53 => {
            // an index beyond the matrix
            let (j, k, t) = pick_task(doc, rng, |t, _| arr(&t["places"]).first().is_some_and(|p| p["loc"].get("i").is_some()))?;
            let size = required_size(doc);
            doc["jobs"][j][k][t]["places"][0]["loc"] = json!({"i": match rng.below(3) { 0 => size, 1 => size + 5, _ => 1_000_000_000_000u64 }});
            Some("E1504:index-beyond-matrix".into())
        }
        54 => {
            if !doc["clustering"].is_null() && rng.chance(1, 2) {
                doc["clustering"] = json!("ghost-profile");
                Some("E1505:clustering-profile".into())
            } else {
                let n = arr(&doc["vehicles"]).len();
                let vi = rng.usize(0, n.checked_sub(1)?);
                doc["vehicles"][vi]["profile"] = json!("ghost-profile");
                Some("E1505:vehicle-profile".into())
            }
        }
        55 => {
            doc["objectives"] = json!([]);
            Some("E1600:empty-objectives".into())
        }
        56 => {
            ensure_objectives(doc, rng);
            let kinds = flat_kinds(doc);
            if kinds.is_empty() { return None; }
            let k = rng.pick(&kinds).clone();
            let o = match k.as_str() {
                "compact-tour" => json!({"t": k, "radius": 2}),
                _ => json!({"t": k}),
            };
            let at = push_objective(doc, rng, o);
            Some(format!("E1601:duplicate:{at}"))
        }
        57 => {
            ensure_objectives(doc, rng);
            remove_kind(doc, |k| COST_KINDS.contains(&k));
            if arr(&doc["objectives"]).is_empty() { return None; }
            Some("E1602:no-cost-objective".into())
        }
        58 => {
            ensure_objectives(doc, rng);
            if flat_kinds(doc).iter().any(|k| k == "maximize-value") {
                // drop the valued jobs instead
                for j in doc["jobs"].as_array_mut()?.iter_mut() { j["value2"] = Value::Null; }
                Some("E1603:values-removed".into())
            } else {
                if arr(&doc["jobs"]).iter().any(|j| j["value2"].as_i64().is_some_and(|v| v > 0)) { return None; }
                let at = push_objective(doc, rng, json!({"t": "maximize-value", "breaks": Value::Null}));
                Some(format!("E1603:value-objective:{at}"))
            }
        }
        59 => {
            ensure_objectives(doc, rng);
            for j in doc["jobs"].as_array_mut()?.iter_mut() {
                for k in task_keys() {
                    if let Some(ts) = j[k].as_array_mut() { for t in ts.iter_mut() { t["order"] = Value::Null; } }
                }
            }
            if !flat_kinds(doc).iter().any(|k| k == "tour-order") {
                let at = push_objective(doc, rng, json!({"t": "tour-order"}));
                return Some(format!("E1604:order-objective:{at}"));
            }
            Some("E1604:orders-removed".into())
        }
        60 => {
            ensure_objectives(doc, rng);
            if rng.chance(1, 2) {
                let j = rng.usize(0, njobs.checked_sub(1)?);
                doc["jobs"][j]["value2"] = json!(*rng.pick(&[0, 1, -2]));
                Some("E1605:value-below-one".into())
            } else {
                let (j, k, t) = pick_task(doc, rng, |_, _| true)?;
                doc["jobs"][j][k][t]["order"] = json!(*rng.pick(&[0, -1]));
                Some(format!("E1605:order-below-one:{k}"))
            }
        }
        61 => {
            ensure_objectives(doc, rng);
            let have = flat_kinds(doc);
            let k = COST_KINDS.iter().find(|k| !have.iter().any(|h| h == *k))?;
            let at = push_objective(doc, rng, json!({"t": k}));
            Some(format!("E1606:second-cost-objective:{at}"))
        }
        62 => {
            ensure_objectives(doc, rng);
            remove_kind(doc, |k| k == "maximize-value");
            if arr(&doc["objectives"]).is_empty() { return None; }
            let j = rng.usize(0, njobs.checked_sub(1)?);
            doc["jobs"][j]["value2"] = json!(rng.range(2, 9));
            Some("E1607:value-without-objective".into())
        }
        _ => {
            // E1605 is silent without an `objectives` property
            if !doc["objectives"].is_null() { return None; }
            let j = rng.usize(0, njobs.checked_sub(1)?);
            doc["jobs"][j]["value2"] = json!(0);
            Some("none:value-zero-without-objectives".into())
        }
    }
}

// ---- malformed-value stream: type-directed edits anywhere in the document -----------------------

const NULLABLE: [&str; 22] = ["times", "tag", "l", "end", "breaks", "reloads", "recharges", "limits", "relations", "clustering", "resources",
    "objectives", "demand", "order", "value2", "res", "shift", "ts", "p", "d", "r", "s"];
const NAT_KEYS: [&str; 7] = ["i", "tt", "dist", "shift", "radius", "levels", "size"];
const SMALL_KEYS: [&str; 4] = ["demand", "cap", "c", "order"];

fn collect_paths(v: &Value, path: &mut Vec<String>, out: &mut Vec<Vec<String>>) {
    out.push(path.clone());
    match v {
        Value::Object(m) => {
            for (k, x) in m.iter() {
                path.push(k.clone());
                collect_paths(x, path, out);
                path.pop();
            }
        }
        Value::Array(a) => {
            for (i, x) in a.iter().enumerate() {
                path.push(i.to_string());
                collect_paths(x, path, out);
                path.pop();
            }
        }
        _ => {}
    }
}

fn at_path<'a>(v: &'a mut Value, path: &[String]) -> &'a mut Value {
    let mut cur = v;
    for p in path {
        cur = if cur.is_array() { &mut cur[p.parse::<usize>().unwrap()] } else { &mut cur[p.as_str()] };
    }
    cur
}

fn last_key(path: &[String]) -> &str {
    path.iter().rev().find(|p| p.parse::<usize>().is_err()).map(|s| s.as_str()).unwrap_or("")
}

fn is_time_position(path: &[String]) -> bool {
    let k = last_key(path);
    let direct = path.last().map(|s| s.as_str()).unwrap_or("");
    ((k == "times" || k == "tw") && direct.parse::<usize>().is_ok()) || (direct == "ts")
        || ((direct == "e" || direct == "l") && !path.iter().any(|p| p == "breaks"))
}

fn malform(doc: &mut Value, rng: &mut Rng) -> Option<String> {
    let mut paths = vec![];
    collect_paths(doc, &mut vec![], &mut paths);
    let path = rng.pick(&paths).clone();
    if path.is_empty() { return None; }
    let key = last_key(&path).to_string();
    let direct = path.last().cloned().unwrap_or_default();
    let time_pos = is_time_position(&path);
    let v = at_path(doc, &path);
    let label;
    match v.clone() {
        Value::Number(n) => {
            let x = n.as_i64()?;
            // every absolute timestamp of a document is far above 10^9; anything else is a small number
            // (keeps rendered dates inside the years RFC 3339 can express)
            if time_pos || x > 1_000_000_000 {
                *v = if rng.chance(1, 2) { json!("bad") } else { json!(*rng.pick(&[0, x + DAY, x - DAY, -x])) };
                label = "time";
            } else if NAT_KEYS.contains(&direct.as_str()) || NAT_KEYS.contains(&key.as_str()) && direct != "dur" {
                *v = json!(*rng.pick(&[0u64, 1, (x as u64) + 1, (x as u64).saturating_sub(1), 1000]));
                label = "nat";
            } else if SMALL_KEYS.contains(&key.as_str()) {
                *v = json!(*rng.pick(&[0, -1, 1, -x, 1 << 20]));
                label = "small-int";
            } else {
                *v = json!(*rng.pick(&[0, -1, 1, -x, x * 1000, 1 << 31]));
                label = "int";
            }
        }
        Value::String(_) => {
            if key == "kind" || key == "t" || key == "type" && path.iter().any(|p| p == "relations") || key == "policy" { return None; }
            *v = json!(*rng.pick(&["", "departure", "reload", "job1", "v1", "car", "res1", "type1", "x"]));
            label = "string";
        }
        Value::Array(a) => {
            if key == "c" { return None; }
            let arr = v.as_array_mut()?;
            match rng.below(4) {
                0 => { arr.clear(); label = "array-clear"; }
                1 => { arr.pop(); label = "array-pop"; }
                2 => { if let Some(l) = a.last() { arr.push(l.clone()); } label = "array-dup-last"; }
                _ => { arr.reverse(); label = "array-reverse"; }
            }
        }
        Value::Object(_) | Value::Bool(_) => {
            if NULLABLE.contains(&direct.as_str()) || (direct.parse::<usize>().is_err() && NULLABLE.contains(&key.as_str()) && direct == key) {
                *v = Value::Null;
                label = "null";
            } else {
                return None;
            }
        }
        Value::Null => return None,
    }
    Some(format!("malform:{label}:{}", path.iter().filter(|p| p.parse::<usize>().is_err()).cloned().collect::<Vec<_>>().join(".")))
}

/// shapes that are known findings on the current tree (kept out of the random streams; their
/// witnesses live in the corpus): S21 more than 8 load dimensions, S23 a fleet without any vehicle
fn excluded_shape(doc: &Value) -> bool {
    fn dims_over(v: &Value) -> bool {
        match v {
            Value::Object(m) => m.iter().any(|(k, x)| ((k == "demand" || k == "cap") && arr(x).len() > 8) || dims_over(x)),
            Value::Array(a) => a.iter().any(dims_over),
            _ => false,
        }
    }
    let fleet_empty = !arr(&doc["vehicles"]).iter().any(|v| !arr(&v["ids"]).is_empty() && !arr(&v["shifts"]).is_empty());
    dims_over(doc) || fleet_empty
}

fn gen_cases(rng: &mut Rng, tier: Tier) -> Vec<Value> {
    let n = if tier == Tier::Thorough { 200_000 } else { 8_000 };
    let mut cases = vec![];
    let mut target = 0u64;
    while cases.len() < n {
        let Gen { mut doc, entry } = gen_valid(rng);
        let mut muts: Vec<String> = vec![];
        let mut entry = entry;
        match rng.below(10) {
            0 | 1 => {}
            2..=7 => {
                // 1-3 targeted mutations; the first one cycles through all of them
                for i in 0..rng.usize(1, 3) {
                    let m = if i == 0 { target += 1; target % N_MUTATIONS } else { rng.below(N_MUTATIONS) };
                    if let Some(l) = mutate(&mut doc, m, rng) {
                        muts.push(l);
                    }
                }
            }
            _ => {
                for _ in 0..rng.usize(1, 3) {
                    if let Some(l) = malform(&mut doc, rng) {
                        muts.push(l);
                    }
                }
            }
        }
        if entry == "approx" && !arr(&doc["matrices"]).is_empty() {
            entry = "str";
        }
        if excluded_shape(&doc) {
            continue;
        }
        cases.push(json!({"k": "doc", "entry": entry, "doc": doc, "muts": muts}));
    }
    cases
}

fn main() {
    if std::env::var("C10_DEBUG_GEN").is_ok() {
        // debugging aid: run the generator alone with the default panic hook
        let mut rng = Rng::new(1);
        let n = gen_cases(&mut rng, Tier::Quick).len();
        println!("generated {n} cases");
        return;
    }
    run_main(gen_cases, exec);
}
