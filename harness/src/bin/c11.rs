//! C11 — problem / matrix / solution documents survive round trips.
//!
//! part 1 (`rt`, `foreign`, `fbits`): typed generator of the real serde structs -> real `serialize_*` ->
//!         real `deserialize_* ∘ serialize_*`; foreign JSON stream (extra fields, aliases, nulls, integer literals
//!         in float positions, missing fields, wrong kinds) for the `decode` side of the model.
//! part 2 (`init`): pragen problem -> solve -> write_pragmatic -> real `read_init_solution` -> job activities with
//!         place index per (vehicle, shift), unassigned set.
//! part 3 (`csv`): generated tables -> real `import_problem("csv", …)` -> real validation (`read_pragmatic`).
//!
//! JSON documents travel in a neutral form (NJ) that keeps what serde_json distinguishes and a generic JSON
//! library loses: integer vs float literal (`5` / `5.0`), key order, duplicate keys:
//!   null | true/false | <integer> | "string" | [..] | {"f": <u64 bit pattern of the f64>} | {"o": [[key, value], ..]}

#[path = "c11/nj.rs"]
mod nj;
#[path = "c11/typed.rs"]
mod typed;
#[path = "c11/foreign.rs"]
mod foreign;
#[path = "c11/init.rs"]
mod init;
#[path = "c11/csv.rs"]
mod csv;

use serde_json::{Value, json};
use vrp_verif_harness::*;

fn gen_cases(rng: &mut Rng, tier: Tier) -> Vec<Value> {
    let mut cases = vec![];
    foreign::gen_part1(rng, tier, &mut cases);
    init::gen_cases(rng, tier, &mut cases);
    csv::gen_cases(rng, tier, &mut cases);
    cases
}

fn exec(case: &Value) -> Value {
    match case["k"].as_str().unwrap_or("") {
        "rt" | "foreign" | "fbits" => foreign::exec(case),
        "init" => init::exec(case),
        "csv" => csv::exec(case),
        other => json!({"error": format!("unknown kind {other}")}),
    }
}

fn main() {
    run_main(gen_cases, exec)
}
