//! part 3: CSV import. Generated tables -> CSV text -> real `vrp_cli::extensions::import::import_problem("csv", …)`
//! -> canonical summary of the imported document (what the model must reproduce) + real validation
//! (`ValidationContext::validate`) + full real reader (`read_pragmatic`).
//!
//! Case input: rows with integer fields; coordinates in micro-degrees; dates as integer seconds (rendered as
//! RFC 3339), `null` (empty field) or `{"bad": "text"}` (written verbatim).

use serde_json::{Value, json};
use std::io::BufReader;
use vrp_cli::extensions::import::import_problem;
use vrp_pragmatic::format::problem::*;
use vrp_pragmatic::format::{CoordIndex, Location};
use vrp_pragmatic::validation::ValidationContext;
use vrp_verif_harness::pragen::{parse_ts, ts};
use vrp_verif_harness::*;

fn coord_text(v: i64) -> String {
    let sign = if v < 0 { "-" } else { "" };
    let a = v.abs();
    format!("{sign}{}.{:06}", a / 1_000_000, a % 1_000_000)
}

fn date_text(v: &Value) -> String {
    match v {
        Value::Null => String::new(),
        Value::Number(n) => ts(n.as_i64().unwrap_or(0)),
        other => other["bad"].as_str().unwrap_or("").to_string(),
    }
}

fn num_text(v: &Value) -> String {
    match v {
        Value::Number(n) => n.to_string(),
        other => other.as_str().unwrap_or("").to_string(),
    }
}

pub fn render(case: &Value) -> (String, String) {
    let mut jobs = String::from("ID,LAT,LNG,DEMAND,DURATION,TW_START,TW_END\n");
    for r in case["jobs"].as_array().cloned().unwrap_or_default() {
        jobs.push_str(&format!(
            "{},{},{},{},{},{},{}\n",
            r["id"].as_str().unwrap_or(""),
            coord_text(r["lat"].as_i64().unwrap_or(0)),
            coord_text(r["lng"].as_i64().unwrap_or(0)),
            num_text(&r["demand"]),
            num_text(&r["duration"]),
            date_text(&r["tw_start"]),
            date_text(&r["tw_end"]),
        ));
    }
    let mut vehicles = String::from("ID,LAT,LNG,CAPACITY,TW_START,TW_END,AMOUNT,PROFILE\n");
    for r in case["vehicles"].as_array().cloned().unwrap_or_default() {
        vehicles.push_str(&format!(
            "{},{},{},{},{},{},{},{}\n",
            r["id"].as_str().unwrap_or(""),
            coord_text(r["lat"].as_i64().unwrap_or(0)),
            coord_text(r["lng"].as_i64().unwrap_or(0)),
            num_text(&r["capacity"]),
            date_text(&r["tw_start"]),
            date_text(&r["tw_end"]),
            num_text(&r["amount"]),
            r["profile"].as_str().unwrap_or(""),
        ));
    }
    (jobs, vehicles)
}

fn micro(f: f64) -> Value {
    let x = f * 1e6;
    if (x - x.round()).abs() < 1e-3 { json!(x.round() as i64) } else { json!({"f": f}) }
}

fn loc(l: &Location) -> Value {
    match l {
        Location::Coordinate { lat, lng } => json!([micro(*lat), micro(*lng)]),
        other => json!({"other": other.to_string()}),
    }
}

fn date(s: &str) -> Value {
    match parse_ts(s) {
        Some(t) if ts(t) == s => json!(t),
        _ => json!({"bad": s}),
    }
}

fn fnum(f: f64) -> Value {
    if f.fract() == 0. && f.abs() < 9.0e15 { json!(f as i64) } else { json!({"f": f.to_string()}) }
}

fn tasks(ts_: &Option<Vec<JobTask>>) -> Value {
    match ts_ {
        None => Value::Null,
        Some(list) => Value::Array(
            list.iter()
                .map(|t| {
                    json!({
                        "places": t.places.iter().map(|p| json!({
                            "loc": loc(&p.location), "duration": fnum(p.duration), "tag": p.tag,
                            "times": p.times.as_ref().map(|tws| tws.iter().map(|tw| tw.iter().map(|s| date(s)).collect::<Vec<_>>()).collect::<Vec<_>>()),
                        })).collect::<Vec<_>>(),
                        "demand": t.demand, "order": t.order,
                    })
                })
                .collect(),
        ),
    }
}

/// canonical summary of the imported document: every field the import fills, jobs sorted by id and profiles
/// sorted by name (both come out of hash containers)
fn summary(p: &Problem) -> Value {
    let mut jobs: Vec<&Job> = p.plan.jobs.iter().collect();
    jobs.sort_by(|a, b| a.id.cmp(&b.id));
    let jobs: Vec<Value> = jobs
        .iter()
        .map(|j| {
            json!({"id": j.id, "pickups": tasks(&j.pickups), "deliveries": tasks(&j.deliveries), "services": tasks(&j.services),
                   "replacements": tasks(&j.replacements),
                   "extras": j.skills.is_some() || j.value.is_some() || j.group.is_some() || j.compatibility.is_some()})
        })
        .collect();
    let vehicles: Vec<Value> = p
        .fleet
        .vehicles
        .iter()
        .map(|v| {
            json!({
                "typeId": v.type_id, "vehicleIds": v.vehicle_ids, "profile": v.profile.matrix, "scale": v.profile.scale,
                "costs": [v.costs.fixed.map(|f| f.to_string()), v.costs.distance.to_string(), v.costs.time.to_string()],
                "shifts": v.shifts.iter().map(|s| json!({
                    "start": [date(&s.start.earliest), s.start.latest, loc(&s.start.location)],
                    "end": s.end.as_ref().map(|e| json!([e.earliest, date(&e.latest), loc(&e.location)])),
                    "extras": s.breaks.is_some() || s.reloads.is_some() || s.recharges.is_some(),
                })).collect::<Vec<_>>(),
                "capacity": v.capacity, "extras": v.skills.is_some() || v.limits.is_some(),
            })
        })
        .collect();
    let mut profiles: Vec<Value> = p.fleet.profiles.iter().map(|m| json!([m.name, m.speed])).collect();
    profiles.sort_by_key(|v| v.to_string());
    json!({"jobs": jobs, "vehicles": vehicles, "profiles": profiles,
           "extras": p.plan.relations.is_some() || p.plan.clustering.is_some() || p.fleet.resources.is_some() || p.objectives.is_some()})
}

fn caught<T>(f: impl FnOnce() -> T) -> Result<T, String> {
    std::panic::catch_unwind(std::panic::AssertUnwindSafe(f)).map_err(|e| {
        e.downcast_ref::<String>().cloned().or_else(|| e.downcast_ref::<&str>().map(|s| s.to_string())).unwrap_or_default()
    })
}

pub fn exec(case: &Value) -> Value {
    let (jobs, vehicles) = render(case);
    let imported = caught(|| import_problem("csv", Some(vec![BufReader::new(jobs.as_bytes()), BufReader::new(vehicles.as_bytes())])));
    let problem = match imported {
        Ok(Ok(p)) => p,
        Ok(Err(_)) => return json!({"import": "error"}),
        // `demand.abs()` of i32::MIN (overflow checks are on in this build)
        Err(_) => return json!({"import": "panic"}),
    };
    // real validation rules on the imported document
    let coord_index = CoordIndex::new(&problem);
    let mut codes: Vec<String> = match ValidationContext::new(&problem, None, &coord_index).validate() {
        Ok(()) => vec![],
        Err(e) => e.errors.iter().map(|e| e.code.clone()).collect(),
    };
    codes.sort();
    // and the complete real reader (approximated routing for coordinates); real side only
    let text = {
        let mut buf = std::io::BufWriter::new(Vec::new());
        serialize_problem(&problem, &mut buf).unwrap();
        String::from_utf8(buf.into_inner().unwrap()).unwrap()
    };
    let reads = match caught(|| text.read_pragmatic().is_ok()) {
        Ok(b) => json!(b),
        Err(msg) => json!({"panic": msg}),
    };
    json!({"import": "ok", "doc": summary(&problem), "codes": codes, "reads": reads})
}

const JOB_IDS: &[&str] = &["j1", "j2", "j3", "job_4", "J5", "departure", "break", "x"];
const VEH_IDS: &[&str] = &["v1", "v2", "truck", "car_1", "v_3"];
const PROFILES: &[&str] = &["car", "truck", "bike"];

pub fn gen_cases(rng: &mut Rng, tier: Tier, cases: &mut Vec<Value>) {
    let n = if tier == Tier::Thorough { 30000 } else { 1500 };
    for i in 0..n {
        // ok: tables inside TablesOk by construction; any: random deviations
        let ok_mode = i % 3 != 2;
        let coord = |rng: &mut Rng| rng.range(-89_000_000, 89_000_000);
        let n_ids = rng.usize(1, 4);
        let mut jobs = vec![];
        for _ in 0..rng.usize(0, 7) {
            let id = if ok_mode { JOB_IDS[rng.usize(0, 4.min(n_ids))] } else { JOB_IDS[rng.usize(0, JOB_IDS.len() - 1)] };
            let (s, e) = (rng.range(0, 5000), rng.range(5000, 90000));
            let (tw_start, tw_end) = match rng.below(if ok_mode { 2 } else { 7 }) {
                0 => (json!(null), json!(null)),
                1 => (json!(s), json!(e)),
                2 => (json!(s), json!(null)),
                3 => (json!(null), json!(e)),
                4 => (json!(e), json!(s)),
                5 => (json!({"bad": "not-a-date"}), json!(e)),
                _ => (json!(s), json!(s)),
            };
            let demand = match rng.below(10) {
                0 if !ok_mode && rng.chance(1, 3) => *rng.pick(&[i32::MAX as i64, i32::MIN as i64 + 1, i32::MIN as i64, 1 << 31, -(1 << 31) - 1]),
                1 | 2 => 0,
                _ => rng.range(-5, 5),
            };
            let duration = if !ok_mode && rng.chance(1, 40) { -1 } else { rng.range(0, 900) };
            jobs.push(json!({"id": id, "lat": coord(rng), "lng": coord(rng), "demand": demand, "duration": duration,
                             "tw_start": tw_start, "tw_end": tw_end}));
        }
        // extreme amounts only in rows that do not share their id: the real E1102 rule sums `i32` amounts per job
        // (overflow: panic with overflow checks, silent wrap without) — outside the model
        for k in 0..jobs.len() {
            let id = jobs[k]["id"].clone();
            if jobs[k]["demand"].as_i64().unwrap().abs() > 1000 && jobs.iter().filter(|j| j["id"] == id).count() > 1 {
                jobs[k]["demand"] = json!(rng.range(-5, 5));
            }
        }
        if ok_mode {
            // balance pickups and deliveries of every id that has both
            let ids: Vec<String> = jobs.iter().map(|j| j["id"].as_str().unwrap().to_string()).collect();
            for id in ids {
                let sum = |jobs: &Vec<Value>, pos: bool| -> i64 {
                    jobs.iter().filter(|j| j["id"] == id.as_str()).map(|j| j["demand"].as_i64().unwrap()).filter(|d| (*d > 0) == pos && *d != 0).sum()
                };
                let (p, d) = (sum(&jobs, true), -sum(&jobs, false));
                if p > 0 && d > 0 && p != d {
                    // adjust the first row of the heavier side... simplest: add the difference to a row of the lighter side
                    let want_pos = p < d;
                    let diff = (p - d).abs();
                    if let Some(j) = jobs.iter_mut().find(|j| j["id"] == id.as_str() && (j["demand"].as_i64().unwrap() > 0) == want_pos && j["demand"].as_i64().unwrap() != 0) {
                        let cur = j["demand"].as_i64().unwrap();
                        j["demand"] = json!(if want_pos { cur + diff } else { cur - diff });
                    }
                }
            }
        }
        let mut vehicles = vec![];
        let n_v = if ok_mode { rng.usize(1, 4) } else { rng.usize(0, 4) };
        let mut pool: Vec<&str> = VEH_IDS.to_vec();
        rng.shuffle(&mut pool);
        for k in 0..n_v {
            let id = if ok_mode || rng.chance(3, 4) { pool[k] } else { pool[0] };
            let (s, e) = (rng.range(0, 5000), rng.range(5000, 90000));
            let (tw_start, tw_end) = match rng.below(if ok_mode { 1 } else { 5 }) {
                0 => (json!(s), json!(e)),
                1 => (json!(e), json!(s)),
                2 => (json!({"bad": "2020-13-45"}), json!(e)),
                3 => (json!(s), json!(null)),
                _ => (json!(s), json!(s)),
            };
            let big = if rng.chance(1, 8) { 1 << 31 } else { 2 };
            let capacity = if ok_mode { rng.range(0, 30) } else { *rng.pick(&[-1, 0, 5, 10, 7, 3, i32::MAX as i64, big]) };
            let amount = if ok_mode { rng.range(1, 4) } else if rng.chance(1, 30) { -1 } else { rng.range(0, 3) };
            // rows sharing a PROFILE (the S8a shape) are the normal case
            let hi = if rng.chance(1, 2) { 0 } else { 2 };
            let profile = PROFILES[rng.usize(0, hi)];
            vehicles.push(json!({"id": id, "lat": coord(rng), "lng": coord(rng), "capacity": capacity, "tw_start": tw_start,
                                 "tw_end": tw_end, "amount": amount, "profile": profile}));
        }
        cases.push(json!({"k": "csv", "mode": if ok_mode { "ok" } else { "any" }, "jobs": jobs, "vehicles": vehicles}));
    }
}
