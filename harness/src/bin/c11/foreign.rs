//! part 1: serde round trip on typed documents (`rt`), arbitrary float bit patterns (`fbits`) and a stream of
//! foreign JSON (`foreign`) that ties the model's `decode` outside the image of `encode`.

use crate::nj::{Nj, tokenize};
use crate::typed::G;
use serde_json::{Value, json};
use std::io::{BufReader, BufWriter};
use vrp_pragmatic::format::problem::{deserialize_matrix, deserialize_problem, serialize_problem};
use vrp_pragmatic::format::solution::{deserialize_solution, serialize_solution};
use vrp_verif_harness::*;

/// real parse + real serialise of a JSON text for the given root type
pub fn real_reser(root: &str, text: &str) -> Result<String, String> {
    let mut buf = BufWriter::new(Vec::new());
    match root {
        "Problem" => {
            let p = deserialize_problem(BufReader::new(text.as_bytes())).map_err(|e| e.to_string())?;
            serialize_problem(&p, &mut buf).map_err(|e| e.to_string())?;
        }
        "Matrix" => {
            let m = deserialize_matrix(BufReader::new(text.as_bytes())).map_err(|e| e.to_string())?;
            // there is no serialize_matrix in the repository: the CLI writes matrices with serde_json directly
            serde_json::to_writer_pretty(&mut buf, &m).map_err(|e| e.to_string())?;
        }
        "Solution" => {
            let s = deserialize_solution(BufReader::new(text.as_bytes())).map_err(|e| e.to_string())?;
            serialize_solution(&s, &mut buf).map_err(|e| e.to_string())?;
        }
        _ => return Err("unknown root".into()),
    }
    String::from_utf8(buf.into_inner().map_err(|e| e.to_string())?).map_err(|e| e.to_string())
}

/// `[]` is both an empty `TimeWindow` list and an empty `TimeOffset` list of an optional break (untagged enum): the
/// two values have the same text and the parser returns the first — the only value-level ambiguity of the schema
fn canon_dbg(s: String) -> String {
    s.replace("TimeOffset([])", "TimeWindow([])")
}

/// builds a typed value, returns its real serialisation (tokenised) and its `Debug` rendering
fn typed_doc_dbg(rng: &mut Rng, root: &str, simple: bool, fill: u64) -> (Nj, String) {
    let mut g = G { rng, simple, fill };
    let mut buf = BufWriter::new(Vec::new());
    let dbg = match root {
        "Problem" => {
            let v = g.problem();
            serialize_problem(&v, &mut buf).unwrap();
            format!("{v:?}")
        }
        "Matrix" => {
            let v = g.matrix();
            serde_json::to_writer_pretty(&mut buf, &v).unwrap();
            format!("{v:?}")
        }
        _ => {
            let v = g.solution();
            serialize_solution(&v, &mut buf).unwrap();
            format!("{v:?}")
        }
    };
    let text = String::from_utf8(buf.into_inner().unwrap()).unwrap();
    (tokenize(&text).expect("real serialisation is not JSON"), canon_dbg(dbg))
}

fn typed_doc(rng: &mut Rng, root: &str, simple: bool, fill: u64) -> Nj {
    typed_doc_dbg(rng, root, simple, fill).0
}

/// `Debug` rendering of the value the real parser returns for a JSON text
fn real_parse_dbg(root: &str, text: &str) -> Option<String> {
    match root {
        "Problem" => deserialize_problem(BufReader::new(text.as_bytes())).ok().map(|v| canon_dbg(format!("{v:?}"))),
        "Matrix" => deserialize_matrix(BufReader::new(text.as_bytes())).ok().map(|v| canon_dbg(format!("{v:?}"))),
        "Solution" => deserialize_solution(BufReader::new(text.as_bytes())).ok().map(|v| canon_dbg(format!("{v:?}"))),
        _ => None,
    }
}

// --------------------------------------------------------------------------------------------------
// foreign mutations

const KNOWN_KEYS: &[&str] = &[
    "location", "duration", "times", "tag", "places", "demand", "order", "id", "pickups", "deliveries", "replacements",
    "services", "skills", "value", "group", "compatibility", "type", "jobs", "vehicleId", "shiftIndex", "allOf", "index",
    "lat", "lng", "time", "distance", "load", "activities", "parking", "earliest", "latest", "policy", "stops",
    "statistic", "jobId", "jobTag", "commute", "forward", "backward", "start", "end", "cost", "driving", "serving",
    "waiting", "break", "commuting", "breaks", "reloads", "recharges", "strategy", "objectives", "weights", "name",
    "profile", "timestamp", "travelTimes", "durations", "distances", "errorCodes", "shiftTime", "maxDuration",
    "maxDistance", "tourSize", "typeId", "vehicleIds", "capacity", "limits", "fixed", "scale", "matrix", "speed",
    "resources", "relations", "clustering", "plan", "fleet", "tours", "unassigned", "violations", "extras", "metrics",
    "code", "description", "details", "reasons", "job_radius", "levels", "vehicle_id", "shift_index", "resourceId",
    "stations", "threshold", "visiting", "filtering",
];
const TAGS: &[&str] = &[
    "minimize-cost", "maximize-value", "multi-objective", "compact-tour", "sum", "weighted-sum", "reload", "break",
    "vicinity", "original", "fixed", "unknown", "any", "strict", "Break", "minimizeCost", "",
];
const ALIASES: &[(&str, &str)] = &[("travelTimes", "durations"), ("maxDuration", "shiftTime")];

fn paths(n: &Nj, cur: &mut Vec<usize>, out: &mut Vec<Vec<usize>>) {
    out.push(cur.clone());
    match n {
        Nj::Arr(xs) => {
            for (i, x) in xs.iter().enumerate() {
                cur.push(i);
                paths(x, cur, out);
                cur.pop();
            }
        }
        Nj::Obj(kvs) => {
            for (i, (_, v)) in kvs.iter().enumerate() {
                cur.push(i);
                paths(v, cur, out);
                cur.pop();
            }
        }
        _ => {}
    }
}

fn at<'a>(n: &'a Nj, p: &[usize]) -> &'a Nj {
    match (p.first(), n) {
        (None, _) => n,
        (Some(i), Nj::Arr(xs)) => at(&xs[*i], &p[1..]),
        (Some(i), Nj::Obj(kvs)) => at(&kvs[*i].1, &p[1..]),
        _ => unreachable!(),
    }
}

fn at_mut<'a>(n: &'a mut Nj, p: &[usize]) -> &'a mut Nj {
    match p.first() {
        None => n,
        Some(i) => match n {
            Nj::Arr(xs) => at_mut(&mut xs[*i], &p[1..]),
            Nj::Obj(kvs) => at_mut(&mut kvs[*i].1, &p[1..]),
            _ => unreachable!(),
        },
    }
}

fn scalar(rng: &mut Rng) -> Nj {
    match rng.below(9) {
        0 => Nj::Null,
        1 => Nj::Bool(rng.chance(1, 2)),
        2 => Nj::Int(rng.range(-3, 40) as i128),
        3 => Nj::Flt((rng.range(-30, 300) as f64 / 4.).to_bits()),
        4 => Nj::Str(rng.pick(TAGS).to_string()),
        5 => Nj::Str(pragen::ts(rng.range(0, 100_000))),
        6 => Nj::Arr(vec![]),
        7 => Nj::Obj(vec![]),
        _ => Nj::Str("zz".into()),
    }
}

/// applies one mutation; returns (description, expectation) or None when not applicable
fn mutate(rng: &mut Rng, doc: &mut Nj, root: &str) -> Option<(String, &'static str)> {
    let mut all = vec![];
    paths(doc, &mut vec![], &mut all);
    let pick_where = |rng: &mut Rng, doc: &Nj, f: &dyn Fn(&Nj) -> bool| -> Option<Vec<usize>> {
        let c: Vec<&Vec<usize>> = all.iter().filter(|p| f(at(doc, p))).collect();
        if c.is_empty() { None } else { Some(c[rng.below(c.len() as u64) as usize].clone()) }
    };
    let is_obj = |n: &Nj| matches!(n, Nj::Obj(_));
    let is_nonempty_obj = |n: &Nj| matches!(n, Nj::Obj(kvs) if !kvs.is_empty());
    match rng.below(14) {
        0 => {
            let p = pick_where(rng, doc, &is_obj)?;
            let v = if rng.chance(1, 3) { at(doc, &all[rng.below(all.len() as u64) as usize]).clone() } else { scalar(rng) };
            if let Nj::Obj(kvs) = at_mut(doc, &p) {
                let pos = rng.usize(0, kvs.len());
                kvs.insert(pos, (format!("zzExtra{}", rng.below(3)), v));
            }
            Some(("extra unknown key".into(), "same"))
        }
        1 | 2 => {
            let p = pick_where(rng, doc, &is_obj)?;
            let key = rng.pick(KNOWN_KEYS).to_string();
            // value: scalar, or a copy of some object of the document (never a non-empty array: a struct given as
            // a JSON array is outside the model)
            let v = if rng.chance(1, 3) {
                let c: Vec<&Vec<usize>> = all.iter().filter(|q| is_obj(at(doc, q))).collect();
                { let q: &Vec<usize> = c[rng.below(c.len() as u64) as usize]; at(doc, q).clone() }
            } else {
                scalar(rng)
            };
            if (key == "type" || key == "name") && matches!(v, Nj::Int(_)) {
                return None;
            }
            if let Nj::Obj(kvs) = at_mut(doc, &p) {
                let dup = |k: &str| kvs.iter().any(|(k2, _)| k2 == k);
                // never create duplicate keys, directly or through an alias pair
                if dup(&key) || ALIASES.iter().any(|(a, b)| (key == *a && dup(b)) || (key == *b && dup(a))) {
                    return None;
                }
                let pos = rng.usize(0, kvs.len());
                kvs.insert(pos, (key.clone(), v));
            }
            Some((format!("known key {key} added"), "any"))
        }
        3 => {
            let (name, alias) = *rng.pick(ALIASES);
            let p = pick_where(rng, doc, &|n| matches!(n, Nj::Obj(kvs) if kvs.iter().any(|(k, _)| k == name) && !kvs.iter().any(|(k, _)| k == alias)))?;
            if let Nj::Obj(kvs) = at_mut(doc, &p) {
                kvs.iter_mut().filter(|(k, _)| k == name).for_each(|(k, _)| *k = alias.to_string());
            }
            Some((format!("alias {alias} for {name}"), "same"))
        }
        4 => {
            let p = pick_where(rng, doc, &is_nonempty_obj)?;
            let mut key = String::new();
            if let Nj::Obj(kvs) = at_mut(doc, &p) {
                let i = rng.below(kvs.len() as u64) as usize;
                kvs[i].1 = Nj::Null;
                key = kvs[i].0.clone();
            }
            Some((format!("null for {key}"), "any"))
        }
        5 => {
            let p = pick_where(rng, doc, &is_nonempty_obj)?;
            let mut key = String::new();
            if let Nj::Obj(kvs) = at_mut(doc, &p) {
                let i = rng.below(kvs.len() as u64) as usize;
                key = kvs.remove(i).0;
            }
            Some((format!("key {key} removed"), "any"))
        }
        6 | 7 => {
            // integer literal in a float position
            let p = pick_where(rng, doc, &|n| matches!(n, Nj::Flt(b) if { let f = f64::from_bits(*b); f.fract() == 0. && f.abs() < 9.0e15 && *b != (-0.0f64).to_bits() }))?;
            let n = at_mut(doc, &p);
            if let Nj::Flt(b) = n {
                *n = Nj::Int(f64::from_bits(*b) as i128);
            }
            Some(("integer literal in a float position".into(), "same"))
        }
        8 => {
            let p = pick_where(rng, doc, &|n| matches!(n, Nj::Int(i) if i.abs() < (1 << 53)))?;
            let n = at_mut(doc, &p);
            if let Nj::Int(i) = n {
                *n = Nj::Flt((*i as f64).to_bits());
            }
            // inside an untagged enum (Stop) the failure of one variant lets the next one match: no fixed expectation
            Some(("float literal in an integer position".into(), if root == "Solution" { "any" } else { "reject" }))
        }
        9 => {
            let p = pick_where(rng, doc, &|n| !matches!(n, Nj::Arr(_) | Nj::Obj(_)))?;
            let old = at(doc, &p).clone();
            let new = scalar(rng);
            if std::mem::discriminant(&old) == std::mem::discriminant(&new) {
                return None;
            }
            // a tag given as variant index is outside the model: serde accepts it only when the enum is read from
            // buffered content (inside another tagged / untagged enum)
            if let (Some((last, parent)), Nj::Int(_)) = (p.split_last(), &new) {
                if let Nj::Obj(kvs) = at(doc, parent) {
                    if kvs[*last].0 == "type" || kvs[*last].0 == "name" {
                        return None;
                    }
                }
            }
            *at_mut(doc, &p) = new;
            Some(("scalar of another kind".into(), "any"))
        }
        10 => {
            let p = pick_where(rng, doc, &is_nonempty_obj)?;
            if let Nj::Obj(kvs) = at_mut(doc, &p) {
                rng.shuffle(kvs);
            }
            Some(("keys reordered".into(), "same"))
        }
        11 => {
            let p = pick_where(rng, doc, &|n| matches!(n, Nj::Int(_)))?;
            let v: i128 = *rng.pick(&[1i128 << 31, -(1i128 << 31) - 1, 1i128 << 63, (1i128 << 64) - 1, -1, -(1i128 << 63), (1i128 << 31) - 1, 0]);
            *at_mut(doc, &p) = Nj::Int(v);
            Some((format!("integer boundary {v}"), "any"))
        }
        12 => {
            let p = pick_where(rng, doc, &|n| matches!(n, Nj::Obj(kvs) if kvs.iter().any(|(k, v)| (k == "type" || k == "name") && matches!(v, Nj::Str(_)))))?;
            if let Nj::Obj(kvs) = at_mut(doc, &p) {
                let t = Nj::Str(rng.pick(TAGS).to_string());
                kvs.iter_mut().filter(|(k, _)| k == "type" || k == "name").for_each(|(_, v)| *v = t.clone());
            }
            Some(("tag changed".into(), "any"))
        }
        _ => {
            // array element duplicated or dropped
            let p = pick_where(rng, doc, &|n| matches!(n, Nj::Arr(xs) if !xs.is_empty()))?;
            if let Nj::Arr(xs) = at_mut(doc, &p) {
                let i = rng.below(xs.len() as u64) as usize;
                if rng.chance(1, 2) {
                    let x = xs[i].clone();
                    xs.insert(i, x);
                } else {
                    xs.remove(i);
                }
            }
            Some(("array element duplicated/dropped".into(), "any"))
        }
    }
}

pub fn gen_part1(rng: &mut Rng, tier: Tier, cases: &mut Vec<Value>) {
    let scale = if tier == Tier::Thorough { 20 } else { 1 };
    let roots = ["Problem", "Solution", "Matrix"];
    // typed documents, simple floats: exact comparison with the model
    for i in 0..(420 * scale) {
        let root = roots[i % 3];
        let fill = [0, 8, 4, 6, 2][(i / 3) % 5];
        let (doc, dbg) = typed_doc_dbg(rng, root, true, fill);
        // `value`: Debug rendering of the typed value that was serialised (the parsed value must render the same)
        cases.push(json!({"k": "rt", "root": root, "doc": doc.to_value(), "value": dbg}));
    }
    // arbitrary float bit patterns: real side only, 1 ulp slack
    for i in 0..(120 * scale) {
        let root = roots[i % 3];
        let doc = typed_doc(rng, root, false, 5);
        cases.push(json!({"k": "fbits", "root": root, "doc": doc.to_value()}));
    }
    // foreign stream
    for i in 0..(1800 * scale) {
        let root = roots[i % 3];
        let orig = typed_doc(rng, root, true, [6, 8, 3][(i / 3) % 3]);
        let mut doc = orig.clone();
        let n_mut = if rng.chance(1, 4) { 2 } else { 1 };
        let mut notes = vec![];
        let mut expect = "same";
        for _ in 0..n_mut {
            for _attempt in 0..6 {
                if let Some((note, e)) = mutate(rng, &mut doc, root) {
                    notes.push(note);
                    expect = match (expect, e) {
                        ("same", "same") => "same",
                        ("same", "reject") if notes.len() == 1 => "reject",
                        _ => "any",
                    };
                    break;
                }
            }
        }
        if notes.is_empty() {
            continue;
        }
        cases.push(json!({"k": "foreign", "root": root, "doc": doc.to_value(), "orig": orig.to_value(),
                          "mut": notes, "expect": expect}));
    }
}

pub fn exec(case: &Value) -> Value {
    let root = case["root"].as_str().unwrap_or("");
    let doc = match Nj::from_value(&case["doc"]) {
        Some(d) => d,
        None => return json!({"error": "doc is not in neutral form"}),
    };
    let text = doc.text();
    // glue self-check: printing and tokenising are inverse on this document
    assert!(tokenize(&text).as_ref() == Ok(&doc), "harness tokenizer/printer mismatch");
    match real_reser(root, &text) {
        Err(_) => json!({"ok": false, "reser": null, "idem": true}),
        Ok(t2) => {
            let reser = tokenize(&t2).expect("real serialisation is not JSON");
            // the property on the parsed document: ser(parse(ser d')) = ser d'
            let idem = match real_reser(root, &t2) {
                Ok(t3) => tokenize(&t3).ok().as_ref() == Some(&reser),
                Err(_) => false,
            };
            let mut out = json!({"ok": true, "reser": reser.to_value(), "idem": idem});
            if let Some(dbg) = case.get("value").and_then(|v| v.as_str()) {
                // parse(ser d) == d, compared through the derived Debug rendering (real side only)
                out["value_ok"] = json!(real_parse_dbg(root, &text).as_deref() == Some(dbg));
            }
            out
        }
    }
}
