//! part 2 (placeholder)
use serde_json::{Value, json};
use vrp_verif_harness::*;
pub fn gen_cases(_rng: &mut Rng, _tier: Tier, _cases: &mut Vec<Value>) {}
pub fn exec(_case: &Value) -> Value { json!({}) }
