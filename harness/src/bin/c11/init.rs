//! part 2: initial-solution round trip. pragen problem -> solve (inside `isolated(1, …)`, reproducible) ->
//! `write_pragmatic` -> real `read_init_solution` -> job activities with place index per (vehicle, shift) and the
//! unassigned set, before and after. `impl.trace` (the solver's core solution) is the input of the Lean model of
//! writer + reader; `impl.written` and `impl.reread` are compared with the model's.

use serde_json::{Value, json};
use std::io::BufReader;
use std::sync::Arc;
use vrp_core::models::problem::{JobIdDimension, Multi, VehicleIdDimension};
use vrp_core::models::{Problem as CoreProblem, Solution as CoreSolution};
use vrp_core::utils::DefaultRandom;
use vrp_pragmatic::format::solution::read_init_solution;
use vrp_pragmatic::format::{JobTypeDimension, ShiftIndexDimension};
use vrp_verif_harness::pragen::*;
use vrp_verif_harness::*;

/// time in quarter seconds (pragen scales travel times by fractions with denominator ≤ 4)
fn q4(f: f64, exact: &mut bool) -> Value {
    let x = f * 4.;
    if x.fract() == 0. && x.abs() < 9.0e15 {
        json!(x as i64)
    } else {
        *exact = false;
        json!({"inexact": format!("{f:e}")})
    }
}

/// the core solution: per route all activities (start, jobs, end) and the unassigned job ids
pub fn trace(solution: &CoreSolution, exact: &mut bool) -> Value {
    let mut tours = vec![];
    for route in solution.routes.iter() {
        let dimens = &route.actor.vehicle.dimens;
        let mut acts = vec![];
        for (idx, a) in route.tour.all_activities().enumerate() {
            let (job_id, kind, task) = match a.job.as_ref() {
                Some(single) => {
                    let job = a.retrieve_job().unwrap();
                    let task = match Multi::roots(single) {
                        Some(multi) => multi.jobs.iter().position(|s| Arc::ptr_eq(s, single)).unwrap_or(usize::MAX),
                        None => 0,
                    };
                    (
                        job.dimens().get_job_id().cloned().unwrap_or_default(),
                        single.dimens.get_job_type().cloned().unwrap_or_default(),
                        task,
                    )
                }
                None => (String::new(), if idx == 0 { "departure".to_string() } else { "arrival".to_string() }, 0),
            };
            acts.push(json!({
                "job": job_id, "kind": kind, "task": task, "place": a.place.idx, "loc": a.place.location,
                "arr": q4(a.schedule.arrival, exact), "dep": q4(a.schedule.departure, exact),
                "tws": q4(a.place.time.start, exact), "dur": q4(a.place.duration, exact),
            }));
        }
        tours.push(json!({
            "vehicle": dimens.get_vehicle_id().cloned().unwrap_or_default(),
            "shift": dimens.get_shift_index().copied().unwrap_or_default(),
            "acts": acts,
        }));
    }
    let unassigned: Vec<String> =
        solution.unassigned.iter().map(|(job, _)| job.dimens().get_job_id().cloned().unwrap_or_default()).collect();
    json!({"tours": tours, "unassigned": unassigned})
}

/// what `read_init_solution` rebuilt: job activities per route; unassigned ids split into customer jobs and
/// vehicle-bound marker jobs (a vehicle-bound single has a vehicle id dimension), each sorted
pub fn reread(solution: &CoreSolution) -> Value {
    let mut tours = vec![];
    for route in solution.routes.iter() {
        let dimens = &route.actor.vehicle.dimens;
        let mut acts = vec![];
        for a in route.tour.all_activities() {
            let Some(single) = a.job.as_ref() else { continue };
            let job = a.retrieve_job().unwrap();
            let task = match Multi::roots(single) {
                Some(multi) => multi.jobs.iter().position(|s| Arc::ptr_eq(s, single)).unwrap_or(usize::MAX),
                None => 0,
            };
            acts.push(json!({"job": job.dimens().get_job_id().cloned().unwrap_or_default(), "task": task,
                             "place": a.place.idx, "loc": a.place.location}));
        }
        tours.push(json!({
            "vehicle": dimens.get_vehicle_id().cloned().unwrap_or_default(),
            "shift": dimens.get_shift_index().copied().unwrap_or_default(),
            "acts": acts,
        }));
    }
    let ids = |bound: bool| -> Vec<String> {
        let mut v: Vec<String> = solution
            .unassigned
            .iter()
            .filter(|(job, _)| job.dimens().get_vehicle_id().is_some() == bound)
            .map(|(job, _)| job.dimens().get_job_id().cloned().unwrap_or_default())
            .collect();
        v.sort();
        v
    };
    json!({"tours": tours, "unassigned": ids(false), "unused_bound": ids(true)})
}

/// the modelled part of the written document: stops with their activities, written unassigned ids
fn written(sol_json: &Value) -> Value {
    let s = simplify_solution(sol_json);
    let tours: Vec<Value> = s["tours"]
        .as_array()
        .unwrap()
        .iter()
        .map(|t| {
            let stops: Vec<Value> = t["stops"]
                .as_array()
                .unwrap()
                .iter()
                .map(|st| {
                    let acts: Vec<Value> = st["activities"]
                        .as_array()
                        .unwrap()
                        .iter()
                        .map(|a| {
                            json!({"jobId": a["jobId"], "type": a["type"], "loc": a.get("loc").cloned().unwrap_or(Value::Null),
                                   "time": if a.get("start").is_some() { json!([a["start"], a["end"]]) } else { Value::Null },
                                   "tag": a.get("tag").cloned().unwrap_or(Value::Null)})
                        })
                        .collect();
                    json!({"loc": st.get("loc").cloned().unwrap_or(Value::Null), "arrival": st["arrival"],
                           "departure": st["departure"], "acts": acts})
                })
                .collect();
            json!({"vehicle": t["vehicleId"], "shift": t["shiftIndex"], "stops": stops})
        })
        .collect();
    let unassigned: Vec<Value> = s["unassigned"].as_array().unwrap().iter().map(|u| u["jobId"].clone()).collect();
    json!({"tours": tours, "unassigned": unassigned})
}

fn err_class(e: &str) -> String {
    for (prefix, class) in [
        ("cannot match job", "cannotMatchJob"),
        ("potential double assignment", "doubleAssignment"),
        ("cannot match '", "cannotMatchBound"),
        ("unknown job id", "unknownJob"),
        ("cannot check multi job", "multiTags"),
        ("unknown activity type", "unknownType"),
        ("transit property", "transit"),
        ("commute property", "commute"),
        ("cannot get job id for", "unknownUnassigned"),
        ("empty tour", "emptyTour"),
    ] {
        if e.starts_with(prefix) {
            return class.to_string();
        }
    }
    format!("other: {e}")
}

pub fn read_back(problem: Arc<CoreProblem>, solution_json: &Value) -> Result<CoreSolution, String> {
    let text = serde_json::to_string(solution_json).unwrap();
    read_init_solution(BufReader::new(text.as_bytes()), problem, Arc::new(DefaultRandom::default())).map_err(|e| e.to_string())
}

/// `solve_default` without the rendering step
fn solve_core(problem: Arc<CoreProblem>, generations: usize) -> Result<CoreSolution, String> {
    use vrp_core::prelude::*;
    use vrp_core::rosomaxa::evolution::TelemetryMode;
    let config = VrpConfigBuilder::new(problem.clone())
        .set_environment(quiet_env())
        .set_telemetry_mode(TelemetryMode::None)
        .prebuild()
        .map_err(|e| e.to_string())?
        .with_max_generations(Some(generations))
        .build()
        .map_err(|e| e.to_string())?;
    Solver::new(problem, config).solve().map_err(|e| e.to_string())
}

fn run(problem: Result<Arc<CoreProblem>, Vec<String>>, gens: usize) -> Value {
    let problem = match problem {
        Ok(p) => p,
        Err(codes) => return json!({"invalid": codes}),
    };
    let solution = match solve_core(problem.clone(), gens) {
        Ok(x) => x,
        Err(e) => return json!({"solve_error": e}),
    };
    let mut exact = true;
    let tr = trace(&solution, &mut exact);
    // a schedule at f64::MAX (seen with open shifts without start.latest under a duration limit, not reproducible
    // across processes) is a solver matter, not a document one: `format_time` cannot render it. Not part of C11.
    let out_of_range = solution.routes.iter().any(|r| {
        r.tour.all_activities().any(|a| !(a.schedule.arrival.abs() < 1e15 && a.schedule.departure.abs() < 1e15))
    });
    if out_of_range {
        return json!({"schedule_out_of_range": true, "trace_of_schedule": tr});
    }
    if std::env::var("C11_DEBUG").is_ok() {
        eprintln!("TRACE {}", serde_json::to_string(&tr).unwrap());
    }
    let sol_json = match std::panic::catch_unwind(std::panic::AssertUnwindSafe(|| solution_json(&problem, &solution))) {
        Ok(Ok(j)) => j,
        Ok(Err(e)) => return json!({"write_error": e}),
        Err(e) => {
            let msg = e.downcast_ref::<String>().cloned().or_else(|| e.downcast_ref::<&str>().map(|s| s.to_string())).unwrap_or_default();
            return json!({"panic": format!("write_pragmatic: {msg}"), "trace_of_panic": tr});
        }
    };
    if !exact {
        return json!({"inexact": true});
    }
    let rr = match read_back(problem, &sol_json) {
        Ok(s2) => json!({"ok": reread(&s2)}),
        Err(e) => json!({"err": err_class(&e)}),
    };
    json!({"trace": tr, "written": written(&sol_json), "init_read_ok": rr.get("ok").is_some(), "reread": rr})
}

/// hypothesis of the round trip (the reader's own error message asks for it): the vehicle-bound jobs of one
/// shift carry distinct tags
fn distinct_reload_tags(sp: &mut SProblem) {
    for v in sp.vehicles.iter_mut() {
        for s in v.shifts.iter_mut() {
            if s.reloads.len() > 1 {
                for (i, r) in s.reloads.iter_mut().enumerate() {
                    r.tag = Some(format!("rl{i}"));
                }
            }
        }
    }
}

pub fn gen_cases(rng: &mut Rng, tier: Tier, cases: &mut Vec<Value>) {
    let n = if tier == Tier::Thorough { 3000 } else { 160 };
    for i in 0..n {
        let mut cfg = GenCfg::random(rng);
        cfg.jobs = (3, 10);
        if i % 3 == 0 {
            // the shapes the matcher has to tell apart
            cfg.alt_places = true;
            cfg.multi_jobs = true;
            cfg.tags = true;
            cfg.reloads = i % 2 == 0;
            cfg.breaks = i % 4 == 0;
        }
        let mut sp = gen_problem(rng, &cfg);
        let mut mode = "plain";
        if i % 10 == 9 {
            // out of the hypotheses: alternative places that cannot be told apart (same location, same tag,
            // no windows) — the model must predict what the reader does with them
            mode = "ambiguous";
            for j in sp.jobs.iter_mut() {
                for t in j.tasks.iter_mut() {
                    if t.places.len() == 1 && rng.chance(1, 2) {
                        let mut p = t.places[0].clone();
                        p.dur += 5;
                        if rng.chance(1, 2) {
                            p.tws = vec![];
                        }
                        t.places.insert(rng.usize(0, 1), p);
                    }
                }
            }
        } else if i % 10 == 8 {
            mode = "same-reloads";
        } else {
            distinct_reload_tags(&mut sp);
            // alternative places at one location are told apart by their tags
            for j in sp.jobs.iter_mut() {
                for t in j.tasks.iter_mut() {
                    // (the largest location index must stay in use: the matrix size is checked against it)
                    if t.places.len() == 2 && t.places[1].loc + 1 < sp.n && rng.chance(1, 2) {
                        t.places[1].loc = t.places[0].loc;
                    }
                }
            }
        }
        cases.push(json!({"k": "init", "mode": mode, "sp": sp, "gens": rng.usize(5, 40)}));
    }
}

pub fn exec(case: &Value) -> Value {
    let gens = case["gens"].as_u64().unwrap_or(20) as usize;
    let case = case.clone();
    let r = isolated(1, move || {
        if case.get("sp").is_some() {
            match serde_json::from_value::<SProblem>(case["sp"].clone()) {
                Ok(sp) => run(sp.read(), gens),
                Err(e) => json!({"error": format!("bad sp: {e}")}),
            }
        } else {
            // raw pragmatic documents (required breaks are not expressible in the pragen form)
            let ms: Vec<Value> = case["matrices"].as_array().cloned().unwrap_or_default();
            run(read_pragmatic_json(&case["problem"], &ms), gens)
        }
    });
    match r {
        Ok(v) => v,
        Err(e) => {
            let msg = e.downcast_ref::<String>().cloned().or_else(|| e.downcast_ref::<&str>().map(|s| s.to_string())).unwrap_or_default();
            json!({"panic": msg})
        }
    }
}
