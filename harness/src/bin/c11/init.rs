//! part 2: initial-solution round trip. pragen problem -> solve (inside `isolated(1, …)`, reproducible) ->
//! `write_pragmatic` -> real `read_init_solution` -> job activities with place index per (vehicle, shift) and the
//! customer unassigned set, before and after.

use serde_json::{Value, json};
use std::io::BufReader;
use std::sync::Arc;
use vrp_core::models::problem::{Job, JobIdDimension, Multi, VehicleIdDimension};
use vrp_core::models::{Problem as CoreProblem, Solution as CoreSolution};
use vrp_core::utils::DefaultRandom;
use vrp_pragmatic::format::solution::read_init_solution;
use vrp_pragmatic::format::{JobTypeDimension, ShiftIndexDimension};
use vrp_verif_harness::pragen::*;
use vrp_verif_harness::*;

fn int(f: f64) -> Value {
    if f.fract() == 0. && f.abs() < 9.0e15 { json!(f as i64) } else if f == f64::MAX { json!("max") } else { json!({"f": f}) }
}

/// job activities of a core solution: per route (vehicle id, shift index) the activities that carry a job
pub fn extract(solution: &CoreSolution) -> Value {
    let mut tours = vec![];
    for route in solution.routes.iter() {
        let dimens = &route.actor.vehicle.dimens;
        let mut acts = vec![];
        for a in route.tour.all_activities() {
            let Some(single) = a.job.as_ref() else { continue };
            let job = a.retrieve_job().unwrap();
            let job_id = job.dimens().get_job_id().cloned().unwrap_or_default();
            let task = match Multi::roots(single) {
                Some(multi) => multi.jobs.iter().position(|s| Arc::ptr_eq(s, single)).map(|i| i as i64).unwrap_or(-1),
                None => 0,
            };
            acts.push(json!({
                "job": job_id,
                "type": single.dimens.get_job_type().cloned().unwrap_or_default(),
                "bound": single.dimens.get_vehicle_id().is_some(),
                "task": task,
                "place": a.place.idx,
                "loc": a.place.location,
                "arr": int(a.schedule.arrival),
                "dep": int(a.schedule.departure),
                "tws": int(a.place.time.start),
                "twe": int(a.place.time.end),
                "dur": int(a.place.duration),
            }));
        }
        tours.push(json!({
            "vehicle": dimens.get_vehicle_id().cloned().unwrap_or_default(),
            "shift": dimens.get_shift_index().copied().unwrap_or_default(),
            "acts": acts,
        }));
    }
    let mut unassigned: Vec<String> = solution
        .unassigned
        .iter()
        .filter(|(job, _)| job.dimens().get_vehicle_id().is_none())
        .map(|(job, _)| job.dimens().get_job_id().cloned().unwrap_or_default())
        .collect();
    unassigned.sort();
    // vehicle-bound marker jobs (breaks, reloads) left unassigned: reported separately, not part of the property
    let mut unused_bound: Vec<String> = solution
        .unassigned
        .iter()
        .filter(|(job, _)| job.dimens().get_vehicle_id().is_some())
        .map(|(job, _)| job.dimens().get_job_id().cloned().unwrap_or_default())
        .collect();
    unused_bound.sort();
    let _ = Job::Single;
    json!({"tours": tours, "unassigned": unassigned, "unused_bound": unused_bound})
}

pub fn read_back(problem: Arc<CoreProblem>, solution_json: &Value) -> Result<CoreSolution, String> {
    let text = serde_json::to_string(solution_json).unwrap();
    read_init_solution(BufReader::new(text.as_bytes()), problem, Arc::new(DefaultRandom::default())).map_err(|e| e.to_string())
}

fn run(sp: SProblem, gens: usize) -> Value {
    let problem = match sp.read() {
        Ok(p) => p,
        Err(codes) => return json!({"invalid": codes}),
    };
    let (solution, sol_json) = match solve_default(problem.clone(), quiet_env(), gens) {
        Ok(x) => x,
        Err(e) => return json!({"solve_error": e}),
    };
    let orig = extract(&solution);
    let written = simplify_solution(&sol_json);
    match read_back(problem, &sol_json) {
        Ok(s2) => json!({"orig": orig, "written": written, "init_read_ok": true, "reread": extract(&s2)}),
        Err(e) => json!({"orig": orig, "written": written, "init_read_ok": false, "error": e}),
    }
}

pub fn gen_cases(rng: &mut Rng, tier: Tier, cases: &mut Vec<Value>) {
    let n = if tier == Tier::Thorough { 1500 } else { 60 };
    for _ in 0..n {
        let mut cfg = GenCfg::random(rng);
        cfg.jobs = (3, 10);
        let sp = gen_problem(rng, &cfg);
        cases.push(json!({"k": "init", "sp": sp, "gens": rng.usize(5, 40)}));
    }
}

pub fn exec(case: &Value) -> Value {
    let sp: SProblem = match serde_json::from_value(case["sp"].clone()) {
        Ok(sp) => sp,
        Err(e) => return json!({"error": format!("bad sp: {e}")}),
    };
    let gens = case["gens"].as_u64().unwrap_or(20) as usize;
    match isolated(1, move || run(sp, gens)) {
        Ok(v) => v,
        Err(e) => {
            let msg = e.downcast_ref::<String>().cloned().or_else(|| e.downcast_ref::<&str>().map(|s| s.to_string())).unwrap_or_default();
            json!({"panic": msg})
        }
    }
}
