//! Neutral JSON form (glue): order- and token-kind-preserving JSON tree, tokeniser and printer.

use serde_json::{Value, json};

#[derive(Clone, Debug, PartialEq)]
pub enum Nj {
    Null,
    Bool(bool),
    Int(i128),
    /// float literal: bit pattern of the f64
    Flt(u64),
    Str(String),
    Arr(Vec<Nj>),
    Obj(Vec<(String, Nj)>),
}

impl Nj {
    pub fn to_value(&self) -> Value {
        match self {
            Nj::Null => Value::Null,
            Nj::Bool(b) => json!(b),
            Nj::Int(i) => {
                if *i >= 0 {
                    json!(*i as u64)
                } else {
                    json!(*i as i64)
                }
            }
            Nj::Flt(b) => json!({"f": b}),
            Nj::Str(s) => json!(s),
            Nj::Arr(xs) => Value::Array(xs.iter().map(|x| x.to_value()).collect()),
            Nj::Obj(kvs) => json!({"o": kvs.iter().map(|(k, v)| json!([k, v.to_value()])).collect::<Vec<_>>()}),
        }
    }

    pub fn from_value(v: &Value) -> Option<Nj> {
        Some(match v {
            Value::Null => Nj::Null,
            Value::Bool(b) => Nj::Bool(*b),
            Value::Number(n) => {
                if let Some(u) = n.as_u64() {
                    Nj::Int(u as i128)
                } else {
                    Nj::Int(n.as_i64()? as i128)
                }
            }
            Value::String(s) => Nj::Str(s.clone()),
            Value::Array(xs) => Nj::Arr(xs.iter().map(Nj::from_value).collect::<Option<Vec<_>>>()?),
            Value::Object(m) => {
                if let Some(b) = m.get("f") {
                    Nj::Flt(b.as_u64()?)
                } else {
                    let kvs = m.get("o")?.as_array()?;
                    Nj::Obj(
                        kvs.iter()
                            .map(|kv| Some((kv.get(0)?.as_str()?.to_string(), Nj::from_value(kv.get(1)?)?)))
                            .collect::<Option<Vec<_>>>()?,
                    )
                }
            }
        })
    }

    /// JSON text exactly as serde_json would print the same tokens (compact)
    pub fn render(&self, out: &mut String) {
        match self {
            Nj::Null => out.push_str("null"),
            Nj::Bool(b) => out.push_str(if *b { "true" } else { "false" }),
            Nj::Int(i) => out.push_str(&i.to_string()),
            Nj::Flt(b) => {
                let f = f64::from_bits(*b);
                assert!(f.is_finite(), "non-finite float in a JSON document");
                // serde_json's own float printer (ryu): always a fraction or an exponent
                out.push_str(&serde_json::to_string(&f).unwrap())
            }
            Nj::Str(s) => out.push_str(&serde_json::to_string(s).unwrap()),
            Nj::Arr(xs) => {
                out.push('[');
                for (i, x) in xs.iter().enumerate() {
                    if i > 0 {
                        out.push(',');
                    }
                    x.render(out);
                }
                out.push(']');
            }
            Nj::Obj(kvs) => {
                out.push('{');
                for (i, (k, v)) in kvs.iter().enumerate() {
                    if i > 0 {
                        out.push(',');
                    }
                    out.push_str(&serde_json::to_string(k).unwrap());
                    out.push(':');
                    v.render(out);
                }
                out.push('}');
            }
        }
    }

    pub fn text(&self) -> String {
        let mut s = String::new();
        self.render(&mut s);
        s
    }
}

struct Tok<'a> {
    s: &'a [u8],
    i: usize,
}

impl<'a> Tok<'a> {
    fn ws(&mut self) {
        while self.i < self.s.len() && matches!(self.s[self.i], b' ' | b'\n' | b'\r' | b'\t') {
            self.i += 1;
        }
    }
    fn string(&mut self) -> Result<String, String> {
        let start = self.i;
        self.i += 1;
        while self.i < self.s.len() && self.s[self.i] != b'"' {
            if self.s[self.i] == b'\\' {
                self.i += 1;
            }
            self.i += 1;
        }
        if self.i >= self.s.len() {
            return Err("unterminated string".into());
        }
        self.i += 1;
        let tok = std::str::from_utf8(&self.s[start..self.i]).map_err(|e| e.to_string())?;
        serde_json::from_str::<String>(tok).map_err(|e| e.to_string())
    }
    fn value(&mut self) -> Result<Nj, String> {
        self.ws();
        if self.i >= self.s.len() {
            return Err("eof".into());
        }
        match self.s[self.i] {
            b'n' if self.s[self.i..].starts_with(b"null") => {
                self.i += 4;
                Ok(Nj::Null)
            }
            b't' if self.s[self.i..].starts_with(b"true") => {
                self.i += 4;
                Ok(Nj::Bool(true))
            }
            b'f' if self.s[self.i..].starts_with(b"false") => {
                self.i += 5;
                Ok(Nj::Bool(false))
            }
            b'"' => Ok(Nj::Str(self.string()?)),
            b'[' => {
                self.i += 1;
                let mut xs = vec![];
                self.ws();
                if self.s.get(self.i) == Some(&b']') {
                    self.i += 1;
                    return Ok(Nj::Arr(xs));
                }
                loop {
                    xs.push(self.value()?);
                    self.ws();
                    match self.s.get(self.i) {
                        Some(b',') => self.i += 1,
                        Some(b']') => {
                            self.i += 1;
                            return Ok(Nj::Arr(xs));
                        }
                        _ => return Err("bad array".into()),
                    }
                }
            }
            b'{' => {
                self.i += 1;
                let mut kvs = vec![];
                self.ws();
                if self.s.get(self.i) == Some(&b'}') {
                    self.i += 1;
                    return Ok(Nj::Obj(kvs));
                }
                loop {
                    self.ws();
                    if self.s.get(self.i) != Some(&b'"') {
                        return Err("bad key".into());
                    }
                    let k = self.string()?;
                    self.ws();
                    if self.s.get(self.i) != Some(&b':') {
                        return Err("missing colon".into());
                    }
                    self.i += 1;
                    let v = self.value()?;
                    kvs.push((k, v));
                    self.ws();
                    match self.s.get(self.i) {
                        Some(b',') => self.i += 1,
                        Some(b'}') => {
                            self.i += 1;
                            return Ok(Nj::Obj(kvs));
                        }
                        _ => return Err("bad object".into()),
                    }
                }
            }
            b'-' | b'0'..=b'9' => {
                let start = self.i;
                while self.i < self.s.len() && matches!(self.s[self.i], b'-' | b'+' | b'.' | b'e' | b'E' | b'0'..=b'9') {
                    self.i += 1;
                }
                let tok = std::str::from_utf8(&self.s[start..self.i]).unwrap();
                let is_float = tok.contains(['.', 'e', 'E']);
                if !is_float {
                    // serde_json: an integer literal that fits u64 / i64 is an integer token, otherwise a float
                    if let Ok(i) = tok.parse::<i128>() {
                        if tok != "-0" && i >= i64::MIN as i128 && i <= u64::MAX as i128 {
                            return Ok(Nj::Int(i));
                        }
                    }
                }
                // std's parser is correctly rounded
                let f = tok.parse::<f64>().map_err(|e| e.to_string())?;
                Ok(Nj::Flt(f.to_bits()))
            }
            c => Err(format!("unexpected byte {c}")),
        }
    }
}

pub fn tokenize(text: &str) -> Result<Nj, String> {
    let mut t = Tok { s: text.as_bytes(), i: 0 };
    let v = t.value()?;
    t.ws();
    if t.i != t.s.len() { Err("trailing characters".into()) } else { Ok(v) }
}
