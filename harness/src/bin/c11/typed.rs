//! Typed generators: values of the REAL serde structs of the pragmatic format (compile-time tie to the
//! definitions: a new/renamed field breaks this build). Documents need not be solvable problems — the serde
//! round trip is structural — but every optional field, enum variant and nesting is exercised.

use vrp_pragmatic::format::Location;
use vrp_pragmatic::format::problem::*;
use vrp_pragmatic::format::solution::*;
use vrp_verif_harness::Rng;

pub struct G<'a> {
    pub rng: &'a mut Rng,
    /// floats: true = only "simple" decimals (≤ 15 significant digits, |exp10| ≤ 22: serde_json parses them
    /// exactly); false = arbitrary finite bit patterns
    pub simple: bool,
    /// probability (in 1/8) that an optional thing is present
    pub fill: u64,
}

const STRS: &[&str] = &[
    "job1", "job2", "v1", "v1_1", "car", "truck", "a", "", "type", "index", "null", "x\"y", "back\\slash", "line\nbreak",
    "tab\t", "ünï-cødé", "日本", "\u{1F69A}", "/slash", "\u{7f}", "\u{1}ctl", "tag one", "first", "second",
];

impl<'a> G<'a> {
    pub fn opt<T>(&mut self, f: impl FnOnce(&mut Self) -> T) -> Option<T> {
        if self.rng.below(8) < self.fill { Some(f(self)) } else { None }
    }
    pub fn vec<T>(&mut self, lo: usize, hi: usize, mut f: impl FnMut(&mut Self) -> T) -> Vec<T> {
        let n = self.rng.usize(lo, hi);
        (0..n).map(|_| f(self)).collect()
    }
    pub fn s(&mut self) -> String {
        if self.rng.chance(1, 6) {
            format!("id{}", self.rng.below(1000))
        } else {
            self.rng.pick(STRS).to_string()
        }
    }
    pub fn time(&mut self) -> String {
        if self.rng.chance(1, 12) {
            return self.s();
        }
        vrp_verif_harness::pragen::ts(self.rng.range(0, 2_000_000))
    }
    pub fn f(&mut self) -> f64 {
        if self.simple {
            match self.rng.below(10) {
                0 => 0.0,
                1 => -0.0,
                2 => *self.rng.pick(&[0.1, 1e-7, 123456.789, 1e15, 1e21, 1e22, 0.3, 2.5e-5, 1e16, 4503599627370497.0, 0.001]),
                3 | 4 => self.rng.range(-1_000_000, 1_000_000) as f64,
                5 => self.rng.range(-1_000_000_000_000, 1_000_000_000_000) as f64,
                6 => self.rng.range(0, 100_000) as f64 / 10.,
                7 => self.rng.range(-100_000_000, 100_000_000) as f64 / 1000.,
                8 => self.rng.range(0, 1_000_000_000) as f64 / 10000.,
                _ => self.rng.range(0, 3600) as f64,
            }
        } else {
            // magnitudes 1e-5 … 1e30 (and ±0): the decimal exponent serde_json applies stays within ±22, where its
            // default float parser is within one unit in the last place; beyond that it loses up to 2 (corpus witness)
            let mant = self.rng.next() & 0x000f_ffff_ffff_ffff;
            let sign = self.rng.below(2) << 63;
            let b = match self.rng.below(7) {
                0 | 1 => sign | mant | ((1023 + self.rng.range(-16, 99)) as u64) << 52,
                2 => sign | mant | ((1023 + self.rng.range(-3, 12)) as u64) << 52,
                3 => (self.rng.range(0, 1 << 53) as f64 * 1e-3).to_bits(),
                4 => sign | mant | ((1023 + self.rng.range(53, 63)) as u64) << 52,
                5 => sign | (self.rng.range(1, 1 << 20) as f64 / 7.).to_bits(),
                _ => sign,
            };
            let f = f64::from_bits(b);
            assert!(f.is_finite());
            f
        }
    }
    pub fn i32(&mut self) -> i32 {
        match self.rng.below(8) {
            0 => i32::MAX,
            1 => i32::MIN,
            2 => 0,
            3 => -1,
            _ => self.rng.range(-50, 1000) as i32,
        }
    }
    pub fn i64(&mut self) -> i64 {
        match self.rng.below(10) {
            0 => i64::MAX,
            1 => i64::MIN,
            2 => 0,
            3 => -1,
            4 => (1 << 53) + 1,
            5 => 1,
            _ => self.rng.range(0, 100_000),
        }
    }
    pub fn usize(&mut self) -> usize {
        match self.rng.below(10) {
            0 => usize::MAX,
            1 => 0,
            2 => (1 << 63) + 5,
            3 | 4 => 1,
            5 => 2,
            _ => self.rng.usize(0, 50),
        }
    }

    pub fn location(&mut self) -> Location {
        match self.rng.below(5) {
            0 | 1 => Location::Coordinate { lat: self.f(), lng: self.f() },
            2 | 3 => Location::Reference { index: self.usize() },
            _ => Location::new_unknown(),
        }
    }

    // ---------------------------------------------------------------- problem

    fn tws(&mut self) -> Vec<Vec<String>> {
        self.vec(0, 3, |g| g.vec(0, 3, |g| g.time()))
    }
    fn job_place(&mut self) -> JobPlace {
        JobPlace { location: self.location(), duration: self.f(), times: self.opt(|g| g.tws()), tag: self.opt(|g| g.s()) }
    }
    fn job_task(&mut self) -> JobTask {
        JobTask {
            places: self.vec(0, 3, |g| g.job_place()),
            demand: self.opt(|g| g.vec(0, 3, |g| g.i32())),
            order: self.opt(|g| g.i32()),
        }
    }
    fn job(&mut self) -> Job {
        Job {
            id: self.s(),
            pickups: self.opt(|g| g.vec(0, 2, |g| g.job_task())),
            deliveries: self.opt(|g| g.vec(0, 2, |g| g.job_task())),
            replacements: self.opt(|g| g.vec(0, 2, |g| g.job_task())),
            services: self.opt(|g| g.vec(0, 2, |g| g.job_task())),
            skills: self.opt(|g| JobSkills {
                all_of: g.opt(|g| g.vec(0, 3, |g| g.s())),
                one_of: g.opt(|g| g.vec(0, 3, |g| g.s())),
                none_of: g.opt(|g| g.vec(0, 3, |g| g.s())),
            }),
            value: self.opt(|g| g.f()),
            group: self.opt(|g| g.s()),
            compatibility: self.opt(|g| g.s()),
        }
    }
    fn relation(&mut self) -> Relation {
        Relation {
            type_field: match self.rng.below(3) {
                0 => RelationType::Any,
                1 => RelationType::Sequence,
                _ => RelationType::Strict,
            },
            jobs: self.vec(0, 4, |g| g.s()),
            vehicle_id: self.s(),
            shift_index: self.opt(|g| g.usize()),
        }
    }
    fn profile(&mut self) -> VehicleProfile {
        VehicleProfile { matrix: self.s(), scale: self.opt(|g| g.f()) }
    }
    fn clustering(&mut self) -> Clustering {
        Clustering::Vicinity {
            profile: self.profile(),
            threshold: VicinityThresholdPolicy {
                duration: self.f(),
                distance: self.f(),
                min_shared_time: self.opt(|g| g.f()),
                smallest_time_window: self.opt(|g| g.f()),
                max_jobs_per_cluster: self.opt(|g| g.usize()),
            },
            visiting: if self.rng.chance(1, 2) { VicinityVisitPolicy::Return } else { VicinityVisitPolicy::Continue },
            serving: match self.rng.below(3) {
                0 => VicinityServingPolicy::Original { parking: self.f() },
                1 => VicinityServingPolicy::Multiplier { value: self.f(), parking: self.f() },
                _ => VicinityServingPolicy::Fixed { value: self.f(), parking: self.f() },
            },
            filtering: self.opt(|g| VicinityFilteringPolicy { exclude_job_ids: g.vec(0, 3, |g| g.s()) }),
        }
    }
    fn vehicle_break(&mut self) -> VehicleBreak {
        match self.rng.below(4) {
            0 | 1 => VehicleBreak::Optional {
                time: if self.rng.chance(1, 2) {
                    VehicleOptionalBreakTime::TimeWindow(self.vec(0, 3, |g| g.time()))
                } else {
                    VehicleOptionalBreakTime::TimeOffset(self.vec(0, 3, |g| g.f()))
                },
                places: self.vec(0, 3, |g| VehicleOptionalBreakPlace {
                    duration: g.f(),
                    location: g.opt(|g| g.location()),
                    tag: g.opt(|g| g.s()),
                }),
                policy: self.opt(|g| {
                    if g.rng.chance(1, 2) {
                        VehicleOptionalBreakPolicy::SkipIfNoIntersection
                    } else {
                        VehicleOptionalBreakPolicy::SkipIfArrivalBeforeEnd
                    }
                }),
            },
            2 => VehicleBreak::Required {
                time: VehicleRequiredBreakTime::ExactTime { earliest: self.time(), latest: self.time() },
                duration: self.f(),
            },
            _ => VehicleBreak::Required {
                time: VehicleRequiredBreakTime::OffsetTime { earliest: self.f(), latest: self.f() },
                duration: self.f(),
            },
        }
    }
    fn shift(&mut self) -> VehicleShift {
        VehicleShift {
            start: ShiftStart { earliest: self.time(), latest: self.opt(|g| g.time()), location: self.location() },
            end: self.opt(|g| ShiftEnd { earliest: g.opt(|g| g.time()), latest: g.time(), location: g.location() }),
            breaks: self.opt(|g| g.vec(0, 3, |g| g.vehicle_break())),
            reloads: self.opt(|g| {
                g.vec(0, 2, |g| VehicleReload {
                    location: g.location(),
                    duration: g.f(),
                    times: g.opt(|g| g.tws()),
                    tag: g.opt(|g| g.s()),
                    resource_id: g.opt(|g| g.s()),
                })
            }),
            recharges: self.opt(|g| VehicleRecharges { max_distance: g.f(), stations: g.vec(0, 2, |g| g.job_place()) }),
        }
    }
    fn vehicle_type(&mut self) -> VehicleType {
        VehicleType {
            type_id: self.s(),
            vehicle_ids: self.vec(0, 3, |g| g.s()),
            profile: self.profile(),
            costs: VehicleCosts { fixed: self.opt(|g| g.f()), distance: self.f(), time: self.f() },
            shifts: self.vec(0, 2, |g| g.shift()),
            capacity: self.vec(0, 3, |g| g.i32()),
            skills: self.opt(|g| g.vec(0, 3, |g| g.s())),
            limits: self.opt(|g| VehicleLimits {
                max_distance: g.opt(|g| g.f()),
                max_duration: g.opt(|g| g.f()),
                tour_size: g.opt(|g| g.usize()),
            }),
        }
    }
    pub fn objective(&mut self, depth: usize) -> Objective {
        match self.rng.below(if depth < 3 { 19 } else { 16 }) {
            0 => Objective::MinimizeCost,
            1 => Objective::MinimizeDistance,
            2 => Objective::MinimizeDuration,
            3 => Objective::MinimizeTours,
            4 => Objective::MaximizeTours,
            5 => Objective::MaximizeValue { breaks: self.opt(|g| g.f()) },
            6 => Objective::MinimizeUnassigned { breaks: self.opt(|g| g.f()) },
            7 => Objective::MinimizeArrivalTime,
            8 => Objective::BalanceMaxLoad,
            9 => Objective::BalanceActivities,
            10 => Objective::BalanceDistance,
            11 => Objective::BalanceDuration,
            12 => Objective::CompactTour { job_radius: self.usize() },
            13 => Objective::TourOrder,
            14 => Objective::FastService,
            15 => Objective::HierarchicalAreas { levels: self.usize() },
            _ => Objective::MultiObjective {
                strategy: if self.rng.chance(1, 2) {
                    MultiStrategy::Sum
                } else {
                    MultiStrategy::WeightedSum { weights: self.vec(0, 3, |g| g.f()) }
                },
                objectives: self.vec(0, 3, |g| g.objective(depth + 1)),
            },
        }
    }
    pub fn problem(&mut self) -> Problem {
        Problem {
            plan: Plan {
                jobs: self.vec(0, 4, |g| g.job()),
                relations: self.opt(|g| g.vec(0, 3, |g| g.relation())),
                clustering: self.opt(|g| g.clustering()),
            },
            fleet: Fleet {
                vehicles: self.vec(0, 3, |g| g.vehicle_type()),
                profiles: self.vec(0, 2, |g| MatrixProfile { name: g.s(), speed: g.opt(|g| g.f()) }),
                resources: self.opt(|g| g.vec(0, 2, |g| VehicleResource::Reload { id: g.s(), capacity: g.vec(0, 3, |g| g.i32()) })),
            },
            objectives: self.opt(|g| g.vec(0, 4, |g| g.objective(0))),
        }
    }
    pub fn matrix(&mut self) -> Matrix {
        Matrix {
            profile: self.opt(|g| g.s()),
            timestamp: self.opt(|g| g.time()),
            travel_times: self.vec(0, 9, |g| g.i64()),
            distances: self.vec(0, 9, |g| g.i64()),
            error_codes: self.opt(|g| g.vec(0, 9, |g| g.i64())),
        }
    }

    // ---------------------------------------------------------------- solution

    fn interval(&mut self) -> Interval {
        Interval { start: self.time(), end: self.time() }
    }
    fn statistic(&mut self) -> Statistic {
        Statistic {
            cost: self.f(),
            distance: self.i64(),
            duration: self.i64(),
            times: Timing {
                driving: self.i64(),
                serving: self.i64(),
                waiting: self.i64(),
                break_time: self.i64(),
                commuting: self.i64(),
                parking: self.i64(),
            },
        }
    }
    fn activity(&mut self) -> Activity {
        Activity {
            job_id: self.s(),
            activity_type: self.rng.pick(&["departure", "arrival", "pickup", "delivery", "service", "replacement", "break", "reload", "recharge", "x"]).to_string(),
            location: self.opt(|g| g.location()),
            time: self.opt(|g| g.interval()),
            job_tag: self.opt(|g| g.s()),
            commute: self.opt(|g| Commute {
                forward: g.opt(|g| CommuteInfo { location: g.location(), distance: g.f(), time: g.interval() }),
                backward: g.opt(|g| CommuteInfo { location: g.location(), distance: g.f(), time: g.interval() }),
            }),
        }
    }
    fn stop(&mut self) -> Stop {
        let time = Schedule { arrival: self.time(), departure: self.time() };
        let load = self.vec(0, 3, |g| g.i32());
        let activities = self.vec(0, 3, |g| g.activity());
        if self.rng.chance(2, 3) {
            Stop::Point(PointStop {
                location: self.location(),
                time,
                distance: self.i64(),
                load,
                parking: self.opt(|g| g.interval()),
                activities,
            })
        } else {
            Stop::Transit(TransitStop { time, load, activities })
        }
    }
    pub fn solution(&mut self) -> Solution {
        Solution {
            statistic: self.statistic(),
            tours: self.vec(0, 3, |g| Tour {
                vehicle_id: g.s(),
                type_id: g.s(),
                shift_index: g.usize(),
                stops: g.vec(0, 4, |g| g.stop()),
                statistic: g.statistic(),
            }),
            unassigned: self.opt(|g| {
                g.vec(0, 3, |g| UnassignedJob {
                    job_id: g.s(),
                    reasons: g.vec(0, 2, |g| UnassignedJobReason {
                        code: g.s(),
                        description: g.s(),
                        details: g.opt(|g| g.vec(0, 2, |g| UnassignedJobDetail { vehicle_id: g.s(), shift_index: g.usize() })),
                    }),
                })
            }),
            violations: self.opt(|g| g.vec(0, 2, |g| Violation::Break { vehicle_id: g.s(), shift_index: g.usize() })),
            extras: self.opt(|g| Extras {
                metrics: g.opt(|g| Metrics {
                    duration: g.usize(),
                    generations: g.usize(),
                    speed: g.f(),
                    evolution: g.vec(0, 2, |g| Generation {
                        number: g.usize(),
                        timestamp: g.f(),
                        i_all_ratio: g.f(),
                        i_1000_ratio: g.f(),
                        is_improvement: g.rng.chance(1, 2),
                        population: Population {
                            individuals: g.vec(0, 2, |g| Individual { difference: g.f(), fitness: g.vec(0, 3, |g| g.f()) }),
                        },
                    }),
                }),
                features: None,
            }),
        }
    }
}
