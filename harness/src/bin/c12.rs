//! C12 — the bundled solution checker accepts valid solutions and rejects injected breaches.
//!
//! A case is one (problem, solution) pair in the simplified integer form of `pragen` plus a list of
//! single-breach mutants (each a small patch of the solution or of the problem, with its class and
//! site; patch fields: `tours`, `set`, `sol` for the solution, `veh`, `rel`, `res` for the problem). Three
//! streams of problems: rotating features, clean structural splits, shared reload resources. `exec` renders every pair to the pragmatic JSON documents, runs the repository's
//! `CheckerContext::check` and reports, per pair, the sorted set of *error codes* (message classes).

use serde_json::{Map, Value, json};
use std::collections::{BTreeMap, BTreeSet};
use std::io::BufReader;
use std::sync::Arc;
use vrp_core::construction::heuristics::{InsertionContext, RouteContext, RouteState, UnassignmentInfo};
use vrp_core::models::Problem as CoreProblem;
use vrp_core::models::Solution as CoreSolution;
use vrp_core::models::common::{Schedule, TimeWindow};
use vrp_core::models::problem::{Actor, Job, JobIdDimension, Multi, Single, VehicleIdDimension};
use vrp_core::models::solution::{Activity, Place as ActivityPlace, Route, Tour};
use vrp_core::rosomaxa::prelude::HeuristicSolution;
use vrp_pragmatic::checker::CheckerContext;
use vrp_pragmatic::format::ShiftIndexDimension;
use vrp_pragmatic::format::problem::{Matrix, Problem as ApiProblem, deserialize_matrix, deserialize_problem};
use vrp_pragmatic::format::solution::deserialize_solution;
use vrp_verif_harness::pragen::*;
use vrp_verif_harness::*;

// ---------------------------------------------------------------------------------------------------
// message -> code

fn code_of(msg: &str) -> &'static str {
    let has = |s: &str| msg.contains(s);
    if has("load exceeds capacity") {
        "load_exceeds"
    } else if has("load mismatch") {
        "load_mismatch"
    } else if has("cannot find resource") || has("consumed more resource") {
        "resource"
    } else if has("cannot find vehicle with id") {
        "no_vehicle"
    } else if has("cannot find shift for tour") {
        "no_shift"
    } else if has("cannot get first activity") || has("cannot get last activity") {
        "no_stops"
    } else if has("cannot find job with id '") {
        "no_job"
    } else if has("cannot find break for tour") {
        "no_break"
    } else if has("cannot find reload for tour") {
        "no_reload"
    } else if has("cannot find recharge for tour") {
        "no_recharge"
    } else if has("unknown activity type") {
        "unknown_type"
    } else if has("multi job activity must have tag") {
        "no_tag"
    } else if has("cannot match activity to job place") {
        "no_place"
    } else if has("cannot find tour for") {
        "rel_no_tour"
    } else if has("relation has unknown job id") {
        "rel_unknown_job"
    } else if has("contains duplicated ids") {
        "rel_dup"
    } else if has("does not follow strict rule") {
        "rel_strict"
    } else if has("does not follow sequence rule") {
        "rel_sequence"
    } else if has("has jobs assigned to another tour") {
        "rel_any"
    } else if has("break visit time") {
        "brk_time"
    } else if has("break location") {
        "brk_loc"
    } else if has("cannot match all breaks") {
        "brk_match"
    } else if has("amount of breaks does not match") {
        "brk_count"
    } else if has("used vehicle with unknown id") {
        "veh_unknown"
    } else if has("used more than once for shift") {
        "veh_dup"
    } else if has("job served in multiple tours") {
        "job_multi_tour"
    } else if has("cannot find job with id") || has("not all tasks served") || has("found pickup after delivery") {
        // these three are found while iterating a hash map: which one is reported first is not deterministic
        "job_tasks"
    } else if has("duplicated job ids in the list of unassigned") {
        "unas_dup"
    } else if has("unknown job id in the list of unassigned") || has("job present as assigned and unassigned") {
        "unas_bad"
    } else if has("amount of jobs present in problem and solution") {
        "job_count"
    } else if has("cannot match activities to jobs") {
        "act_match"
    } else if has("job groups are not respected") {
        "groups"
    } else if has("arrival time mismatch") {
        "rt_arrival"
    } else if has("distance mismatch for tour statistic") {
        "rt_tour_distance"
    } else if has("distance mismatch for") {
        "rt_distance"
    } else if has("duration mismatch for tour statistic") {
        "rt_tour_duration"
    } else if has("solution statistic mismatch") {
        "rt_total"
    } else if has("empty tour") {
        "empty_tour"
    } else if has("no activities in first stop") {
        "no_first_act"
    } else if has("cannot get matrix for") {
        "no_matrix"
    } else if has("cannot find coordinate") {
        "no_coord"
    } else if has("max distance limit violation") {
        "lim_distance"
    } else if has("shift time limit violation") {
        "lim_duration"
    } else if has("tour size limit violation") {
        "lim_size"
    } else if has("tour time is outside shift time") {
        "lim_shift_time"
    } else if has("recharge distance violation") {
        "lim_recharge"
    } else {
        "other"
    }
}

// ---------------------------------------------------------------------------------------------------
// simplified solution -> pragmatic solution JSON

fn ts_opt(t: i64) -> Option<String> {
    if (0..31 * 86400).contains(&t) { Some(ts(t)) } else { None }
}

fn stat_json(s: &Value) -> Value {
    let n = |k: &str| s[k].as_i64().unwrap_or(0);
    json!({"cost": n("cost") as f64, "distance": n("distance"), "duration": n("duration"),
           "times": {"driving": n("driving"), "serving": n("serving"), "waiting": n("waiting"), "break": n("break"),
                     "commuting": n("commuting"), "parking": n("parking")}})
}

/// None when the simplified solution holds something the pragmatic format cannot express here
fn render_solution(sol: &Value) -> Option<Value> {
    let mut tours = vec![];
    for t in sol["tours"].as_array()? {
        let mut stops = vec![];
        for s in t["stops"].as_array()? {
            let mut acts = vec![];
            for a in s["activities"].as_array()? {
                let mut av = json!({"jobId": a["jobId"], "type": a["type"]});
                if let Some(tag) = a.get("tag").filter(|t| !t.is_null()) {
                    av["jobTag"] = tag.clone();
                }
                if let Some(loc) = a.get("loc").filter(|t| !t.is_null()) {
                    av["location"] = json!({"index": loc});
                }
                if let Some(st) = a.get("start").filter(|t| !t.is_null()) {
                    av["time"] = json!({"start": ts_opt(st.as_i64()?)?, "end": ts_opt(a["end"].as_i64()?)?});
                }
                acts.push(av);
            }
            stops.push(json!({
                "location": {"index": s["loc"]},
                "time": {"arrival": ts_opt(s["arrival"].as_i64()?)?, "departure": ts_opt(s["departure"].as_i64()?)?},
                "distance": s["distance"].as_i64()?, "load": s["load"], "activities": acts,
            }));
        }
        tours.push(json!({"vehicleId": t["vehicleId"], "typeId": t["typeId"], "shiftIndex": t["shiftIndex"],
                          "stops": stops, "statistic": stat_json(&t["statistic"])}));
    }
    let unassigned: Vec<Value> = sol["unassigned"]
        .as_array()?
        .iter()
        .map(|u| json!({"jobId": u["jobId"], "reasons": [{"code": "NO_REASON_FOUND", "description": "unknown"}]}))
        .collect();
    let mut out = json!({"statistic": stat_json(&sol["statistic"]), "tours": tours});
    if !unassigned.is_empty() {
        out["unassigned"] = json!(unassigned);
    }
    let violations = sol["violations"].as_array().cloned().unwrap_or_default();
    if !violations.is_empty() {
        out["violations"] = json!(violations);
    }
    Some(out)
}

/// the solution is inside the fragment the model covers: point stops only, no commute/parking, integer numbers
fn in_fragment(sol: &Value) -> bool {
    let s = serde_json::to_string(sol).unwrap();
    !(s.contains("\"transit\"") || s.contains("\"commute\"") || s.contains("\"parking\":true") || s.contains("\"f\":") || s.contains("bad_time"))
}

// ---------------------------------------------------------------------------------------------------
// running the real checker

struct Ctx {
    core: Arc<CoreProblem>,
    matrices: Vec<Matrix>,
}

fn api_problem_of(sp: &SProblem) -> ApiProblem {
    let (pj, _) = sp.to_pragmatic();
    deserialize_problem(BufReader::new(serde_json::to_string(&pj).unwrap().as_bytes())).expect("api problem")
}

fn make_ctx(sp: &SProblem) -> Result<Ctx, Vec<String>> {
    // relations play no role for the indices the checker takes from the core problem
    let mut bare = sp.clone();
    bare.relations.clear();
    let core = bare.read()?;
    let (_, mj) = bare.to_pragmatic();
    let matrices = mj
        .iter()
        .map(|m| deserialize_matrix(BufReader::new(serde_json::to_string(m).unwrap().as_bytes())).expect("matrix"))
        .collect();
    Ok(Ctx { core, matrices })
}

fn verdict(ctx: &Ctx, sp: &SProblem, sol: &Value) -> Value {
    let Some(sj) = render_solution(sol) else { return json!(["unrenderable"]) };
    let r = std::panic::catch_unwind(std::panic::AssertUnwindSafe(|| {
        let api = api_problem_of(sp);
        let solution = match deserialize_solution(BufReader::new(serde_json::to_string(&sj).unwrap().as_bytes())) {
            Ok(s) => s,
            Err(_) => return vec!["undeserializable".to_string()],
        };
        match CheckerContext::new(ctx.core.clone(), api, Some(ctx.matrices.clone()), solution).and_then(|c| c.check()) {
            Ok(()) => vec![],
            Err(errs) => {
                if std::env::var("C12_SHOW").is_ok() {
                    for e in errs.iter() {
                        eprintln!("    checker: {e}");
                    }
                }
                let set: BTreeSet<String> = errs.iter().map(|e| code_of(&e.to_string()).to_string()).collect();
                set.into_iter().collect()
            }
        }
    }));
    match r {
        Ok(codes) => json!(codes),
        Err(_) => json!(["panic"]),
    }
}

// ---------------------------------------------------------------------------------------------------
// patches (the Lean driver applies exactly the same ones)

fn apply_patch(sp: &SProblem, sol: &Value, m: &Value) -> (SProblem, Value) {
    // "sol": the whole solution document is replaced (clean structural mutants re-rendered by the real writer)
    let mut sol = m.get("sol").filter(|s| s.is_object()).unwrap_or(sol).clone();
    if let Some(set) = m.get("set").and_then(|s| s.as_object()) {
        for (k, v) in set {
            sol[k] = v.clone();
        }
    }
    if let Some(ts) = m.get("tours").and_then(|s| s.as_array()) {
        let tours = sol["tours"].as_array_mut().unwrap();
        for p in ts {
            let i = p[0].as_u64().unwrap() as usize;
            if i < tours.len() { tours[i] = p[1].clone() } else { tours.push(p[1].clone()) }
        }
    }
    let mut sp = sp.clone();
    if let Some(vs) = m.get("veh").and_then(|s| s.as_array()) {
        for p in vs {
            sp.vehicles[p[0].as_u64().unwrap() as usize] = serde_json::from_value(p[1].clone()).unwrap();
        }
    }
    if let Some(rel) = m.get("rel") {
        sp.relations = serde_json::from_value(rel.clone()).unwrap();
    }
    // "res": the list of shared resources of the problem is replaced
    if let Some(res) = m.get("res") {
        sp.resources = serde_json::from_value(res.clone()).unwrap();
    }
    (sp, sol)
}

fn exec(case: &Value) -> Value {
    if case["k"] == "transit" {
        return exec_transit(case);
    }
    let sp: SProblem = serde_json::from_value(case["sp"].clone()).expect("sp");
    let ctx = match make_ctx(&sp) {
        Ok(c) => c,
        Err(codes) => return json!({"invalid_problem": codes}),
    };
    let base = verdict(&ctx, &sp, &case["sol"]);
    let muts: Vec<Value> = case["muts"]
        .as_array()
        .map(|ms| {
            ms.iter()
                .map(|m| {
                    let (sp2, sol2) = apply_patch(&sp, &case["sol"], m);
                    verdict(&ctx, &sp2, &sol2)
                })
                .collect()
        })
        .unwrap_or_default();
    json!({"base": base, "muts": muts})
}

// ---------------------------------------------------------------------------------------------------
// generation: problems inside what the checker supports

fn restrict_problem(rng: &mut Rng, sp: &mut SProblem) {
    let n = sp.n;
    for j in sp.jobs.iter_mut() {
        for t in j.tasks.iter_mut() {
            // two places of one task with the same location AND the same tag (or both untagged) cannot be told apart in a
            // solution by anybody: keep such places at different locations
            if t.places.len() == 2 && t.places[0].loc == t.places[1].loc && t.places[0].tag == t.places[1].tag {
                let free: Vec<usize> = (0..n).filter(|l| *l != t.places[0].loc).collect();
                if free.is_empty() {
                    t.places.truncate(1);
                } else {
                    t.places[1].loc = *rng.pick(&free);
                }
            }
        }
    }
    // more places at the depot than pragen makes: a job served at the departure / reload stop is a path of its own
    if rng.chance(1, 4) && !sp.jobs.is_empty() {
        let depot = sp.vehicles[0].shifts[0].start_loc;
        let k = rng.usize(0, sp.jobs.len() - 1);
        if sp.jobs[k].tasks.len() == 1 && sp.jobs[k].tasks[0].places.len() == 1 {
            sp.jobs[k].tasks[0].places[0].loc = depot;
        }
    }
}

fn feature_cfg(rng: &mut Rng, i: usize) -> GenCfg {
    let mut c = GenCfg::random(rng);
    // shared reload resources: only in the streams that ask for them (slot 0 below and the resource stream)
    c.shared_resources = false;
    c.jobs = (4, 11);
    c.compat = false;
    c.values = false;
    // rotate through the features the checker has rules for so that every quick run covers each of them
    match i % 8 {
        0 => {
            c.reloads = true;
            c.multi_jobs = false;
            c.shared_resources = true;
        }
        1 => {
            c.breaks = true;
            c.vehicles_per_type = (1, 2);
        }
        2 => {
            c.limits = true;
        }
        3 => {
            c.multi_jobs = true;
            c.multi_dim = true;
        }
        4 => {
            c.reloads = true;
            c.multi_jobs = true;
            c.breaks = true;
        }
        5 => {
            c.groups = true;
            c.skills = true;
            c.two_profiles = true;
            c.scale = true;
        }
        6 => {
            c.limits = true;
            c.breaks = true;
            c.multi_shift = true;
        }
        _ => {}
    }
    c.tags = c.tags || c.multi_jobs || c.alt_places;
    c
}

fn acts_of(stop: &Value) -> &Vec<Value> {
    stop["activities"].as_array().unwrap()
}

fn is_job_type(t: &str) -> bool {
    matches!(t, "pickup" | "delivery" | "service" | "replacement")
}

fn vehicle_type_index(sp: &SProblem, vid: &str) -> Option<usize> {
    sp.vehicles.iter().position(|v| v.ids.iter().any(|x| x == vid))
}

/// input shapes on which the checker is known to be wrong (open deviations; carried in the corpus instead)
fn hits_open_deviation(_sp: &SProblem, sol: &Value) -> Option<&'static str> {
    for t in sol["tours"].as_array().unwrap() {
        // D11: a reload stop that is the LAST stop does not start a new load interval; jobs served in it after the reload
        // are then counted into the previous interval ("load mismatch")
        if let Some(last) = t["stops"].as_array().unwrap().last() {
            let acts = acts_of(last);
            if acts.first().map(|a| a["type"] == "reload").unwrap_or(false) && acts.iter().any(|a| is_job_type(a["type"].as_str().unwrap())) {
                return Some("last_stop_reload_with_jobs");
            }
        }
        for (si, s) in t["stops"].as_array().unwrap().iter().enumerate() {
            // D9: only the FIRST activity of a stop makes it a reload stop
            let skip = if si == 0 { 0 } else { 1 };
            if acts_of(s).iter().skip(skip).any(|a| a["type"] == "reload") {
                return Some("reload_not_first_in_stop");
            }
        }
    }
    None
}

fn tour_ids(t: &Value) -> Vec<String> {
    t["stops"].as_array().unwrap().iter().flat_map(|s| acts_of(s).iter().map(|a| a["jobId"].as_str().unwrap().to_string())).collect()
}

fn task_count(sp: &SProblem, id: &str) -> Option<usize> {
    sp.jobs.iter().find(|j| j.id == id).map(|j| j.tasks.len())
}

fn is_reserved(id: &str) -> bool {
    matches!(id, "departure" | "arrival" | "break" | "reload")
}

/// relations that hold in the given solution by construction (the documentation asks for consistent relations)
fn derive_relations(rng: &mut Rng, sp: &SProblem, sol: &Value, tails: &[(String, usize, String)]) -> Vec<SRelation> {
    let tours = sol["tours"].as_array().unwrap();
    let mut rels = vec![];
    for t in tours.iter() {
        if !rng.chance(2, 3) {
            continue;
        }
        let ids = tour_ids(t);
        let vid = t["vehicleId"].as_str().unwrap().to_string();
        let shift_index = t["shiftIndex"].as_u64().unwrap() as usize;
        let shift = if shift_index == 0 && rng.chance(1, 2) { None } else { Some(shift_index) };
        let count_in = |xs: &[String], id: &str| xs.iter().filter(|x| x.as_str() == id).count();
        // a `strict` (or `sequence`) relation whose LAST job is the one a drop mutant takes out of this tour
        if let Some((_, _, job)) = tails.iter().find(|(v, s, _)| *v == vid && *s == shift_index) {
            if let Some(b) = ids.iter().rposition(|x| x == job) {
                if rng.chance(5, 6) {
                    let a = rng.usize(b.saturating_sub(4), b);
                    let run = &ids[a..=b];
                    let ok = run.iter().all(|id| is_reserved(id) || task_count(sp, id) == Some(count_in(run, id)));
                    let head_first = ids.iter().position(|x| *x == run[0]) == Some(a);
                    if ok && head_first {
                        let kind = if rng.chance(2, 3) { "strict" } else { "sequence" };
                        rels.push(SRelation { kind: kind.into(), jobs: run.to_vec(), vehicle_id: vid, shift_index: shift });
                        continue;
                    }
                }
            }
        }
        match rng.below(3) {
            0 => {
                // any: a subset of ids, each customer job listed once per task, reserved ids by occurrence
                let mut set: Vec<String> = vec![];
                for id in ids.iter() {
                    if !set.contains(id) && rng.chance(1, 2) {
                        set.push(id.clone());
                    }
                }
                let mut jobs = vec![];
                for id in set.iter() {
                    let k = if is_reserved(id) { rng.usize(1, count_in(&ids, id)) } else { task_count(sp, id).unwrap_or(1) };
                    for _ in 0..k {
                        jobs.push(id.clone());
                    }
                }
                if !jobs.is_empty() {
                    rng.shuffle(&mut jobs);
                    rels.push(SRelation { kind: "any".into(), jobs, vehicle_id: vid, shift_index: shift });
                }
            }
            1 => {
                // sequence: a subsequence of the tour's ids that holds every activity of each chosen customer job;
                // reserved ids (reload, break, departure, arrival) as often as wanted (S29)
                let mut set: Vec<String> = vec![];
                for id in ids.iter() {
                    let full = is_reserved(id) || task_count(sp, id) == Some(count_in(&ids, id));
                    if !set.contains(id) && full && rng.chance(1, 2) {
                        set.push(id.clone());
                    }
                }
                let jobs: Vec<String> =
                    ids.iter().filter(|id| set.contains(id) && (!is_reserved(id) || rng.chance(2, 3))).cloned().collect();
                if !jobs.is_empty() {
                    rels.push(SRelation { kind: "sequence".into(), jobs, vehicle_id: vid, shift_index: shift });
                }
            }
            _ => {
                // strict: a contiguous run in which every customer job has all of its activities
                let a = rng.usize(0, ids.len() - 1);
                let b = rng.usize(a, (a + 5).min(ids.len() - 1));
                let run = &ids[a..=b];
                let ok = run.iter().all(|id| is_reserved(id) || task_count(sp, id) == Some(count_in(run, id)));
                // `intersection` starts at the FIRST occurrence of the run's head in the tour
                let head_first = ids.iter().position(|x| *x == run[0]) == Some(a);
                if ok && head_first {
                    rels.push(SRelation { kind: "strict".into(), jobs: run.to_vec(), vehicle_id: vid, shift_index: shift });
                }
            }
        }
    }
    rels
}

// ---------------------------------------------------------------------------------------------------
// single-breach mutations; every mutant = {cls, site, patch fields}

fn replace_tour(ti: usize, tour: Value) -> Value {
    json!([[ti, tour]])
}

fn stop_loads_max(t: &Value, d: usize) -> i64 {
    t["stops"].as_array().unwrap().iter().map(|s| s["load"][d].as_i64().unwrap_or(0)).max().unwrap_or(0)
}

fn tour_job_activity_count(t: &Value) -> usize {
    t["stops"].as_array().unwrap().iter().map(|s| acts_of(s).len()).sum()
}


// ---------------------------------------------------------------------------------------------------
// shared reload resources: what a solution draws (computed from the documents, independently of the checker)

/// the reload place (of the tour's shift, by location and tag) a reload activity refers to
fn reload_place<'a>(sp: &'a SProblem, t: &Value, stop: &Value, a: &Value) -> Option<&'a SPlace> {
    let vt = vehicle_type_index(sp, t["vehicleId"].as_str()?)?;
    let shift = sp.vehicles[vt].shifts.get(t["shiftIndex"].as_u64()? as usize)?;
    let loc = a.get("loc").and_then(|l| l.as_u64()).or_else(|| stop["loc"].as_u64())? as usize;
    let tag = a.get("tag").and_then(|t| t.as_str());
    shift.reloads.iter().find(|r| r.loc == loc && r.tag.as_deref() == tag)
}

/// demand of a delivery activity whose goods are loaded at the start of the reload interval (job without pickups)
fn static_delivery_demand(sp: &SProblem, a: &Value) -> Option<Vec<i64>> {
    if a["type"] != "delivery" {
        return None;
    }
    let job = sp.jobs.iter().find(|j| j.id == a["jobId"].as_str().unwrap_or(""))?;
    if job.tasks.iter().any(|t| t.kind == "pickup") {
        return None;
    }
    let task = if job.tasks.len() < 2 {
        job.tasks.first()?
    } else {
        let tag = a.get("tag").and_then(|t| t.as_str());
        job.tasks.iter().filter(|t| t.kind == "delivery").find(|t| t.places.iter().any(|p| p.tag.as_deref() == tag))?
    };
    Some(task.demand.clone())
}

/// what all tours together load at the reloads drawing on one resource
#[derive(Default, Clone)]
struct Draw {
    /// per dimension
    total: Vec<i64>,
    /// number of reload intervals drawing on the resource, and the tours they belong to
    intervals: usize,
    tours: BTreeSet<usize>,
}

/// per resource id: what all tours together load at reloads drawing on it, per dimension (`dims` entries)
fn resource_draws(sp: &SProblem, sol: &Value, dims: usize) -> BTreeMap<String, Draw> {
    let mut out = BTreeMap::<String, Draw>::new();
    for (ti, t) in sol["tours"].as_array().unwrap().iter().enumerate() {
        let stops = t["stops"].as_array().unwrap();
        let mut current: Option<String> = None;
        for (si, s) in stops.iter().enumerate() {
            let acts = acts_of(s);
            // a stop whose first activity is a reload opens a new interval unless it is the last stop
            if si + 1 < stops.len() && acts.first().is_some_and(|a| a["type"] == "reload") {
                current = reload_place(sp, t, s, &acts[0]).and_then(|r| r.resource.clone());
                if let Some(id) = current.as_ref() {
                    let e = out.entry(id.clone()).or_insert_with(|| Draw { total: vec![0; dims], ..Draw::default() });
                    e.intervals += 1;
                    e.tours.insert(ti);
                }
            }
            if let Some(id) = current.as_ref() {
                for a in acts.iter() {
                    if let Some(d) = static_delivery_demand(sp, a) {
                        let e = out.get_mut(id).unwrap();
                        for (k, x) in d.iter().enumerate().take(dims) {
                            e.total[k] += x;
                        }
                    }
                }
            }
        }
    }
    out
}

/// mutants of the shared resource rule: patches of `resources` in the PROBLEM only (nothing else changes)
fn resource_mutants(sp: &SProblem, sol: &Value, push: &mut dyn FnMut(&str, String, Value)) {
    let dims = sp.vehicles[0].capacity.len();
    let draws = resource_draws(sp, sol, dims);
    for (id, draw) in draws.iter() {
        let drawn = &draw.total;
        let Some(ri) = sp.resources.iter().position(|r| r.0 == *id) else { continue };
        let with_cap = |cap: Vec<i64>| {
            let mut r = sp.resources.clone();
            r[ri].1 = cap;
            json!({"res": r})
        };
        // boundary that is still valid: the resource holds exactly what is drawn
        push("resource_exact", id.clone(), with_cap(drawn.clone()));
        // overdrawn in every dimension
        if drawn.iter().all(|x| *x >= 1) {
            push("resource_overdrawn", id.clone(), with_cap(drawn.iter().map(|x| x - 1).collect()));
        }
        // overdrawn in ONE dimension only, the others exactly at / above what is drawn
        if dims >= 2 {
            for d in 0..dims {
                if drawn[d] >= 1 {
                    let mut exact = drawn.clone();
                    exact[d] -= 1;
                    push("resource_overdrawn_one_dim", format!("{id}.d{d}.exact"), with_cap(exact));
                    let mut roomy: Vec<i64> = drawn.iter().map(|x| x + 2).collect();
                    roomy[d] = drawn[d] - 1;
                    push("resource_overdrawn_one_dim", format!("{id}.d{d}.roomy"), with_cap(roomy));
                }
            }
        }
        // the resource a reload draws on is not defined by the problem
        let mut r = sp.resources.clone();
        r.remove(ri);
        push("resource_undefined", id.clone(), json!({"res": r}));
    }
}

/// the solution serves at least one reload that draws on a shared resource
fn uses_shared_resource(sp: &SProblem, sol: &Value) -> bool {
    !resource_draws(sp, sol, sp.vehicles[0].capacity.len()).is_empty()
}

/// (most reload intervals drawing on one resource, most tours drawing on one resource)
fn shared_resource_sharing(sp: &SProblem, sol: &Value) -> (usize, usize) {
    let draws = resource_draws(sp, sol, sp.vehicles[0].capacity.len());
    (draws.values().map(|d| d.intervals).max().unwrap_or(0), draws.values().map(|d| d.tours.len()).max().unwrap_or(0))
}

fn mutants(rng: &mut Rng, sp: &SProblem, sol: &Value) -> Vec<Value> {
    let mut out: Vec<Value> = vec![];
    let tours = sol["tours"].as_array().unwrap();
    let n_tours = tours.len();
    let dims = sp.vehicles[0].capacity.len();
    let mut push = |cls: &str, site: String, mut patch: Value| {
        patch["cls"] = json!(cls);
        patch["site"] = json!(site);
        out.push(patch);
    };

    for (ti, t) in tours.iter().enumerate() {
        let stops = t["stops"].as_array().unwrap();
        let vid = t["vehicleId"].as_str().unwrap();
        let vt = vehicle_type_index(sp, vid).unwrap();

        // --- capacity
        for (si, s) in stops.iter().enumerate() {
            for d in 0..dims.min(s["load"].as_array().map(|l| l.len()).unwrap_or(0)) {
                let mut t2 = t.clone();
                let cur = t2["stops"][si]["load"][d].as_i64().unwrap_or(0);
                let delta = if cur > 0 && (si + d) % 3 == 0 { -1 } else { 1 };
                t2["stops"][si]["load"][d] = json!(cur + delta);
                push("load_misreport", format!("t{ti}.s{si}.d{d}"), json!({"tours": replace_tour(ti, t2)}));
            }
        }
        for d in 0..dims {
            let mx = stop_loads_max(t, d);
            if mx >= 1 {
                let mut v = sp.vehicles[vt].clone();
                v.capacity[d] = mx - 1;
                push("load_above_capacity", format!("t{ti}.d{d}"), json!({"veh": [[vt, v]]}));
                // boundary that is still valid: capacity exactly the maximal load
                let mut v = sp.vehicles[vt].clone();
                v.capacity[d] = tours
                    .iter()
                    .filter(|o| vehicle_type_index(sp, o["vehicleId"].as_str().unwrap()) == Some(vt))
                    .map(|o| stop_loads_max(o, d))
                    .max()
                    .unwrap_or(mx);
                push("capacity_exact", format!("t{ti}.d{d}"), json!({"veh": [[vt, v]]}));
            }
        }

        // --- assignment
        for (si, s) in stops.iter().enumerate() {
            for (ai, a) in acts_of(s).iter().enumerate() {
                let ty = a["type"].as_str().unwrap();
                if !is_job_type(ty) {
                    continue;
                }
                let site = format!("t{ti}.s{si}.a{ai}");
                // unknown job
                let mut t2 = t.clone();
                t2["stops"][si]["activities"][ai]["jobId"] = json!("ghost_job");
                push("unknown_job", site.clone(), json!({"tours": replace_tour(ti, t2)}));
                // duplicated job (same tour)
                let mut t2 = t.clone();
                t2["stops"][si]["activities"].as_array_mut().unwrap().insert(ai + 1, a.clone());
                push("duplicated_job", site.clone(), json!({"tours": replace_tour(ti, t2)}));
                // dropped job
                let mut t2 = t.clone();
                t2["stops"][si]["activities"].as_array_mut().unwrap().remove(ai);
                if acts_of(&t2["stops"][si]).is_empty() {
                    t2["stops"].as_array_mut().unwrap().remove(si);
                }
                push("dropped_job", site.clone(), json!({"tours": replace_tour(ti, t2)}));
                // job split over tours: the activity is (also) served by the next tour
                if n_tours >= 2 {
                    let tj = (ti + 1) % n_tours;
                    let mut other = tours[tj].clone();
                    let mut stop = s.clone();
                    stop["activities"] = json!([a]);
                    let ostops = other["stops"].as_array_mut().unwrap();
                    let at = if ostops.last().map(|l| acts_of(l).iter().any(|x| x["type"] == "arrival")).unwrap_or(false) {
                        ostops.len() - 1
                    } else {
                        ostops.len()
                    };
                    ostops.insert(at, stop);
                    let multi = task_count(sp, a["jobId"].as_str().unwrap()).unwrap_or(1) > 1;
                    if multi {
                        // move: remove from the own tour
                        let mut t2 = t.clone();
                        t2["stops"][si]["activities"].as_array_mut().unwrap().remove(ai);
                        if acts_of(&t2["stops"][si]).is_empty() {
                            t2["stops"].as_array_mut().unwrap().remove(si);
                        }
                        push("job_split_over_tours", site.clone(), json!({"tours": [[ti, t2], [tj, other]]}));
                    } else {
                        push("job_split_over_tours", site.clone(), json!({"tours": [[tj, other]]}));
                    }
                }
                // assigned and unassigned
                let mut un = sol["unassigned"].as_array().cloned().unwrap_or_default();
                if !un.iter().any(|u| u["jobId"] == a["jobId"]) {
                    un.push(json!({"jobId": a["jobId"], "reasons": []}));
                    push("assigned_and_unassigned", site.clone(), json!({"set": {"unassigned": un}}));
                }
            }
        }

        // --- routing
        let all_zero = tours.iter().all(|o| o["stops"].as_array().unwrap().iter().all(|s| s["distance"] == 0));
        for (si, s) in stops.iter().enumerate().skip(1) {
            for delta in [2i64, -3] {
                let mut t2 = t.clone();
                t2["stops"][si]["arrival"] = json!(s["arrival"].as_i64().unwrap() + delta);
                if s["arrival"].as_i64().unwrap() + delta >= 0 {
                    push("arrival_shift", format!("t{ti}.s{si}.{delta}"), json!({"tours": replace_tour(ti, t2)}));
                }
            }
            if !all_zero {
                let delta = if si % 2 == 0 { 2 } else { -2 };
                let mut t2 = t.clone();
                t2["stops"][si]["distance"] = json!(s["distance"].as_i64().unwrap() + delta);
                push("distance_shift", format!("t{ti}.s{si}.{delta}"), json!({"tours": replace_tour(ti, t2)}));
            }
        }
        for (si, s) in stops.iter().enumerate() {
            if si + 1 < stops.len() {
                let mut t2 = t.clone();
                t2["stops"][si]["departure"] = json!(s["departure"].as_i64().unwrap() + 4);
                push("departure_shift", format!("t{ti}.s{si}"), json!({"tours": replace_tour(ti, t2)}));
            }
        }
        for (field, delta) in [("distance", 2i64), ("duration", 2), ("distance", -2), ("duration", -2)] {
            if field == "distance" && all_zero {
                continue;
            }
            let cur = t["statistic"][field].as_i64().unwrap();
            if cur + delta < 0 {
                continue;
            }
            // tour statistic alone (the total then differs as well)
            let mut t2 = t.clone();
            t2["statistic"][field] = json!(cur + delta);
            push("statistic_tour", format!("t{ti}.{field}.{delta}"), json!({"tours": replace_tour(ti, t2.clone())}));
            // tour statistic with the total adjusted consistently
            let mut total = sol["statistic"].clone();
            total[field] = json!(total[field].as_i64().unwrap() + delta);
            push("statistic_tour_consistent", format!("t{ti}.{field}.{delta}"), json!({"tours": replace_tour(ti, t2), "set": {"statistic": total}}));
        }

        // --- limits (tighten the problem just below / exactly at what the tour uses)
        let n_acts = tour_job_activity_count(t);
        let shift_index = t["shiftIndex"].as_u64().unwrap() as usize;
        let has_end = sp.vehicles[vt].shifts.get(shift_index).map(|s| s.end.is_some()).unwrap_or(true);
        let size = n_acts.saturating_sub(if has_end { 2 } else { 1 });
        let dist = t["statistic"]["distance"].as_i64().unwrap();
        let dur = t["statistic"]["duration"].as_i64().unwrap();
        let same_type_ok = |f: &dyn Fn(&Value) -> bool| {
            tours.iter().enumerate().all(|(tj, o)| tj == ti || vehicle_type_index(sp, o["vehicleId"].as_str().unwrap()) != Some(vt) || f(o))
        };
        if dist >= 1 {
            let mut v = sp.vehicles[vt].clone();
            v.max_distance = Some(dist - 1);
            push("limit_distance", format!("t{ti}"), json!({"veh": [[vt, v]]}));
            if same_type_ok(&|o| o["statistic"]["distance"].as_i64().unwrap() <= dist) {
                let mut v = sp.vehicles[vt].clone();
                v.max_distance = Some(dist);
                push("limit_distance_exact", format!("t{ti}"), json!({"veh": [[vt, v]]}));
            }
        }
        if dur >= 1 {
            let mut v = sp.vehicles[vt].clone();
            v.max_duration = Some(dur - 1);
            push("limit_duration", format!("t{ti}"), json!({"veh": [[vt, v]]}));
            if same_type_ok(&|o| o["statistic"]["duration"].as_i64().unwrap() <= dur) {
                let mut v = sp.vehicles[vt].clone();
                v.max_duration = Some(dur);
                push("limit_duration_exact", format!("t{ti}"), json!({"veh": [[vt, v]]}));
            }
        }
        if size >= 1 {
            let mut v = sp.vehicles[vt].clone();
            v.tour_size = Some(size - 1);
            push("limit_tour_size", format!("t{ti}"), json!({"veh": [[vt, v]]}));
            let size_of = |o: &Value| {
                let si = o["shiftIndex"].as_u64().unwrap() as usize;
                let he = sp.vehicles[vt].shifts.get(si).map(|s| s.end.is_some()).unwrap_or(true);
                tour_job_activity_count(o).saturating_sub(if he { 2 } else { 1 })
            };
            if same_type_ok(&|o| size_of(o) <= size) {
                let mut v = sp.vehicles[vt].clone();
                v.tour_size = Some(size);
                push("limit_tour_size_exact", format!("t{ti}"), json!({"veh": [[vt, v]]}));
            }
        }

        // --- breaks
        for (si, s) in stops.iter().enumerate() {
            for (ai, a) in acts_of(s).iter().enumerate() {
                if a["type"] != "break" {
                    continue;
                }
                let site = format!("t{ti}.s{si}.a{ai}");
                // visit time moved far outside the window
                let mut t2 = t.clone();
                let st = a.get("start").and_then(|x| x.as_i64()).unwrap_or(s["arrival"].as_i64().unwrap());
                let en = a.get("end").and_then(|x| x.as_i64()).unwrap_or(s["departure"].as_i64().unwrap());
                t2["stops"][si]["activities"][ai]["start"] = json!(st + 20000);
                t2["stops"][si]["activities"][ai]["end"] = json!(en + 20000);
                push("misplaced_break_time", site.clone(), json!({"tours": replace_tour(ti, t2)}));
                // break dropped (the shift still asks for it)
                let mut t2 = t.clone();
                t2["stops"][si]["activities"].as_array_mut().unwrap().remove(ai);
                if acts_of(&t2["stops"][si]).is_empty() {
                    t2["stops"].as_array_mut().unwrap().remove(si);
                }
                push("dropped_break", site.clone(), json!({"tours": replace_tour(ti, t2)}));
                // break reported at another location than any of its places
                let mut t2 = t.clone();
                let here = a.get("loc").and_then(|x| x.as_u64()).unwrap_or(s["loc"].as_u64().unwrap()) as usize;
                // a location the problem knows (unknown indices are a different error)
                let known: BTreeSet<usize> = sp
                    .jobs
                    .iter()
                    .flat_map(|j| j.tasks.iter())
                    .flat_map(|t| t.places.iter().map(|p| p.loc))
                    .chain(sp.vehicles.iter().flat_map(|v| v.shifts.iter().map(|s| s.start_loc)))
                    .collect();
                if let Some(other) = known.iter().find(|l| **l != here) {
                    t2["stops"][si]["activities"][ai]["loc"] = json!(other);
                    push("misplaced_break_location", site.clone(), json!({"tours": replace_tour(ti, t2)}));
                }
            }
        }
    }

    // --- shared reload resources (patch of the problem)
    resource_mutants(sp, sol, &mut push);

    // --- unassigned list
    let un = sol["unassigned"].as_array().cloned().unwrap_or_default();
    {
        let mut u2 = un.clone();
        u2.push(json!({"jobId": "ghost_job", "reasons": []}));
        push("unknown_job", "unassigned".into(), json!({"set": {"unassigned": u2}}));
    }
    for (ui, u) in un.iter().enumerate() {
        let mut u2 = un.clone();
        u2.push(u.clone());
        push("duplicated_job", format!("unassigned.{ui}"), json!({"set": {"unassigned": u2}}));
        let mut u2 = un.clone();
        u2.remove(ui);
        push("dropped_job", format!("unassigned.{ui}"), json!({"set": {"unassigned": u2}}));
    }

    // --- overall statistic
    let all_zero = tours.iter().all(|o| o["stops"].as_array().unwrap().iter().all(|s| s["distance"] == 0));
    for (field, delta) in [("distance", 1i64), ("duration", 1), ("distance", -1), ("duration", -1)] {
        let cur = sol["statistic"][field].as_i64().unwrap();
        if cur + delta < 0 || (all_zero && field == "distance" && false) {
            continue;
        }
        let mut total = sol["statistic"].clone();
        total[field] = json!(cur + delta);
        push("statistic_total", format!("{field}.{delta}"), json!({"set": {"statistic": total}}));
    }

    // --- vehicles
    if n_tours >= 1 {
        let mut t2 = tours[0].clone();
        t2["vehicleId"] = json!("ghost_vehicle");
        push("unknown_vehicle", "t0".into(), json!({"tours": replace_tour(0, t2)}));
    }
    if n_tours >= 2 {
        let mut t2 = tours[1].clone();
        t2["vehicleId"] = tours[0]["vehicleId"].clone();
        t2["typeId"] = tours[0]["typeId"].clone();
        t2["shiftIndex"] = tours[0]["shiftIndex"].clone();
        push("vehicle_used_twice", "t1".into(), json!({"tours": replace_tour(1, t2)}));
    }

    // --- relations (patch of the problem)
    let all_vids: Vec<String> = sp.vehicles.iter().flat_map(|v| v.ids.iter().cloned()).collect();
    for (ti, t) in tours.iter().enumerate() {
        let ids = tour_ids(t);
        let vid = t["vehicleId"].as_str().unwrap().to_string();
        let shift_index = t["shiftIndex"].as_u64().unwrap() as usize;
        let customers: Vec<String> = ids.iter().filter(|i| !is_reserved(i)).cloned().collect();
        let single: Vec<String> = customers.iter().filter(|i| task_count(sp, i) == Some(1)).cloned().collect();
        let with = |extra: SRelation| {
            let mut r = sp.relations.clone();
            r.push(extra);
            json!({"rel": r})
        };
        // broken `any`: a job of this tour is pinned to another vehicle (with a tour / without a tour: S17)
        if let Some(j) = single.first() {
            for other in all_vids.iter().filter(|v| **v != vid) {
                let has_tour = tours.iter().any(|o| o["vehicleId"] == json!(other) && o["shiftIndex"] == 0);
                push(
                    if has_tour { "broken_any_relation" } else { "broken_any_relation_no_tour" },
                    format!("t{ti}.{other}"),
                    with(SRelation { kind: "any".into(), jobs: vec![j.clone()], vehicle_id: other.clone(), shift_index: None }),
                );
            }
            // and the valid one
            push("valid_any_relation", format!("t{ti}"), with(SRelation { kind: "any".into(), jobs: vec![j.clone()], vehicle_id: vid.clone(), shift_index: Some(shift_index) }));
        }
        // broken `sequence`: two different jobs in reversed order
        if single.len() >= 2 {
            let k = rng.usize(0, single.len() - 2);
            if single[k] != single[k + 1] {
                push("broken_sequence_relation", format!("t{ti}.{k}"),
                     with(SRelation { kind: "sequence".into(), jobs: vec![single[k + 1].clone(), single[k].clone()], vehicle_id: vid.clone(), shift_index: Some(shift_index) }));
                push("valid_sequence_relation", format!("t{ti}.{k}"),
                     with(SRelation { kind: "sequence".into(), jobs: vec![single[k].clone(), single[k + 1].clone()], vehicle_id: vid.clone(), shift_index: Some(shift_index) }));
            }
        }
        // broken `strict`: two activities with something between them are declared adjacent
        for k in 0..ids.len().saturating_sub(2) {
            let (a, b, c) = (&ids[k], &ids[k + 1], &ids[k + 2]);
            let okid = |x: &String| x == "departure" || x == "arrival" || task_count(sp, x) == Some(1);
            if okid(a) && okid(c) && a != c && b != a && b != c {
                push("broken_strict_relation", format!("t{ti}.{k}"),
                     with(SRelation { kind: "strict".into(), jobs: vec![a.clone(), c.clone()], vehicle_id: vid.clone(), shift_index: Some(shift_index) }));
                if okid(b) {
                    push("valid_strict_relation", format!("t{ti}.{k}"),
                         with(SRelation { kind: "strict".into(), jobs: vec![a.clone(), b.clone(), c.clone()], vehicle_id: vid.clone(), shift_index: Some(shift_index) }));
                }
            }
        }
    }
    // relation for a job that is listed unassigned or unknown
    out
}

// ---------------------------------------------------------------------------------------------------
// clean structural breach mutants: ONE activity of a multi-task job is moved to another tour inside the core solution
// (other shift of the same vehicle / another vehicle), every cached state is recomputed by the real code
// (`accept_route_state`, `accept_solution_state`) and the document is written by the real writer. Schedules, loads,
// distances and statistics of the variant are therefore consistent; only variants in which the moved activity (and
// everything after it) is still inside its time window, loads stay within capacity and the limits hold are kept, so
// that "a job is served by one tour" is the only rule the variant breaks.

/// the cost is ignored by the checker (and fractional with scaled profiles)
fn zero_cost(sol: &mut Value) {
    sol["statistic"]["cost"] = json!(0);
    for t in sol["tours"].as_array_mut().unwrap() {
        t["statistic"]["cost"] = json!(0);
    }
    // the unassigned list comes out of a hash map: canonical order, so that a seed reproduces its cases
    if let Some(un) = sol["unassigned"].as_array_mut() {
        un.sort_by_key(|u| u["jobId"].as_str().unwrap_or("").to_string());
    }
}

fn render_ctx(problem: &CoreProblem, ctx: &InsertionContext) -> Option<Value> {
    let solution: CoreSolution = ctx.deep_copy().into();
    let json = solution_json(problem, &solution).ok()?;
    let mut sol = simplify_solution(&json);
    zero_cost(&mut sol);
    Some(sol)
}

fn actor_key(actor: &Actor) -> (String, usize) {
    (actor.vehicle.dimens.get_vehicle_id().cloned().unwrap_or_default(), actor.vehicle.dimens.get_shift_index().copied().unwrap_or(0))
}

/// a fresh tour of the route's actor with the route's departure time and all its job activities but the one at `skip`
/// (the public `Tour` API removes whole jobs only)
fn tour_without(route: &Route, skip: usize) -> Tour {
    let mut tour = Tour::new(route.actor.as_ref());
    if let (Some(a), Some(b)) = (tour.get_mut(0), route.tour.start()) {
        a.schedule = b.schedule.clone();
    }
    for (i, a) in route.tour.all_activities().enumerate() {
        if i != skip && a.job.is_some() {
            tour.insert_last(a.deep_copy());
        }
    }
    tour
}

/// route context over the tour with every cached state computed from scratch by the real code
fn fresh_route(problem: &CoreProblem, actor: Arc<Actor>, tour: Tour) -> RouteContext {
    let mut rc = RouteContext::new_with_state(Route { actor, tour }, RouteState::default());
    problem.goal.accept_route_state(&mut rc);
    rc
}

/// every activity after the start is reached not later than its time window (or the shift) ends
fn time_feasible(rc: &RouteContext) -> bool {
    rc.route().tour.all_activities().skip(1).all(|a| a.schedule.arrival <= a.place.time.end)
}

fn sol_tour<'a>(sol: &'a Value, key: &(String, usize)) -> Option<&'a Value> {
    sol["tours"].as_array()?.iter().find(|t| t["vehicleId"] == json!(key.0) && t["shiftIndex"] == json!(key.1))
}

fn tour_has_job(t: &Value, id: &str) -> bool {
    t["stops"].as_array().unwrap().iter().any(|s| acts_of(s).iter().any(|a| a["jobId"] == id && is_job_type(a["type"].as_str().unwrap_or(""))))
}

fn unassigned_ids(sol: &Value) -> Vec<String> {
    let mut ids: Vec<String> =
        sol["unassigned"].as_array().map(|u| u.iter().map(|x| x["jobId"].as_str().unwrap_or("").to_string()).collect()).unwrap_or_default();
    ids.sort();
    ids
}

/// document-level part of the cleanness filter: nothing but the two touched tours changed, the job is in exactly these
/// two tours, reported loads within capacity, limits of the vehicle type respected
fn clean_document(sp: &SProblem, base: &Value, sol: &Value, job: &str, from: &(String, usize), to: &(String, usize)) -> Result<(), &'static str> {
    if !in_fragment(sol) {
        return Err("outside_fragment");
    }
    if hits_open_deviation(sp, sol).is_some() {
        return Err("open_deviation_shape");
    }
    if unassigned_ids(base) != unassigned_ids(sol) || base["violations"] != sol["violations"] {
        return Err("unassigned_changed");
    }
    let tours = sol["tours"].as_array().unwrap();
    let base_tours = base["tours"].as_array().unwrap();
    let key_of = |t: &Value| (t["vehicleId"].as_str().unwrap().to_string(), t["shiftIndex"].as_u64().unwrap() as usize);
    let expected = base_tours.len() + if sol_tour(base, to).is_none() { 1 } else { 0 };
    if tours.len() != expected {
        return Err("tour_count");
    }
    for t in base_tours {
        let k = key_of(t);
        if k != *from && k != *to && sol_tour(sol, &k) != Some(t) {
            return Err("other_tour_changed");
        }
    }
    for t in tours {
        let k = key_of(t);
        if tour_has_job(t, job) != (k == *from || k == *to) {
            return Err("job_not_in_two_tours");
        }
        if k != *from && k != *to {
            continue;
        }
        let Some(vt) = vehicle_type_index(sp, &k.0) else { return Err("no_vehicle_type") };
        let v = &sp.vehicles[vt];
        for (d, cap) in v.capacity.iter().enumerate() {
            if stop_loads_max(t, d) > *cap {
                return Err("over_capacity");
            }
        }
        // a tour of a shift with breaks must carry one (whether a break is due is a rule of its own)
        let shift_breaks = v.shifts.get(k.1).map(|s| !s.breaks.is_empty()).unwrap_or(false);
        let has_break = t["stops"].as_array().unwrap().iter().any(|s| acts_of(s).iter().any(|a| a["type"] == "break"));
        if shift_breaks && !has_break {
            return Err("break_rule_in_play");
        }
        let has_end = v.shifts.get(k.1).map(|s| s.end.is_some()).unwrap_or(true);
        let size = tour_job_activity_count(t).saturating_sub(if has_end { 2 } else { 1 });
        if v.max_distance.is_some_and(|m| t["statistic"]["distance"].as_i64().unwrap_or(i64::MAX) > m)
            || v.max_duration.is_some_and(|m| t["statistic"]["duration"].as_i64().unwrap_or(i64::MAX) > m)
            || v.tour_size.is_some_and(|m| size > m)
        {
            return Err("over_limit");
        }
    }
    Ok(())
}

/// moves the activity `ai` of route `ri` to a tour of `actor`; None when no clean placement was found
#[allow(clippy::too_many_arguments)]
fn try_move(
    rng: &mut Rng,
    sp: &SProblem,
    problem: &Arc<CoreProblem>,
    ctx0: &InsertionContext,
    base: &Value,
    (ri, ai): (usize, usize),
    actor: &Arc<Actor>,
    job_id: &str,
    why: &mut BTreeMap<String, usize>,
) -> Option<Value> {
    let mut note = |w: &str| *why.entry(w.to_string()).or_default() += 1;
    let src = &ctx0.solution.routes[ri];
    let single: Arc<Single> = src.route().tour.get(ai)?.job.clone()?;
    let from = actor_key(src.route().actor.as_ref());
    let to = actor_key(actor.as_ref());
    let src_rc = fresh_route(problem, src.route().actor.clone(), tour_without(src.route(), ai));
    if !time_feasible(&src_rc) {
        note("source_infeasible");
        return None;
    }
    let existing = ctx0.solution.routes.iter().position(|rc| actor_key(rc.route().actor.as_ref()) == to);
    let target_tour = match existing {
        Some(ti) => ctx0.solution.routes[ti].route().tour.deep_copy(),
        None => Tour::new(actor.as_ref()),
    };
    let start = target_tour.start()?;
    let mut departures = vec![start.schedule.departure];
    if start.place.time.start < start.schedule.departure {
        departures.push(start.place.time.start);
    }
    let mut positions: Vec<usize> = (1..=target_tour.job_activity_count() + 1).collect();
    rng.shuffle(&mut positions);
    positions.truncate(8);
    let mut found: Option<RouteContext> = None;
    'search: for dep in departures.iter() {
        for pos in positions.iter() {
            for (pi, place) in single.places.iter().enumerate() {
                let Some(location) = place.location else { continue };
                for span in place.times.iter() {
                    let time: TimeWindow = span.to_time_window(*dep);
                    let mut tour = target_tour.deep_copy();
                    tour.get_mut(0)?.schedule.departure = *dep;
                    tour.insert_at(
                        Activity {
                            place: ActivityPlace { idx: pi, location, duration: place.duration, time },
                            schedule: Schedule::new(0., 0.),
                            job: Some(single.clone()),
                            commute: None,
                        },
                        *pos,
                    );
                    let rc = fresh_route(problem, actor.clone(), tour);
                    if time_feasible(&rc) {
                        found = Some(rc);
                        break 'search;
                    }
                }
            }
        }
    }
    let Some(dst_rc) = found else {
        note("no_time_feasible_place");
        return None;
    };
    let mut ctx = ctx0.deep_copy();
    ctx.solution.routes[ri] = src_rc;
    let di = match existing {
        Some(ti) => {
            ctx.solution.routes[ti] = dst_rc;
            ti
        }
        None => {
            // the vehicle's other shift (or the other vehicle) drives no tour yet: take its route from the registry
            if ctx.solution.registry.get_route(actor).is_none() {
                note("actor_in_use");
                return None;
            }
            ctx.solution.routes.push(dst_rc);
            ctx.solution.routes.len() - 1
        }
    };
    // routes touched through `route_mut` are stale: all their cached state is recomputed, then the solution state
    for i in [ri, di] {
        let _ = ctx.solution.routes[i].route_mut();
        problem.goal.accept_route_state(&mut ctx.solution.routes[i]);
    }
    problem.goal.accept_solution_state(&mut ctx.solution);
    if ctx.solution.routes.len() <= ri.max(di) || !ctx.solution.routes.iter().all(time_feasible) {
        note("infeasible_after_accept");
        return None;
    }
    let sol = render_ctx(problem, &ctx)?;
    match clean_document(sp, base, &sol, job_id, &from, &to) {
        Ok(()) => Some(sol),
        Err(w) => {
            note(w);
            None
        }
    }
}

/// document-level filter for a dropped job: only its tour changed, the job is served nowhere and listed as unassigned,
/// reported loads within capacity, a shift with breaks still carries one, limits respected
fn dropped_document(sp: &SProblem, base: &Value, sol: &Value, job: &str, from: &(String, usize)) -> Result<(), &'static str> {
    if !in_fragment(sol) {
        return Err("outside_fragment");
    }
    if hits_open_deviation(sp, sol).is_some() {
        return Err("open_deviation_shape");
    }
    let mut expected = unassigned_ids(base);
    expected.push(job.to_string());
    expected.sort();
    if expected != unassigned_ids(sol) || base["violations"] != sol["violations"] {
        return Err("unassigned_changed");
    }
    let tours = sol["tours"].as_array().unwrap();
    let base_tours = base["tours"].as_array().unwrap();
    let key_of = |t: &Value| (t["vehicleId"].as_str().unwrap().to_string(), t["shiftIndex"].as_u64().unwrap() as usize);
    if tours.len() != base_tours.len() {
        return Err("tour_count");
    }
    for t in base_tours {
        let k = key_of(t);
        if k != *from && sol_tour(sol, &k) != Some(t) {
            return Err("other_tour_changed");
        }
    }
    for t in tours {
        if tour_has_job(t, job) {
            return Err("job_still_served");
        }
        let k = key_of(t);
        if k != *from {
            continue;
        }
        let Some(vt) = vehicle_type_index(sp, &k.0) else { return Err("no_vehicle_type") };
        let v = &sp.vehicles[vt];
        for (d, cap) in v.capacity.iter().enumerate() {
            if stop_loads_max(t, d) > *cap {
                return Err("over_capacity");
            }
        }
        let shift_breaks = v.shifts.get(k.1).map(|s| !s.breaks.is_empty()).unwrap_or(false);
        let has_break = t["stops"].as_array().unwrap().iter().any(|s| acts_of(s).iter().any(|a| a["type"] == "break"));
        if shift_breaks && !has_break {
            return Err("break_rule_in_play");
        }
        if v.max_distance.is_some_and(|m| t["statistic"]["distance"].as_i64().unwrap_or(i64::MAX) > m)
            || v.max_duration.is_some_and(|m| t["statistic"]["duration"].as_i64().unwrap_or(i64::MAX) > m)
        {
            return Err("over_limit");
        }
    }
    Ok(())
}

/// takes the single-task job served by activity `ai` of route `ri` out of its tour and lists it as unassigned; the
/// document is re-rendered by the real writer. None when what is left is not a clean document
fn try_drop(
    sp: &SProblem,
    problem: &Arc<CoreProblem>,
    ctx0: &InsertionContext,
    base: &Value,
    (ri, ai): (usize, usize),
    job_id: &str,
    why: &mut BTreeMap<String, usize>,
) -> Option<Value> {
    let mut note = |w: &str| *why.entry(format!("drop:{w}")).or_default() += 1;
    let src = &ctx0.solution.routes[ri];
    let single: Arc<Single> = src.route().tour.get(ai)?.job.clone()?;
    let from = actor_key(src.route().actor.as_ref());
    let src_rc = fresh_route(problem, src.route().actor.clone(), tour_without(src.route(), ai));
    if src_rc.route().tour.job_count() == 0 {
        note("tour_would_be_empty");
        return None;
    }
    if !time_feasible(&src_rc) {
        note("source_infeasible");
        return None;
    }
    let mut ctx = ctx0.deep_copy();
    ctx.solution.routes[ri] = src_rc;
    let _ = ctx.solution.routes[ri].route_mut();
    problem.goal.accept_route_state(&mut ctx.solution.routes[ri]);
    ctx.solution.unassigned.insert(Job::Single(single), UnassignmentInfo::Unknown);
    problem.goal.accept_solution_state(&mut ctx.solution);
    if ctx.solution.routes.len() != ctx0.solution.routes.len() || !ctx.solution.routes.iter().all(time_feasible) {
        note("infeasible_after_accept");
        return None;
    }
    let sol = render_ctx(problem, &ctx)?;
    match dropped_document(sp, base, &sol, job_id, &from) {
        Ok(()) => Some(sol),
        Err(w) => {
            note(w);
            None
        }
    }
}

/// clean split mutants of one solved problem: (class, job, target tour, re-rendered solution)
fn clean_splits(
    rng: &mut Rng,
    sp: &SProblem,
    problem: &Arc<CoreProblem>,
    solution: CoreSolution,
    base: &Value,
    caps: (usize, usize),
    why: &mut BTreeMap<String, usize>,
) -> Vec<Value> {
    let ctx0 = InsertionContext::new_from_solution(problem.clone(), (solution, None), quiet_env());
    // the round trip solution -> context -> solution must reproduce the solver's own document
    match render_ctx(problem, &ctx0) {
        Some(again) if again["tours"] == base["tours"] && again["statistic"] == base["statistic"] && unassigned_ids(&again) == unassigned_ids(base) => {}
        _ => {
            *why.entry("round_trip_differs".into()).or_default() += 1;
            return vec![];
        }
    }
    let mut cands: Vec<(usize, usize, String)> = vec![];
    for (ri, rc) in ctx0.solution.routes.iter().enumerate() {
        for (ai, a) in rc.route().tour.all_activities().enumerate() {
            let Some(multi) = a.job.as_ref().and_then(|single| Multi::roots(single)) else { continue };
            let Some(id) = multi.dimens.get_job_id().cloned() else { continue };
            let Some(job) = sp.jobs.iter().find(|j| j.id == id && j.tasks.len() >= 2) else { continue };
            // jobs of a group have a rule of their own ("one tour per group")
            if job.group.is_some() {
                continue;
            }
            // goods of a pickup-and-delivery job travel inside the tour: with the pickup in one tour and the delivery in
            // another the loads are wrong as well (goods left on board at the end / a negative load), so such a split is
            // never a single breach unless the job carries nothing
            let has = |k: &str| job.tasks.iter().any(|t| t.kind == k);
            if has("pickup") && has("delivery") && job.tasks.iter().any(|t| t.demand.iter().any(|d| *d != 0)) {
                *why.entry("pickup_delivery_goods_split".into()).or_default() += 1;
                continue;
            }
            cands.push((ri, ai, id));
        }
    }
    rng.shuffle(&mut cands);
    let mut out = vec![];
    let (mut n_same, mut n_other) = (0, 0);
    for (ri, ai, id) in cands {
        let from = actor_key(ctx0.solution.routes[ri].route().actor.as_ref());
        let same: Vec<Arc<Actor>> = problem.fleet.actors.iter().filter(|a| actor_key(a).0 == from.0 && actor_key(a).1 != from.1).cloned().collect();
        let mut other: Vec<Arc<Actor>> = problem.fleet.actors.iter().filter(|a| actor_key(a).0 != from.0).cloned().collect();
        rng.shuffle(&mut other);
        other.truncate(2);
        let act = ctx0.solution.routes[ri].route().tour.get(ai).unwrap();
        let tag = base_activity_label(sp, &id, act);
        for (cls, actor) in same.iter().map(|a| ("clean_split_same_vehicle", a)).chain(other.iter().map(|a| ("clean_split_other_vehicle", a))) {
            let n = if cls == "clean_split_same_vehicle" { &mut n_same } else { &mut n_other };
            let cap = if cls == "clean_split_same_vehicle" { caps.0 } else { caps.1 };
            if *n >= cap {
                continue;
            }
            if let Some(sol) = try_move(rng, sp, problem, &ctx0, base, (ri, ai), actor, &id, why) {
                *n += 1;
                let to = actor_key(actor.as_ref());
                out.push(json!({"cls": cls, "site": format!("{id}.{tag}:{}#{}->{}#{}", from.0, from.1, to.0, to.1),
                                "job": id, "to": [to.0, to.1], "sol": sol}));
            }
        }
    }
    // dropped jobs: the LAST single-task job of a tour (the tail of whatever relation runs up to the end of the tour) is
    // taken out and listed as unassigned; every other rule still holds, so the document is valid unless a `sequence` or
    // `strict` relation names the job
    let mut n_drop = 0;
    for (ri, rc) in ctx0.solution.routes.iter().enumerate() {
        if n_drop >= 3 {
            break;
        }
        let tour = &rc.route().tour;
        let Some((ai, single)) = tour
            .all_activities()
            .enumerate()
            .filter_map(|(ai, a)| a.job.as_ref().map(|s| (ai, s.clone())))
            .filter(|(_, s)| Multi::roots(s).is_none())
            .last()
        else {
            continue;
        };
        // the last activity with a job may be a marker (reload, break): only customer jobs of the plan are dropped
        let Some(id) = single.dimens.get_job_id().cloned() else { continue };
        let Some(job) = sp.jobs.iter().find(|j| j.id == id && j.tasks.len() == 1) else { continue };
        if job.group.is_some() || tour.all_activities().skip(ai + 1).any(|a| a.job.is_some()) {
            continue;
        }
        let from = actor_key(rc.route().actor.as_ref());
        if let Some(sol) = try_drop(sp, problem, &ctx0, base, (ri, ai), &id, why) {
            n_drop += 1;
            out.push(json!({"cls": "clean_drop_last_job", "site": format!("{id}:{}#{}", from.0, from.1), "job": id,
                            "from": [from.0, from.1], "sol": sol}));
        }
    }
    out
}

/// "<task kind><place index>" of the moved activity (for the site name only)
fn base_activity_label(sp: &SProblem, id: &str, act: &Activity) -> String {
    let job = sp.jobs.iter().find(|j| j.id == id);
    let multi = act.job.as_ref().and_then(|s| Multi::roots(s));
    let ti = multi.and_then(|m| m.jobs.iter().position(|s| act.job.as_ref().is_some_and(|x| Arc::ptr_eq(s, x)))).unwrap_or(0);
    let kind = job.and_then(|j| j.tasks.get(ti)).map(|t| t.kind.clone()).unwrap_or_default();
    format!("{kind}{ti}")
}

/// the relations a clean split leaves in force: those that do not name the split job, and no `strict` run of the
/// tour that received the activity (the insertion may fall inside the run)
fn relations_after_split(sp: &SProblem, m: &Value) -> Vec<SRelation> {
    let job = m["job"].as_str().unwrap_or("");
    let to = (m["to"][0].as_str().unwrap_or("").to_string(), m["to"][1].as_u64().unwrap_or(0) as usize);
    sp.relations
        .iter()
        .filter(|r| !r.jobs.iter().any(|j| j == job))
        .filter(|r| !(r.kind == "strict" && r.vehicle_id == to.0 && r.shift_index.unwrap_or(0) == to.1))
        .cloned()
        .collect()
}

fn solve(sp: &SProblem, generations: usize, vseed: u64, caps: (usize, usize)) -> Option<(Value, Vec<Value>, BTreeMap<String, usize>)> {
    let sp = sp.clone();
    isolated(1, move || {
        let problem = sp.read().ok()?;
        let (solution, json) = solve_default(problem.clone(), quiet_env(), generations).ok()?;
        let mut sol = simplify_solution(&json);
        zero_cost(&mut sol);
        let mut why = BTreeMap::new();
        let clean = if caps == (0, 0) || !in_fragment(&sol) || hits_open_deviation(&sp, &sol).is_some() {
            vec![]
        } else {
            let mut rng = Rng::derived(vseed);
            std::panic::catch_unwind(std::panic::AssertUnwindSafe(|| clean_splits(&mut rng, &sp, &problem, solution, &sol, caps, &mut why)))
                .unwrap_or_default()
        };
        Some((sol, clean, why))
    })
    .ok()
    .flatten()
}

/// problems for the clean split stream: a vehicle type with two shifts, multi-task jobs (pickup+delivery and, for loads
/// that stay physical in both tours, all-delivery / all-pickup jobs) whose places can mostly be visited in either shift
fn split_cfg(rng: &mut Rng) -> GenCfg {
    let mut c = GenCfg::basic();
    c.jobs = (6, 12);
    c.types = (1, 2);
    c.vehicles_per_type = (1, 2);
    c.multi_jobs = true;
    c.tags = true;
    c.multi_shift = true;
    c.multi_dim = rng.chance(1, 3);
    c.two_profiles = rng.chance(1, 4);
    c.limits = rng.chance(1, 5);
    c.alt_places = rng.chance(1, 4);
    c.reloads = rng.chance(1, 6);
    c
}

fn prepare_split_problem(rng: &mut Rng, sp: &mut SProblem) {
    const DAY: i64 = 2500;
    if !sp.vehicles.iter().any(|v| v.shifts.len() >= 2) {
        let v = &mut sp.vehicles[0];
        let mut s = v.shifts[0].clone();
        s.start_earliest += DAY;
        s.start_latest = s.start_latest.map(|t| t + DAY);
        if let Some(e) = s.end.as_mut() {
            e.latest += DAY;
            e.earliest = e.earliest.map(|t| t + DAY);
        }
        for b in s.breaks.iter_mut().filter(|b| !b.offset) {
            b.time = (b.time.0 + DAY, b.time.1 + DAY);
        }
        v.shifts.push(s);
    }
    for j in sp.jobs.iter_mut().filter(|j| j.tasks.len() >= 2) {
        // all deliveries / all pickups: the goods of every task are loaded (unloaded) at the tour's start (end), the loads
        // of a split stay physical in both tours; a pickup-and-delivery job only when it carries nothing
        match rng.below(8) {
            0..=3 => j.tasks.iter_mut().for_each(|t| t.kind = "delivery".into()),
            4 | 5 => j.tasks.iter_mut().for_each(|t| t.kind = "pickup".into()),
            6 => j.tasks.iter_mut().for_each(|t| t.demand.iter_mut().for_each(|d| *d = 0)),
            _ => {}
        }
        for p in j.tasks.iter_mut().flat_map(|t| t.places.iter_mut()) {
            match rng.below(4) {
                0 | 1 => p.tws.clear(),
                2 => p.tws.iter_mut().for_each(|w| *w = (w.0 + DAY, w.1 + DAY)),
                _ => {}
            }
        }
    }
}

/// problems for the shared resource stream: every shift reloads at places that draw on a shared resource
fn resource_cfg(rng: &mut Rng) -> GenCfg {
    let mut c = GenCfg::basic();
    c.jobs = (8, 13);
    c.types = (1, 2);
    c.vehicles_per_type = (1, 2);
    c.reloads = true;
    c.shared_resources = true;
    c.multi_dim = rng.chance(1, 2);
    c.multi_jobs = rng.chance(1, 3);
    c.tags = c.multi_jobs;
    c.multi_shift = rng.chance(1, 5);
    c.breaks = rng.chance(1, 6);
    c.alt_places = false;
    c
}

fn prepare_resource_problem(rng: &mut Rng, sp: &mut SProblem) {
    let dims = sp.vehicles[0].capacity.len();
    // most goods are deliveries (they are what a reload loads) ...
    for j in sp.jobs.iter_mut().filter(|j| j.tasks.len() == 1) {
        if j.tasks[0].kind != "delivery" && rng.chance(2, 3) {
            j.tasks[0].kind = "delivery".into();
        }
        if j.tasks[0].kind == "delivery" && j.tasks[0].demand.iter().all(|d| *d == 0) {
            j.tasks[0].demand = (0..dims).map(|_| rng.range(1, 3)).collect();
        }
    }
    // ... and the vehicles are small, so that a tour reloads more than once and several tours reload
    for v in sp.vehicles.iter_mut() {
        let base = rng.range(4, 6);
        v.capacity = (0..dims).map(|_| base + rng.range(0, 2)).collect();
        v.tour_size = None;
    }
    let two = sp.vehicles.len() >= 2 && rng.chance(1, 3);
    for (vi, v) in sp.vehicles.iter_mut().enumerate() {
        // the second vehicle type may draw on a resource of its own
        let id = if two && vi >= 1 { "res1" } else { "res0" };
        for shift in v.shifts.iter_mut() {
            if shift.reloads.is_empty() {
                shift.reloads.push(SPlace { loc: shift.start_loc, dur: rng.range(0, 20), tws: vec![], tag: Some("rl0".into()), resource: None });
            }
            // one problem in four keeps a reload place that draws on nothing
            let keep_free = rng.chance(1, 4);
            for r in shift.reloads.iter_mut() {
                r.resource = if keep_free && r.resource.is_none() { None } else { Some(id.to_string()) };
            }
            if shift.reloads.iter().all(|r| r.resource.is_none()) {
                shift.reloads[0].resource = Some(id.to_string());
            }
        }
    }
    // capacity of a resource: between one vehicle load and everything there is to deliver (binding / loose)
    let total: Vec<i64> = (0..dims)
        .map(|d| sp.jobs.iter().flat_map(|j| j.tasks.iter()).filter(|t| t.kind == "delivery").map(|t| t.demand.get(d).copied().unwrap_or(0)).sum())
        .collect();
    let used: BTreeSet<String> =
        sp.vehicles.iter().flat_map(|v| v.shifts.iter()).flat_map(|s| s.reloads.iter()).filter_map(|r| r.resource.clone()).collect();
    sp.resources.clear();
    for id in used {
        let cap: Vec<i64> = (0..dims).map(|d| rng.range(sp.vehicles[0].capacity[d], total[d].max(sp.vehicles[0].capacity[d]))).collect();
        sp.resources.push((id, cap));
    }
}

fn gen_cases(rng: &mut Rng, tier: Tier) -> Vec<Value> {
    let n = if tier == Tier::Thorough { 600 } else { 44 };
    let probe = std::env::var("C12_PROBE").is_ok();
    if std::env::var("C12_DEBUG").is_ok() {
        let _ = std::panic::take_hook();
    }
    let mut cases = vec![];
    let mut skipped = BTreeMap::<String, usize>::new();
    // second stream: problems made for clean structural splits (two shifts of one vehicle, multi-task jobs)
    let n_split = if tier == Tier::Thorough { 200 } else { 16 };
    // third stream: problems whose reloads draw on shared resources; only solutions that serve such a reload are kept
    let n_res = if tier == Tier::Thorough { 150 } else { 10 };
    let mut clean_why = BTreeMap::<String, usize>::new();
    let mut clean_count = BTreeMap::<String, usize>::new();
    let mut i = 0;
    let mut attempts = 0;
    while cases.len() < n + n_split + n_res && attempts < (n + n_split + n_res) * 4 {
        attempts += 1;
        let res_stream = cases.len() >= n + n_split;
        let split_stream = cases.len() >= n && !res_stream;
        let cfg = if res_stream { resource_cfg(rng) } else if split_stream { split_cfg(rng) } else { feature_cfg(rng, i) };
        let mut sp = gen_problem(rng, &cfg);
        let raw = std::env::var("C12_PROBE").map(|v| v == "raw").unwrap_or(false);
        if !raw {
            restrict_problem(rng, &mut sp);
        }
        if split_stream {
            prepare_split_problem(rng, &mut sp);
        }
        if res_stream {
            prepare_resource_problem(rng, &mut sp);
        }
        let generations = *rng.pick(&[3usize, 10, 30]);
        // (same vehicle other shift, other vehicle) clean splits kept per case; their random choices do not advance `rng`
        let caps = if probe { (0, 0) } else if split_stream { (6, 3) } else { (3, 2) };
        let Some((sol, clean, why)) = solve(&sp, generations, rng.0 ^ 0xC12C_12C1, caps) else {
            *skipped.entry("unsolved".into()).or_default() += 1;
            continue;
        };
        for (k, v) in why {
            *clean_why.entry(k).or_default() += v;
        }
        if !in_fragment(&sol) {
            *skipped.entry("outside_fragment".into()).or_default() += 1;
            if probe {
                cases.push(json!({"k": "outside_fragment", "sp": sp, "sol": sol, "muts": [], "in_hyp": false}));
            }
            continue;
        }
        if raw || std::env::var("C12_PROBE").map(|v| v == "s29").unwrap_or(false) {
            // development aid: witnesses for the deviations that need unrestricted problems / reserved ids in relations
            for t in sol["tours"].as_array().unwrap() {
                let ids = tour_ids(t);
                let vid = t["vehicleId"].as_str().unwrap().to_string();
                let n_reload = ids.iter().filter(|i| i.as_str() == "reload").count();
                let single_ok = |i: &String| is_reserved(i) || task_count(&sp, i) == Some(1);
                if n_reload >= 2 && ids.iter().all(single_ok) && t["shiftIndex"] == 0 {
                    let upto = ids.iter().position(|i| i == "reload").unwrap() + 2;
                    let mut a = sp.clone();
                    a.relations = vec![SRelation { kind: "sequence".into(), jobs: ids[1..upto.min(ids.len() - 1)].to_vec(), vehicle_id: vid.clone(), shift_index: None }];
                    cases.push(json!({"k": "S29a", "sp": a, "sol": sol, "muts": [], "in_hyp": false}));
                    let mut b = sp.clone();
                    let inner: Vec<String> = ids.iter().filter(|i| i.as_str() != "departure" && i.as_str() != "arrival").cloned().collect();
                    b.relations = vec![SRelation { kind: "sequence".into(), jobs: inner, vehicle_id: vid.clone(), shift_index: None }];
                    cases.push(json!({"k": "S29b", "sp": b, "sol": sol, "muts": [], "in_hyp": false}));
                }
                if sol["tours"].as_array().unwrap().len() >= 2 && ids.len() >= 3 && single_ok(&ids[1]) && t["shiftIndex"] == 0 {
                    let mut c = sp.clone();
                    c.relations = vec![SRelation { kind: "any".into(), jobs: vec!["departure".into(), ids[1].clone()], vehicle_id: vid.clone(), shift_index: None }];
                    cases.push(json!({"k": "S29c", "sp": c, "sol": sol, "muts": [], "in_hyp": false}));
                }
            }
        }
        if let Some(why) = hits_open_deviation(&sp, &sol) {
            *skipped.entry(why.into()).or_default() += 1;
            if probe {
                cases.push(json!({"k": why, "sp": sp, "sol": sol, "muts": [], "in_hyp": false}));
            }
            continue;
        }
        if res_stream && !uses_shared_resource(&sp, &sol) {
            *skipped.entry("shared_resource_unused".into()).or_default() += 1;
            continue;
        }
        // the first half of the stream: a resource that is really shared (two or more reload intervals draw on it)
        if res_stream && cases.len() - n - n_split < n_res / 2 && shared_resource_sharing(&sp, &sol).0 < 2 {
            *skipped.entry("shared_resource_drawn_once".into()).or_default() += 1;
            continue;
        }
        i += 1;
        // tails: the jobs a drop mutant takes out of their tours; half of these tours get a `strict` relation that ends there
        let tails: Vec<(String, usize, String)> = clean
            .iter()
            .filter(|m| m["cls"] == "clean_drop_last_job")
            .map(|m| (m["from"][0].as_str().unwrap_or("").to_string(), m["from"][1].as_u64().unwrap_or(0) as usize, m["job"].as_str().unwrap_or("").to_string()))
            .collect();
        if rng.chance(1, 2) || (!tails.is_empty() && rng.chance(3, 4)) {
            sp.relations = derive_relations(rng, &sp, &sol, &tails);
        }
        let mut muts = if probe { vec![] } else { mutants(rng, &sp, &sol) };
        for mut m in clean {
            let rel = if m["cls"] == "clean_drop_last_job" { sp.relations.clone() } else { relations_after_split(&sp, &m) };
            if rel.len() != sp.relations.len() {
                m["rel"] = json!(rel);
            }
            *clean_count.entry(m["cls"].as_str().unwrap().to_string()).or_default() += 1;
            muts.push(m);
        }
        let stream = if res_stream { "resources" } else if split_stream { "split" } else { "features" };
        cases.push(json!({"k": "solution", "stream": stream, "gens": generations, "shared_resource_used": uses_shared_resource(&sp, &sol),
                          "shared_resource_sharing": json!(shared_resource_sharing(&sp, &sol)),
                          "sp": sp, "sol": sol, "muts": muts}));
    }
    if probe || std::env::var("C12_STATS").is_ok() {
        eprintln!("skipped: {skipped:?}");
        eprintln!("clean splits: {clean_count:?}; dropped candidates: {clean_why:?}");
    }
    // fourth stream: tours with TRANSIT stops (a required break taken on the road). Outside the checker model; judged by the
    // breach clause only: where the checker accepts the solver's document, it rejects the document with the arrival at the
    // transit stop moved inside the break
    let n_transit = if tier == Tier::Thorough { 1200 } else { 200 };
    let mut found = 0;
    let mut tries = 0;
    while found < n_transit && tries < n_transit * 12 {
        tries += 1;
        if let Some(c) = transit_case(rng) {
            cases.push(c);
            found += 1;
        }
    }
    cases
}

/// a generated problem with one required break per shift, solved; kept when some tour takes the break on the road
fn transit_case(rng: &mut Rng) -> Option<Value> {
    let mut cfg = GenCfg::basic();
    cfg.metric = true;
    cfg.jobs = (5, 10);
    cfg.types = (1, 2);
    cfg.vehicles_per_type = (1, 2);
    cfg.time_windows = rng.chance(1, 2);
    let sp = gen_problem(rng, &cfg);
    let (mut pj, mj) = sp.to_pragmatic();
    for (vt, v) in pj["fleet"]["vehicles"].as_array_mut()?.iter_mut().zip(sp.vehicles.iter()) {
        for (shift, s) in vt["shifts"].as_array_mut()?.iter_mut().zip(v.shifts.iter()) {
            let at = s.start_earliest + rng.range(30, 500);
            let dur = rng.range(10, 60);
            if s.end.as_ref().is_none_or(|e| at + dur <= e.latest) {
                shift["breaks"] = json!([{"time": {"earliest": ts(at), "latest": ts(at)}, "duration": dur as f64}]);
            }
        }
    }
    let (p2, m2) = (pj.clone(), mj.clone());
    let doc = isolated(1, move || {
        let problem = read_pragmatic_json(&p2, &m2).ok()?;
        std::panic::catch_unwind(std::panic::AssertUnwindSafe(|| solve_default(problem, quiet_env(), 5))).ok()?.ok().map(|x| x.1)
    })
    .ok()
    .flatten()?;
    let mut muts = vec![];
    for (ti, t) in doc["tours"].as_array()?.iter().enumerate() {
        for (si, st) in t["stops"].as_array()?.iter().enumerate() {
            if st.get("location").is_none() {
                let (a, d) = (parse_ts(st["time"]["arrival"].as_str()?)?, parse_ts(st["time"]["departure"].as_str()?)?);
                if d - a >= 2 {
                    for shift in [1, (d - a) / 2, d - a - 1] {
                        let mut m = doc.clone();
                        m["tours"][ti]["stops"][si]["time"]["arrival"] = json!(ts(a + shift));
                        muts.push(json!({"cls": "transit_arrival_shift", "doc": m}));
                    }
                }
            }
        }
    }
    if muts.is_empty() {
        return None;
    }
    Some(json!({"k": "transit", "problem": pj, "matrices": mj, "doc": doc, "muts": muts}))
}

fn exec_transit(case: &Value) -> Value {
    use vrp_pragmatic::format::problem::PragmaticProblem;
    let pj = serde_json::to_string(&case["problem"]).unwrap();
    let ms: Vec<String> = case["matrices"].as_array().unwrap().iter().map(|m| serde_json::to_string(m).unwrap()).collect();
    let core = match (pj.clone(), ms.clone()).read_pragmatic() {
        Ok(p) => Arc::new(p),
        Err(_) => return json!({"invalid_problem": true}),
    };
    let matrices: Vec<Matrix> = ms.iter().map(|m| deserialize_matrix(BufReader::new(m.as_bytes())).expect("matrix")).collect();
    let check = |doc: &Value| -> Value {
        let r = std::panic::catch_unwind(std::panic::AssertUnwindSafe(|| {
            let api = deserialize_problem(BufReader::new(pj.as_bytes())).expect("api problem");
            let solution = match deserialize_solution(BufReader::new(serde_json::to_string(doc).unwrap().as_bytes())) {
                Ok(s) => s,
                Err(_) => return vec!["undeserializable".to_string()],
            };
            match CheckerContext::new(core.clone(), api, Some(matrices.clone()), solution).and_then(|c| c.check()) {
                Ok(()) => vec![],
                Err(errs) => {
                    let set: BTreeSet<String> = errs.iter().map(|e| code_of(&e.to_string()).to_string()).collect();
                    set.into_iter().collect()
                }
            }
        }));
        match r {
            Ok(codes) => json!(codes),
            Err(_) => json!(["panic"]),
        }
    };
    let base = check(&case["doc"]);
    let muts: Vec<Value> = case["muts"].as_array().unwrap().iter().map(|m| check(&m["doc"])).collect();
    json!({"base": base, "muts": muts})
}

#[allow(dead_code)]
fn unused(_: Map<String, Value>) {}

fn main() {
    run_main(gen_cases, exec);
}
