//! C13 — scientific instance files are read faithfully: generated Solomon / Li&Lim / TSPLIB files (token lines
//! rendered to text with random layout) are fed to the real `read_solomon` / `read_lilim` / `read_tsplib`
//! (String, BufReader and `vrp-cli` `get_formats` entry points), and the resulting core `Problem` is dumped
//! index-free; complete solutions are written with the real text writer and read back with the real
//! initial-solution reader.

use serde_json::{Value, json};
use std::collections::{HashMap, HashSet};
use std::fs::File;
use std::io::{BufReader, BufWriter, Write};
use std::path::PathBuf;
use std::sync::Arc;
use vrp_cli::extensions::solve::formats::get_formats;
use vrp_core::construction::features::{JobDemandDimension, VehicleCapacityDimension};
use vrp_core::construction::heuristics::{
    ActivityContext, BestResultSelector, EvaluationContext, InsertionContext, InsertionPosition, InsertionResult, LegSelection,
    MoveContext, UnassignmentInfo, eval_job_insertion_in_route,
};
use vrp_core::models::common::*;
use vrp_core::models::problem::*;
use vrp_core::models::solution::{Activity, Place as TourPlace, Registry, Route, Tour};
use vrp_core::models::{Problem, Solution};
use vrp_core::prelude::{Environment, GenericError, Random};
use vrp_scientific::common::{CoordIndexExtraProperty, read_init_solution};
use vrp_scientific::lilim::LilimProblem;
use vrp_scientific::solomon::{SolomonProblem, SolomonSolution};
use vrp_scientific::tsplib::{TsplibProblem, TsplibSolution};
use vrp_verif_harness::*;

// ------------------------------------------------------------------------------------------------
// token-level lines and their rendering

#[derive(Clone, Debug)]
enum Line {
    Nums(Vec<i64>),
    Word(String),
    Kv(String, Value),
    /// skipped by the reader; the string is what is rendered
    Text(String),
}

fn line_json(l: &Line) -> Value {
    match l {
        Line::Nums(xs) => json!(xs),
        Line::Word(w) => json!(w),
        Line::Kv(k, v) => json!({"k": k, "v": v}),
        Line::Text(_) => Value::Null,
    }
}

fn ws(rng: &mut Rng, fancy: bool) -> String {
    if !fancy {
        return " ".to_string();
    }
    match rng.below(6) {
        0 => "\t".to_string(),
        1 => "  ".to_string(),
        2 => "      ".to_string(),
        3 => " \t ".to_string(),
        _ => " ".to_string(),
    }
}

fn pad(rng: &mut Rng, fancy: bool) -> String {
    if fancy && rng.chance(1, 3) { ws(rng, true) } else { String::new() }
}

/// integer token as text; `float_ok`: the TSPLIB reader parses f64 and rounds
fn num(rng: &mut Rng, v: i64, fancy: bool, float_ok: bool) -> String {
    if !fancy {
        return v.to_string();
    }
    if float_ok {
        match rng.below(12) {
            0 => format!("{v}.00000"),
            1 => format!("{v}.0"),
            2 => format!("{v}."),
            3 => format!("{:e}", v as f64),
            4 if v >= 0 => format!("+{v}"),
            5 => format!("{}", v as f64 + 0.25),
            6 => format!("{}", v as f64 - 0.25),
            // round() is half away from zero
            7 if v > 0 => format!("{}", v as f64 - 0.5),
            7 if v < 0 => format!("{}", v as f64 + 0.5),
            _ => v.to_string(),
        }
    } else {
        match rng.below(12) {
            0 if v >= 0 => format!("+{v}"),
            1 if v >= 0 => format!("00{v}"),
            _ => v.to_string(),
        }
    }
}

const TEXTS: &[&str] = &[
    "",
    "   ",
    "C101",
    "VEHICLE",
    "NUMBER     CAPACITY",
    "CUSTOMER",
    "CUST NO.  XCOORD.   YCOORD.    DEMAND   READY TIME  DUE DATE   SERVICE   TIME",
    "1 2 3 4 5 6 7",
    "25 200",
    "NAME : toy.vrp",
    "COMMENT : (Augerat et al, No of trucks: 5, Optimal value: 784)",
    "no colon here",
    "\t",
    "-1",
    "EOF",
];

fn render(rng: &mut Rng, lines: &[Line], fancy: bool, float_ok: bool, final_newline: bool) -> String {
    let crlf = fancy && rng.chance(1, 6);
    let mut out = String::new();
    for (i, l) in lines.iter().enumerate() {
        let body = match l {
            Line::Nums(xs) => {
                let mut s = pad(rng, fancy);
                for (k, x) in xs.iter().enumerate() {
                    if k > 0 {
                        s.push_str(&ws(rng, fancy));
                    }
                    // `read_expected_line("-1")` compares the text, not the number
                    let plain = xs.len() == 1 && *x == -1;
                    s.push_str(&num(rng, *x, fancy && !plain, float_ok));
                }
                s.push_str(&pad(rng, fancy));
                s
            }
            Line::Word(w) => format!("{}{}{}", pad(rng, fancy), w, pad(rng, fancy)),
            Line::Kv(k, v) => {
                let vs = match v {
                    Value::String(s) => s.clone(),
                    Value::Number(n) => num(rng, n.as_i64().unwrap(), fancy, true),
                    _ => unreachable!(),
                };
                let (a, b) = if fancy {
                    match rng.below(4) {
                        0 => ("", ""),
                        1 => (" ", ""),
                        2 => ("", " "),
                        _ => (" ", " "),
                    }
                } else {
                    (" ", " ")
                };
                format!("{}{k}{a}:{b}{vs}{}", pad(rng, fancy), pad(rng, fancy))
            }
            Line::Text(t) => t.clone(),
        };
        out.push_str(&body);
        // a last line that renders as nothing only exists if it is terminated
        if i + 1 < lines.len() || final_newline || body.is_empty() {
            out.push_str(if crlf { "\r\n" } else { "\n" });
        }
    }
    out
}

fn text_line(rng: &mut Rng, fancy: bool, default: &str) -> Line {
    Line::Text(if fancy { rng.pick(TEXTS).to_string() } else { default.to_string() })
}

// ------------------------------------------------------------------------------------------------
// instance generators (file-level content; `file` JSON = what the Lean side prints and interprets)

struct Gen {
    k: &'static str,
    lines: Vec<Line>,
    file: Value,
    /// ids the capacity tours are drawn from (job ids as the file names them), with their signed demand
    ids: Vec<(i64, i64)>,
    capacity: i64,
    float_ok: bool,
}

fn coords(rng: &mut Rng, n: usize) -> Vec<(i64, i64)> {
    let (lo, hi) = match rng.below(5) {
        0 => (0, 2),          // many duplicates
        1 => (0, 6),          // some duplicates
        2 => (0, 100),        // solomon-like
        3 => (-50, 50),       // negative coordinates
        _ => (-3000, 3000),   // large
    };
    let mut v: Vec<(i64, i64)> = (0..n).map(|_| (rng.range(lo, hi), rng.range(lo, hi))).collect();
    // plant exact duplicates and perfect-square distances
    for i in 1..n {
        match rng.below(8) {
            0 => v[i] = v[rng.below(i as u64) as usize],
            1 => {
                let b = v[rng.below(i as u64) as usize];
                let (dx, dy) = *rng.pick(&[(3, 4), (4, 3), (5, 12), (0, 7), (6, 0), (8, 15), (1, 1), (1, 2), (2, 2)]);
                v[i] = (b.0 + dx, b.1 - dy);
            }
            _ => {}
        }
    }
    v
}

fn distinct_ids(rng: &mut Rng, n: usize, from: i64) -> Vec<i64> {
    let mut ids: Vec<i64> = match rng.below(4) {
        0 => {
            // sparse
            let mut set = HashSet::new();
            while set.len() < n {
                set.insert(rng.range(from, from + 60));
            }
            let mut v: Vec<i64> = set.into_iter().collect();
            v.sort();
            v
        }
        _ => (0..n as i64).map(|i| from + i).collect(),
    };
    if rng.chance(1, 3) {
        rng.shuffle(&mut ids);
    }
    ids
}

fn n_customers(rng: &mut Rng) -> usize {
    match rng.below(10) {
        0 => 0,
        1 => 1,
        2 => 2,
        _ => rng.usize(3, 8),
    }
}

fn window(rng: &mut Rng) -> (i64, i64) {
    let lo = if rng.chance(1, 4) { 0 } else { rng.range(0, 300) };
    let hi = match rng.below(8) {
        0 => lo,
        1 => lo + 1,
        _ => lo + rng.range(1, 400),
    };
    (lo, hi)
}

fn pick_capacity(rng: &mut Rng, demands: &[i64]) -> i64 {
    let total: i64 = demands.iter().filter(|d| **d > 0).sum();
    let max = demands.iter().copied().max().unwrap_or(0).max(0);
    match rng.below(6) {
        0 => total,
        1 => max,
        2 => 200,
        3 => 0.max(total - 1),
        _ => rng.range(max, total.max(max) + 1),
    }
}

fn gen_solomon(rng: &mut Rng, fancy: bool) -> Gen {
    let n = n_customers(rng);
    let xy = coords(rng, n + 1);
    let ids = distinct_ids(rng, n, 1);
    let demands: Vec<i64> = (0..n).map(|_| if rng.chance(1, 6) { 0 } else { rng.range(1, 40) }).collect();
    let capacity = pick_capacity(rng, &demands);
    let vehicles = rng.range(1, 5);
    let depot_due = rng.range(200, 2000);
    let depot_ready = if rng.chance(1, 5) { rng.range(1, 50) } else { 0 };
    let mut customers = vec![];
    for i in 0..n {
        let (lo, hi) = window(rng);
        let service = if rng.chance(1, 5) { 0 } else { rng.range(1, 90) };
        customers.push(json!({"id": ids[i], "x": xy[i + 1].0, "y": xy[i + 1].1, "demand": demands[i],
                              "start": lo, "stop": hi, "service": service}));
    }
    let mut lines = vec![
        text_line(rng, fancy, "C101"),
        text_line(rng, fancy, ""),
        text_line(rng, fancy, "VEHICLE"),
        text_line(rng, fancy, "NUMBER     CAPACITY"),
        Line::Nums(vec![vehicles, capacity]),
        text_line(rng, fancy, ""),
        text_line(rng, fancy, "CUSTOMER"),
        text_line(rng, fancy, "CUST NO.  XCOORD.   YCOORD.    DEMAND   READY TIME  DUE DATE   SERVICE   TIME"),
        text_line(rng, fancy, ""),
        Line::Nums(vec![0, xy[0].0, xy[0].1, 0, depot_ready, depot_due, 0]),
    ];
    for c in &customers {
        lines.push(Line::Nums(
            ["id", "x", "y", "demand", "start", "stop", "service"].iter().map(|k| c[k].as_i64().unwrap()).collect(),
        ));
    }
    let file = json!({"vehicles": vehicles, "capacity": capacity,
                      "depot": {"x": xy[0].0, "y": xy[0].1, "ready": depot_ready, "due": depot_due},
                      "customers": customers});
    Gen { k: "sol", lines, file, ids: ids.iter().copied().zip(demands.iter().copied()).collect(), capacity, float_ok: false }
}

fn gen_lilim(rng: &mut Rng, fancy: bool) -> Gen {
    let pairs = match rng.below(8) {
        0 => 0,
        1 => 1,
        _ => rng.usize(2, 4),
    };
    let n = 2 * pairs;
    let xy = coords(rng, n + 1);
    let ids = {
        let mut v = distinct_ids(rng, n, 1);
        if rng.chance(1, 2) {
            rng.shuffle(&mut v);
        }
        v
    };
    let amounts: Vec<i64> = (0..pairs).map(|_| rng.range(1, 40)).collect();
    let capacity = pick_capacity(rng, &amounts);
    let vehicles = rng.range(1, 5);
    let depot_due = rng.range(200, 2000);
    let depot_ready = if rng.chance(1, 5) { rng.range(1, 50) } else { 0 };
    // row 2k = pickup of request k, row 2k+1 = its delivery; then permute the rows
    let mut rows = vec![];
    for k in 0..pairs {
        for side in 0..2 {
            let i = 2 * k + side;
            let (lo, hi) = window(rng);
            let service = if rng.chance(1, 5) { 0 } else { rng.range(1, 90) };
            let (demand, p_idx, d_idx) =
                if side == 0 { (amounts[k], 0, ids[i + 1]) } else { (-amounts[k], ids[i - 1], 0) };
            rows.push(json!({"id": ids[i], "x": xy[i + 1].0, "y": xy[i + 1].1, "demand": demand, "start": lo,
                             "stop": hi, "service": service, "pIdx": p_idx, "dIdx": d_idx}));
        }
    }
    match rng.below(3) {
        0 => rows.sort_by_key(|r| r["id"].as_i64().unwrap()),
        1 => rng.shuffle(&mut rows),
        _ => {}
    }
    let mut lines = vec![
        Line::Nums(vec![vehicles, capacity, 1]),
        Line::Nums(vec![0, xy[0].0, xy[0].1, 0, depot_ready, depot_due, 0, 0, 0]),
    ];
    for r in &rows {
        lines.push(Line::Nums(
            ["id", "x", "y", "demand", "start", "stop", "service", "pIdx", "dIdx"]
                .iter()
                .map(|k| r[k].as_i64().unwrap())
                .collect(),
        ));
    }
    let _ = fancy;
    let ids_d = rows.iter().map(|r| (r["id"].as_i64().unwrap(), r["demand"].as_i64().unwrap())).collect();
    let file = json!({"vehicles": vehicles, "capacity": capacity,
                      "depot": {"x": xy[0].0, "y": xy[0].1, "ready": depot_ready, "due": depot_due},
                      "rows": rows});
    Gen { k: "lil", lines, file, ids: ids_d, capacity, float_ok: false }
}

fn gen_tsplib(rng: &mut Rng, fancy: bool) -> Gen {
    let n = n_customers(rng) + 1; // nodes incl. depot
    let xy = coords(rng, n);
    let first_id = if rng.chance(1, 8) { rng.range(0, 3) } else { 1 };
    let ids = distinct_ids(rng, n, first_id);
    let depot_pos = if rng.chance(2, 3) { 0 } else { rng.below(n as u64) as usize };
    let depot = ids[depot_pos];
    let demands: Vec<i64> =
        (0..n).map(|i| if i == depot_pos || rng.chance(1, 6) { 0 } else { rng.range(1, 40) }).collect();
    let capacity = pick_capacity(rng, &demands);
    let nodes: Vec<Value> = (0..n).map(|i| json!([ids[i], xy[i].0, xy[i].1])).collect();
    let mut dem: Vec<Value> = (0..n).map(|i| json!([ids[i], demands[i]])).collect();
    if rng.chance(1, 4) {
        rng.shuffle(&mut dem);
    }
    let mut lines = vec![
        text_line(rng, fancy, "NAME : toy.vrp"),
        text_line(rng, fancy, "COMMENT : toy instance"),
        Line::Kv("TYPE".into(), json!("CVRP")),
        Line::Kv("DIMENSION".into(), json!(n)),
        Line::Kv("EDGE_WEIGHT_TYPE".into(), json!("EUC_2D")),
        Line::Kv("CAPACITY".into(), json!(capacity)),
        Line::Word("NODE_COORD_SECTION".into()),
    ];
    for v in &nodes {
        lines.push(Line::Nums(v.as_array().unwrap().iter().map(|x| x.as_i64().unwrap()).collect()));
    }
    lines.push(Line::Word("DEMAND_SECTION".into()));
    for v in &dem {
        lines.push(Line::Nums(v.as_array().unwrap().iter().map(|x| x.as_i64().unwrap()).collect()));
    }
    lines.push(Line::Word("DEPOT_SECTION".into()));
    lines.push(Line::Nums(vec![depot]));
    lines.push(Line::Nums(vec![-1]));
    lines.push(Line::Word("EOF".into()));
    let file = json!({"capacity": capacity, "nodes": nodes, "demands": dem, "depot": depot});
    let ids_d = (0..n).filter(|i| *i != depot_pos).map(|i| (ids[i], demands[i])).collect();
    Gen { k: "tsp", lines, file, ids: ids_d, capacity, float_ok: true }
}

fn gen_instance(rng: &mut Rng, k: &str, fancy: bool) -> Gen {
    match k {
        "sol" => gen_solomon(rng, fancy),
        "lil" => gen_lilim(rng, fancy),
        _ => gen_tsplib(rng, fancy),
    }
}

/// tours for the capacity oracle: subsets/permutations of the customer ids, biased to sums around the capacity
fn gen_tours(rng: &mut Rng, g: &Gen) -> Vec<Vec<i64>> {
    let mut tours = vec![vec![]];
    if g.ids.is_empty() {
        return tours;
    }
    let all: Vec<i64> = g.ids.iter().map(|p| p.0).collect();
    tours.push(all.clone());
    for _ in 0..6 {
        let mut t = all.clone();
        rng.shuffle(&mut t);
        if g.k == "lil" {
            // mostly pickup-before-delivery orders of whole requests, sometimes arbitrary
            if rng.chance(3, 4) {
                let dem: HashMap<i64, i64> = g.ids.iter().copied().collect();
                t.sort_by_key(|id| if dem[id] > 0 { 0 } else { 1 });
                if rng.chance(1, 2) {
                    // interleave: keep relative order but merge
                    let (p, d): (Vec<i64>, Vec<i64>) = t.iter().partition(|id| dem[id] > 0);
                    t = vec![];
                    let (mut i, mut j) = (0, 0);
                    while i < p.len() || j < d.len() {
                        if i < p.len() && (j >= d.len() || j >= i || rng.chance(1, 2)) {
                            t.push(p[i]);
                            i += 1;
                        } else {
                            t.push(d[j]);
                            j += 1;
                        }
                    }
                }
            }
            let keep = rng.usize(1, t.len());
            t.truncate(keep);
        } else {
            // greedy prefix around the capacity
            let dem: HashMap<i64, i64> = g.ids.iter().copied().collect();
            let mut sum = 0;
            let mut cut = t.len();
            for (i, id) in t.iter().enumerate() {
                sum += dem[id];
                if sum > g.capacity {
                    cut = if rng.chance(1, 2) { i } else { i + 1 };
                    break;
                }
            }
            if rng.chance(1, 4) {
                cut = rng.usize(1, t.len());
            }
            t.truncate(cut.max(1));
        }
        tours.push(t);
    }
    tours
}

fn problem_case(rng: &mut Rng, g: &Gen, lines: &[Line], in_hyp: bool, fancy: bool, with_file: bool) -> Value {
    let final_newline = rng.chance(2, 3);
    let text = render(rng, lines, fancy, g.float_ok, final_newline);
    let tours = if in_hyp { gen_tours(rng, g) } else { vec![] };
    json!({"k": g.k, "rounded": rng.chance(1, 2), "lines": lines.iter().map(line_json).collect::<Vec<_>>(),
           "text": text, "file": if with_file { g.file.clone() } else { Value::Null }, "tours": tours, "in_hyp": in_hyp})
}

/// malformed / unusual variants of a valid file (every numeric position stays numeric: the readers `unwrap`)
fn mutate(rng: &mut Rng, g: &Gen) -> Option<Vec<Line>> {
    let mut ls = g.lines.clone();
    let n = ls.len();
    let nums_idx: Vec<usize> = ls.iter().enumerate().filter(|(_, l)| matches!(l, Line::Nums(_))).map(|(i, _)| i).collect();
    match g.k {
        "sol" => {
            match rng.below(9) {
                0 => {
                    // a customer/depot line loses its last token
                    let i = *rng.pick(&nums_idx[1..]);
                    if let Line::Nums(x) = &mut ls[i] {
                        x.pop();
                    }
                }
                1 => {
                    if let Line::Nums(x) = &mut ls[4] {
                        x.pop();
                    }
                }
                2 => ls.truncate(rng.usize(0, 10)),
                3 => ls.push(Line::Nums(vec![])), // trailing blank line
                4 if n > 11 => ls.insert(rng.usize(11, n - 1), Line::Nums(vec![])),
                5 => {
                    // extra tokens are ignored
                    let i = *rng.pick(&nums_idx);
                    if let Line::Nums(x) = &mut ls[i] {
                        x.push(rng.range(0, 99));
                    }
                }
                6 if n > 11 => {
                    // duplicate row / duplicate id
                    let i = rng.usize(10, n - 1);
                    let mut row = ls[i].clone();
                    if rng.chance(1, 2) {
                        if let Line::Nums(x) = &mut row {
                            x[3] += 1;
                        }
                    }
                    ls.push(row);
                }
                7 if n > 10 => {
                    // negative demand / reversed window
                    let i = rng.usize(10, n - 1);
                    if let Line::Nums(x) = &mut ls[i] {
                        if rng.chance(1, 2) {
                            x[3] = -x[3] - 1;
                        } else {
                            x.swap(4, 5);
                        }
                    }
                }
                _ => {
                    // depot row with non-zero id/demand/service
                    if let Line::Nums(x) = &mut ls[9] {
                        x[0] = 7;
                        x[3] = 5;
                        x[6] = 9;
                    }
                }
            }
        }
        "lil" => match rng.below(9) {
            0 => {
                let i = *rng.pick(&nums_idx);
                if let Line::Nums(x) = &mut ls[i] {
                    x.pop();
                }
            }
            1 => ls.truncate(rng.usize(0, 2.min(n))),
            2 => ls.push(Line::Nums(vec![])),
            3 if n > 2 => {
                // a delivery row nobody points to / a zero-demand row
                let id = 900 + rng.range(0, 9);
                ls.push(Line::Nums(vec![id, 1, 2, if rng.chance(1, 2) { 0 } else { -3 }, 0, 100, 5, 0, 0]));
            }
            4 if n > 2 => {
                // duplicate id: the last row wins
                let i = rng.usize(2, n - 1);
                let mut row = ls[i].clone();
                if let Line::Nums(x) = &mut row {
                    x[1] += 1;
                    x[6] += 1;
                }
                ls.push(row);
            }
            5 if n > 3 => {
                // two pickups name the same delivery
                let picks: Vec<usize> =
                    (2..n).filter(|i| matches!(&ls[*i], Line::Nums(x) if x[3] > 0)).collect();
                if picks.len() >= 2 {
                    let d = if let Line::Nums(x) = &ls[picks[0]] { x[8] } else { 0 };
                    if let Line::Nums(x) = &mut ls[picks[1]] {
                        x[8] = d;
                    }
                } else {
                    return None;
                }
            }
            6 if n > 3 => {
                // a pickup names another pickup as its delivery
                let picks: Vec<usize> =
                    (2..n).filter(|i| matches!(&ls[*i], Line::Nums(x) if x[3] > 0)).collect();
                if picks.len() >= 2 {
                    let d = if let Line::Nums(x) = &ls[picks[0]] { x[0] } else { 0 };
                    if let Line::Nums(x) = &mut ls[picks[1]] {
                        x[8] = d;
                    }
                } else {
                    return None;
                }
            }
            7 if n > 2 => {
                // amounts of the pair differ / pickup column wrong (ignored by the reader)
                let i = rng.usize(2, n - 1);
                if let Line::Nums(x) = &mut ls[i] {
                    if rng.chance(1, 2) {
                        x[3] += if x[3] > 0 { 1 } else { -1 };
                    } else {
                        x[7] += 1;
                    }
                }
            }
            _ => {
                let i = *rng.pick(&nums_idx);
                if let Line::Nums(x) = &mut ls[i] {
                    x.push(rng.range(0, 9));
                }
            }
        },
        _ => {
            let n_nodes = g.file["nodes"].as_array().unwrap().len();
            match rng.below(14) {
                0 => ls[2] = Line::Kv("TYPE".into(), json!(*rng.pick(&["TSP", "ATSP", "cvrp"]))),
                1 => ls[4] = Line::Kv("EDGE_WEIGHT_TYPE".into(), json!(*rng.pick(&["GEO", "EXPLICIT", "ATT"]))),
                2 => ls.swap(3, 5),
                3 => ls[3] = Line::Kv("DIMENSION".into(), json!(n_nodes + rng.usize(1, 2))),
                4 if n_nodes > 1 => ls[3] = Line::Kv("DIMENSION".into(), json!(n_nodes - 1)),
                5 => {
                    let i = rng.usize(2, 6);
                    ls[i] = Line::Word("TYPE".into());
                }
                6 => {
                    // a demand row names another id
                    let i = 8 + n_nodes + rng.below(n_nodes as u64) as usize;
                    if let Line::Nums(x) = &mut ls[i] {
                        x[0] += 100;
                    }
                }
                7 => {
                    let i = n - 3;
                    ls[i] = Line::Nums(vec![777]);
                }
                8 => {
                    let i = *rng.pick(&[n - 2, n - 1]);
                    ls.remove(i);
                }
                9 => {
                    // duplicate node id: later coordinates win, one job less
                    if n_nodes >= 2 {
                        let a = if let Line::Nums(x) = &ls[7] { x[0] } else { 0 };
                        if let Line::Nums(x) = &mut ls[8] {
                            x[0] = a;
                        }
                    } else {
                        return None;
                    }
                }
                10 => {
                    let i = n - 3;
                    ls[i] = Line::Nums(if rng.chance(1, 2) { vec![] } else { vec![1, 2] });
                }
                11 => {
                    let i = *rng.pick(&nums_idx[..2 * n_nodes]);
                    if let Line::Nums(x) = &mut ls[i] {
                        if rng.chance(1, 2) {
                            x.pop();
                        } else {
                            x.push(1);
                        }
                    }
                }
                12 => ls.truncate(rng.usize(0, n - 1)),
                _ => {
                    let i = *rng.pick(&[6, 7 + n_nodes, 8 + 2 * n_nodes]);
                    ls[i] = Line::Word(rng.pick(&["NODE_COORD_SECTION ", "DEMAND", "DEPOT_SECTION", "EOF"]).trim().to_string());
                }
            }
        }
    }
    Some(ls)
}

fn sol_line_json(l: &Option<(i64, Vec<i64>)>) -> Value {
    match l {
        Some((n, ids)) => json!({"n": n, "ids": ids}),
        None => Value::Null,
    }
}

fn render_sol(rng: &mut Rng, lines: &[Option<(i64, Vec<i64>)>]) -> String {
    let crlf = rng.chance(1, 6);
    let mut out = String::new();
    for (i, l) in lines.iter().enumerate() {
        match l {
            Some((n, ids)) => {
                let label = match rng.below(5) {
                    0 => format!("Route  {n} "),
                    1 => format!("Vehicle {n}"),
                    2 => format!("  Route #{n}"),
                    _ => format!("Route {n}"),
                };
                out.push_str(&label);
                out.push(':');
                for id in ids {
                    out.push_str(&ws(rng, true));
                    out.push_str(&id.to_string());
                }
                out.push_str(&pad(rng, true));
            }
            None => out.push_str(*rng.pick(&["Cost 828.94", "", "   ", "# comment", "a:b:c", "Cost 10", "Route 7 2 3"])),
        }
        if i + 1 < lines.len() || rng.chance(1, 2) {
            out.push_str(if crlf { "\r\n" } else { "\n" });
        }
    }
    out
}

fn partition_routes(rng: &mut Rng, ids: &[i64], max_routes: usize) -> Vec<Vec<i64>> {
    let mut ids = ids.to_vec();
    rng.shuffle(&mut ids);
    let k = rng.usize(1, max_routes.max(1));
    let mut routes = vec![vec![]; k];
    for id in ids {
        let r = rng.below(k as u64) as usize;
        routes[r].push(id);
    }
    if rng.chance(3, 4) {
        routes.retain(|r| !r.is_empty());
    }
    routes
}

fn rdist(a: (i64, i64), b: (i64, i64)) -> i64 {
    // only used to steer generated windows towards the boundary; verdicts come from the Lean specification
    let (dx, dy) = ((a.0 - b.0) as f64, (a.1 - b.1) as f64);
    (dx * dx + dy * dy).sqrt().round() as i64
}

const BIG: i64 = 100_000;

/// stream 3: a feasible tour `pre` and a customer `target` whose window / the depot's closing time / the capacity is placed at
/// the boundary of what appending `target` needs; the real constraint evaluation must accept exactly when the file says so
fn gen_bind(rng: &mut Rng, k: &'static str) -> Value {
    let rounded = rng.chance(2, 3);
    let n = rng.usize(1, 6);
    // unrounded mode: all points on one horizontal line, so that every distance is an integer
    let mut xy: Vec<(i64, i64)> = coords(rng, n + 1);
    if !rounded {
        let y = xy[0].1;
        for p in xy.iter_mut() {
            p.1 = y;
        }
    }
    let depot_ready = if rng.chance(1, 4) { rng.range(1, 30) } else { 0 };
    let timed = k != "tsp";
    // tasks: (id, xy, signed demand, ready, due, service)
    let mut ids = distinct_ids(rng, n, 1);
    if k == "tsp" {
        ids = (0..n as i64).map(|i| i + 2).collect();
    }
    let mut tasks: Vec<(i64, (i64, i64), i64, i64, i64, i64)> = (0..n)
        .map(|i| {
            let ready = if !timed { 0 } else if rng.chance(1, 2) { 0 } else { rng.range(0, 250) };
            let service = if !timed || rng.chance(1, 4) { 0 } else { rng.range(1, 40) };
            (ids[i], xy[i + 1], rng.range(1, 20), ready, BIG, service)
        })
        .collect();
    // Li&Lim: tasks 2j, 2j+1 form request j (pickup, delivery); an odd task out gets a partner appended
    let mut partner: HashMap<i64, i64> = HashMap::new();
    if k == "lil" {
        if tasks.len() % 2 == 1 {
            let id = tasks.iter().map(|t| t.0).max().unwrap() + 1;
            let p = if rounded { (rng.range(0, 30), rng.range(0, 30)) } else { (rng.range(0, 30), xy[0].1) };
            tasks.push((id, p, 0, 0, BIG, 0));
        }
        for j in 0..tasks.len() / 2 {
            let q = tasks[2 * j].2;
            tasks[2 * j + 1].2 = -q;
            partner.insert(tasks[2 * j].0, tasks[2 * j + 1].0);
            partner.insert(tasks[2 * j + 1].0, tasks[2 * j].0);
        }
    }
    let n = tasks.len();
    // tour: a random order; Li&Lim: a delivery never before its pickup
    let mut order: Vec<usize> = (0..n).collect();
    rng.shuffle(&mut order);
    if k == "lil" {
        // a delivery (odd index, its pickup is the index before) is moved right behind its pickup if it came first
        let mut seen = HashSet::new();
        let mut out = vec![];
        let mut waiting: Vec<usize> = vec![];
        for &i in &order {
            if tasks[i].2 > 0 {
                seen.insert(i);
                out.push(i);
                if let Some(p) = waiting.iter().position(|w| *w == i + 1) {
                    out.push(waiting.remove(p));
                }
            } else if seen.contains(&(i - 1)) {
                out.push(i);
            } else {
                waiting.push(i);
            }
        }
        order = out;
    }
    let len = rng.usize(1, order.len());
    order.truncate(len);
    let target = order.pop().unwrap();
    let pre = order;
    // schedule of `pre` as the file says
    let (mut t, mut at) = (depot_ready, xy[0]);
    let (mut load, mut max_load, mut total) = (0i64, 0i64, 0i64);
    for &i in &pre {
        let c = tasks[i];
        t = (t + rdist(at, c.1)).max(c.3) + c.5;
        at = c.1;
        load += c.2;
        max_load = max_load.max(load);
        total += c.2;
    }
    let pre_return = t + rdist(at, xy[0]);
    let arr = t + rdist(at, tasks[target].1);
    if timed {
        match rng.below(6) {
            0 => tasks[target].4 = arr - 1,
            1 | 2 => tasks[target].4 = arr,
            3 => tasks[target].4 = arr + 1,
            _ => {}
        }
        match rng.below(4) {
            0 => tasks[target].3 = (arr - rng.range(0, 10)).max(0),
            1 => tasks[target].3 = (arr + rng.range(0, 10)).min(tasks[target].4.max(0)),
            _ => tasks[target].3 = 0,
        }
    }
    let c = tasks[target];
    let end = arr.max(c.3) + c.5 + rdist(c.1, xy[0]);
    let depot_due = if !timed {
        BIG
    } else {
        match rng.below(6) {
            0 => end - 1,
            1 | 2 => end,
            3 => end + 1,
            _ => BIG,
        }
        .max(pre_return)
        .max(tasks.iter().map(|t| t.3).max().unwrap_or(0))
    };
    // capacity at the boundary of what the extended tour needs, but never below what `pre` needs
    let (need_pre, need_all) = if k == "lil" {
        (max_load, max_load.max(load + c.2))
    } else {
        (total, total + c.2)
    };
    let capacity = match rng.below(6) {
        0 => need_all - 1,
        1 | 2 => need_all,
        3 => need_all + 1,
        _ => need_all + rng.range(0, 30),
    }
    .max(need_pre)
    .max(0);
    let vehicles = rng.range(1, 3);
    let id_of = |i: usize| tasks[i].0;
    let (lines, file) = match k {
        "sol" => {
            let customers: Vec<Value> = tasks
                .iter()
                .map(|t| json!({"id": t.0, "x": t.1.0, "y": t.1.1, "demand": t.2, "start": t.3, "stop": t.4, "service": t.5}))
                .collect();
            let mut lines: Vec<Line> = vec![];
            for d in ["C101", "", "VEHICLE", "NUMBER     CAPACITY"] {
                lines.push(Line::Text(d.into()));
            }
            lines.push(Line::Nums(vec![vehicles, capacity]));
            for d in ["", "CUSTOMER", "CUST NO.  XCOORD.   YCOORD.    DEMAND   READY TIME  DUE DATE   SERVICE   TIME", ""] {
                lines.push(Line::Text(d.into()));
            }
            lines.push(Line::Nums(vec![0, xy[0].0, xy[0].1, 0, depot_ready, depot_due, 0]));
            for t in &tasks {
                lines.push(Line::Nums(vec![t.0, t.1.0, t.1.1, t.2, t.3, t.4, t.5]));
            }
            (lines, json!({"vehicles": vehicles, "capacity": capacity,
                           "depot": {"x": xy[0].0, "y": xy[0].1, "ready": depot_ready, "due": depot_due}, "customers": customers}))
        }
        "lil" => {
            let rows: Vec<Value> = tasks
                .iter()
                .map(|t| {
                    let (p, d) = if t.2 > 0 { (0, partner[&t.0]) } else { (partner[&t.0], 0) };
                    json!({"id": t.0, "x": t.1.0, "y": t.1.1, "demand": t.2, "start": t.3, "stop": t.4, "service": t.5, "pIdx": p, "dIdx": d})
                })
                .collect();
            let mut lines = vec![
                Line::Nums(vec![vehicles, capacity, 1]),
                Line::Nums(vec![0, xy[0].0, xy[0].1, 0, depot_ready, depot_due, 0, 0, 0]),
            ];
            for r in &rows {
                lines.push(Line::Nums(
                    ["id", "x", "y", "demand", "start", "stop", "service", "pIdx", "dIdx"].iter().map(|k| r[k].as_i64().unwrap()).collect(),
                ));
            }
            (lines, json!({"vehicles": vehicles, "capacity": capacity,
                           "depot": {"x": xy[0].0, "y": xy[0].1, "ready": depot_ready, "due": depot_due}, "rows": rows}))
        }
        _ => {
            let mut nodes = vec![json!([1, xy[0].0, xy[0].1])];
            let mut dem = vec![json!([1, 0])];
            for t in &tasks {
                nodes.push(json!([t.0, t.1.0, t.1.1]));
                dem.push(json!([t.0, t.2]));
            }
            let mut lines = vec![
                Line::Text("NAME : bind".into()),
                Line::Text("COMMENT : generated".into()),
                Line::Kv("TYPE".into(), json!("CVRP")),
                Line::Kv("DIMENSION".into(), json!(nodes.len())),
                Line::Kv("EDGE_WEIGHT_TYPE".into(), json!("EUC_2D")),
                Line::Kv("CAPACITY".into(), json!(capacity)),
                Line::Word("NODE_COORD_SECTION".into()),
            ];
            for v in nodes.iter().chain(std::iter::once(&json!("DEMAND_SECTION"))).chain(dem.iter()) {
                match v {
                    Value::String(w) => lines.push(Line::Word(w.clone())),
                    _ => lines.push(Line::Nums(v.as_array().unwrap().iter().map(|x| x.as_i64().unwrap()).collect())),
                }
            }
            lines.push(Line::Word("DEPOT_SECTION".into()));
            lines.push(Line::Nums(vec![1]));
            lines.push(Line::Nums(vec![-1]));
            lines.push(Line::Word("EOF".into()));
            (lines, json!({"capacity": capacity, "nodes": nodes, "demands": dem, "depot": 1}))
        }
    };
    let text = render(rng, &lines, false, k == "tsp", true);
    json!({"k": "bind", "fmt": k, "rounded": rounded, "lines": lines.iter().map(line_json).collect::<Vec<_>>(), "text": text,
           "file": file, "tours": [], "in_hyp": true,
           "pre": pre.iter().map(|i| id_of(*i)).collect::<Vec<_>>(), "target": id_of(target)})
}

fn gen_cases(rng: &mut Rng, tier: Tier) -> Vec<Value> {
    let scale = if tier == Tier::Thorough { 40 } else { 1 };
    let mut cases = vec![];
    // stream 1: well-formed files
    for i in 0..(900 * scale) {
        let k = ["sol", "lil", "tsp"][i % 3];
        let fancy = rng.chance(2, 3);
        let g = gen_instance(rng, k, fancy);
        cases.push(problem_case(rng, &g, &g.lines, true, fancy, true));
    }
    // stream 1b: malformed / unusual files (model vs implementation only)
    for i in 0..(300 * scale) {
        let k = ["sol", "lil", "tsp"][i % 3];
        let g = gen_instance(rng, k, false);
        if let Some(ls) = mutate(rng, &g) {
            let fancy = rng.chance(1, 2);
            cases.push(problem_case(rng, &g, &ls, false, fancy, false));
        }
    }
    // stream 2: complete solutions written by the real writer and read back
    for i in 0..(300 * scale) {
        let k = ["sol", "tsp"][i % 2];
        let g = gen_instance(rng, k, false);
        let vehicles = if k == "sol" { g.file["vehicles"].as_u64().unwrap() as usize } else { g.ids.len() + 1 };
        let job_ids: Vec<i64> = g.ids.iter().map(|p| if k == "tsp" { p.0 - 1 } else { p.0 }).collect();
        let mut routes = partition_routes(rng, &job_ids, vehicles);
        // now and then an incomplete solution: the writer must refuse it
        let mut complete = true;
        if rng.chance(1, 10) {
            if let Some(r) = routes.iter_mut().find(|r| !r.is_empty()) {
                r.pop();
                complete = false;
            }
        }
        let mut c = problem_case(rng, &g, &g.lines, true, false, true);
        c["in_hyp"] = json!(complete);
        c["k"] = json!("init");
        c["fmt"] = json!(k);
        c["routes"] = json!(routes);
        c["cost_bits"] = json!(((rng.range(0, 100000) as f64) / 8.0).to_bits());
        c["tours"] = json!([]);
        cases.push(c);
    }
    // stream 2b: hand-made solution texts (partial, decorated) read by the real reader
    for i in 0..(150 * scale) {
        let k = ["sol", "tsp"][i % 2];
        let g = gen_instance(rng, k, false);
        let vehicles = if k == "sol" { g.file["vehicles"].as_u64().unwrap() as usize } else { g.ids.len() + 1 };
        let mut job_ids: Vec<i64> = g.ids.iter().map(|p| if k == "tsp" { p.0 - 1 } else { p.0 }).collect();
        if rng.chance(1, 2) && !job_ids.is_empty() {
            rng.shuffle(&mut job_ids);
            let keep = rng.usize(0, job_ids.len());
            job_ids.truncate(keep);
        }
        let routes = partition_routes(rng, &job_ids, vehicles);
        let mut sol_lines: Vec<Option<(i64, Vec<i64>)>> = vec![];
        for (i, r) in routes.iter().enumerate() {
            if rng.chance(1, 5) {
                sol_lines.push(None);
            }
            sol_lines.push(Some((if rng.chance(1, 6) { rng.range(0, 99) } else { i as i64 + 1 }, r.clone())));
        }
        if rng.chance(2, 3) {
            sol_lines.push(None);
        }
        let sol_text = render_sol(rng, &sol_lines);
        let mut c = problem_case(rng, &g, &g.lines, true, false, true);
        c["k"] = json!("initread");
        c["fmt"] = json!(k);
        c["sol_lines"] = json!(sol_lines.iter().map(sol_line_json).collect::<Vec<_>>());
        c["sol_text"] = json!(sol_text);
        c["tours"] = json!([]);
        cases.push(c);
    }
    // stream 3: capacity and time windows bind in the real constraint evaluation exactly as the file says
    for i in 0..(600 * scale) {
        cases.push(gen_bind(rng, ["sol", "lil", "tsp"][i % 3]));
    }
    cases
}

// ------------------------------------------------------------------------------------------------
// running the real code

fn tmp_dir() -> PathBuf {
    let d = std::env::temp_dir().join(format!("c13-harness-{}", std::process::id()));
    std::fs::create_dir_all(&d).unwrap();
    d
}

fn err_kind(e: &GenericError) -> String {
    let m = e.to_string();
    let table = [
        ("cannot parse vehicle number", "vehicleLine"),
        ("cannot read customer line", "customerLine"),
        ("expected colon separated", "colon"),
        ("unexpected key", "key"),
        ("expecting 'CVRP' as TYPE", "badType"),
        ("expecting 'EUC_2D' as EDGE_WEIGHT_TYPE", "badEdge"),
        ("cannot parse", "parse"),
        ("expecting ", "expecting"),
        ("unexpected coord data", "coordData"),
        ("unexpected demand data", "demandData"),
        ("cannot find demand", "noDemand"),
        ("cannot find coordinate for depot", "noDepot"),
    ];
    for (p, k) in table {
        if m.starts_with(p) {
            return k.to_string();
        }
    }
    format!("other: {m}")
}

fn read_direct(fmt: &str, text: &str, rounded: bool, buffered: bool) -> Result<Problem, GenericError> {
    match (fmt, buffered) {
        ("sol", false) => text.to_string().read_solomon(rounded),
        ("sol", true) => BufReader::new(text.as_bytes()).read_solomon(rounded),
        ("lil", false) => text.to_string().read_lilim(rounded),
        ("lil", true) => BufReader::new(text.as_bytes()).read_lilim(rounded),
        (_, false) => text.to_string().read_tsplib(rounded),
        (_, true) => BufReader::new(text.as_bytes()).read_tsplib(rounded),
    }
}

fn format_name(fmt: &str) -> &'static str {
    match fmt {
        "sol" => "solomon",
        "lil" => "lilim",
        _ => "tsplib",
    }
}

fn read_via_formats(fmt: &str, text: &str, rounded: bool, random: Arc<dyn Random>) -> Result<Problem, GenericError> {
    let path = tmp_dir().join("problem.txt");
    std::fs::write(&path, text).unwrap();
    let formats = get_formats(rounded, random);
    let (reader, _, _, _) = formats.get(format_name(fmt)).expect("format is not registered");
    reader.0(File::open(&path).unwrap(), None)
}

fn bound(v: f64) -> Value {
    if v == f64::MAX {
        json!("max")
    } else if v.fract() == 0. && v.abs() < 9.0e15 {
        json!(v as i64)
    } else {
        json!({"bits": v.to_bits()})
    }
}

fn opt_bound(v: Option<f64>) -> Value {
    v.map(bound).unwrap_or(Value::Null)
}

/// "12" -> 12, "c12" with prefix "c" -> 12; anything not in canonical decimal form stays a string
fn parse_id(s: &str, prefix: &str) -> Value {
    match s.strip_prefix(prefix).and_then(|r| r.parse::<i64>().ok().filter(|v| v.to_string() == r)) {
        Some(v) => json!(v),
        None => json!(s),
    }
}

fn xy_of(locs: &[(i32, i32)], l: usize) -> Value {
    locs.get(l).map(|p| json!([p.0, p.1])).unwrap_or(Value::Null)
}

fn dump_single(single: &Single, prefix: &str, locs: &[(i32, i32)], points: &mut Vec<usize>, loc_seq: &mut Vec<usize>) -> Value {
    let id = single.dimens.get_job_id().map(|s| parse_id(s, prefix)).unwrap_or(Value::Null);
    let place = &single.places[0];
    let loc = place.location.expect("place without location");
    points.push(loc);
    loc_seq.push(loc);
    let tws: Vec<Value> = place
        .times
        .iter()
        .map(|t| match t {
            TimeSpan::Window(w) => json!([bound(w.start), bound(w.end)]),
            TimeSpan::Offset(o) => json!({"offset": [bound(o.start), bound(o.end)]}),
        })
        .collect();
    let dem = single
        .dimens
        .get_job_demand::<SingleDimLoad>()
        .map(|d| json!([d.pickup.0.value, d.pickup.1.value, d.delivery.0.value, d.delivery.1.value]))
        .unwrap_or(Value::Null);
    let mut v = json!({"id": id, "xy": xy_of(locs, loc), "dur": bound(place.duration), "tws": tws, "dem": dem});
    if single.places.len() != 1 {
        v["places"] = json!(single.places.len());
    }
    v
}

/// index-free dump of what the property is about; `stable`: also list location indices (Solomon, Li&Lim) and keep the
/// job order; TSPLIB: jobs sorted by id
fn dump_problem(problem: &Problem, fmt: &str) -> Value {
    let stable = fmt != "tsp";
    let coord_index = problem.extras.get_coord_index().expect("no coord index");
    let locs = &coord_index.locations;
    assert_eq!(problem.transport.size(), locs.len(), "matrix size differs from the number of interned locations");
    let mut points: Vec<usize> = vec![];
    let mut loc_seq: Vec<usize> = vec![];
    assert_eq!(problem.fleet.drivers.len(), 1);
    let mut vehicles = vec![];
    for (i, v) in problem.fleet.vehicles.iter().enumerate() {
        assert_eq!(v.details.len(), 1, "vehicle with several details");
        let d = &v.details[0];
        let (s, e) = (d.start.as_ref().expect("no start"), d.end.as_ref().expect("no end"));
        if i == 0 {
            points.push(s.location);
            loc_seq.push(s.location);
            loc_seq.push(e.location);
        }
        vehicles.push(json!({
            "idx": v.dimens.get_vehicle_id().map(|s| parse_id(s, "v")).unwrap_or(Value::Null),
            "cap": v.dimens.get_vehicle_capacity::<SingleDimLoad>().map(|c| json!(c.value)).unwrap_or(Value::Null),
            "s": xy_of(locs, s.location), "e": xy_of(locs, e.location),
            "t": [opt_bound(s.time.earliest), opt_bound(s.time.latest), opt_bound(e.time.earliest), opt_bound(e.time.latest)],
        }));
    }
    let mut all_jobs: Vec<&Job> = problem.jobs.all().iter().collect();
    if !stable {
        all_jobs.sort_by_key(|j| j.dimens().get_job_id().and_then(|s| s.parse::<i64>().ok()).unwrap_or(i64::MAX));
    }
    let mut jobs = vec![];
    for job in all_jobs {
        match job {
            Job::Single(s) => {
                let sub = dump_single(s, "", locs, &mut points, &mut loc_seq);
                jobs.push(json!({"id": sub["id"].clone(), "multi": false, "subs": [sub]}));
            }
            Job::Multi(m) => {
                let subs: Vec<Value> = m.jobs.iter().map(|s| dump_single(s, "c", locs, &mut points, &mut loc_seq)).collect();
                let id = m.dimens.get_job_id().map(|s| parse_id(s, "")).unwrap_or(Value::Null);
                jobs.push(json!({"id": id, "multi": true, "subs": subs}));
            }
        }
    }
    let profile = Profile::default();
    let dist: Vec<Vec<Value>> = points
        .iter()
        .map(|a| {
            points
                .iter()
                .map(|b| {
                    let d = problem.transport.distance_approx(&profile, *a, *b);
                    let t = problem.transport.duration_approx(&profile, *a, *b);
                    assert_eq!(d.to_bits(), t.to_bits(), "distance and duration differ");
                    assert!(d >= 0. && d < 9.0e15, "distance out of range");
                    json!([d.floor() as i64, d.fract() == 0.])
                })
                .collect()
        })
        .collect();
    let dist_bits: Vec<Vec<u64>> = points
        .iter()
        .map(|a| points.iter().map(|b| problem.transport.distance_approx(&profile, *a, *b).to_bits()).collect())
        .collect();
    json!({"veh": vehicles, "jobs": jobs, "dist": dist, "dist_bits": dist_bits,
           "locs": if stable { json!(loc_seq) } else { Value::Null }})
}

fn random() -> Arc<dyn Random> {
    Environment::default().random
}

/// reads the text through every public entry point; they must tell the same story
fn read_problem(fmt: &str, text: &str, rounded: bool) -> Result<(Problem, Value), String> {
    let a = read_direct(fmt, text, rounded, false);
    let b = read_direct(fmt, text, rounded, true);
    let c = read_via_formats(fmt, text, rounded, random());
    let view = |r: &Result<Problem, GenericError>| match r {
        Ok(p) => json!({"ok": dump_problem(p, fmt)}),
        Err(e) => json!({"err": err_kind(e)}),
    };
    let (va, vb, vc) = (view(&a), view(&b), view(&c));
    assert!(va == vb, "String and BufReader entry points differ");
    assert!(va == vc, "direct reader and vrp-cli get_formats reader differ");
    match a {
        Ok(p) => Ok((p, va["ok"].clone())),
        Err(e) => Err(err_kind(&e)),
    }
}

fn single_by_id(problem: &Problem) -> HashMap<String, Arc<Single>> {
    problem
        .jobs
        .all()
        .iter()
        .filter_map(|j| j.as_single().cloned())
        .map(|s| (s.dimens.get_job_id().unwrap().clone(), s))
        .collect()
}

/// builds a core `Solution` with the given routes the way any construction heuristic would hold it
fn build_solution(problem: &Arc<Problem>, routes: &[Vec<i64>], cost: f64) -> Solution {
    let by_id = single_by_id(problem);
    let mut registry = Registry::new(&problem.fleet, random());
    let mut used: HashSet<String> = HashSet::new();
    let mut out = vec![];
    for r in routes {
        let actor = registry.next().next().expect("fleet exhausted");
        let mut tour = Tour::new(&actor);
        for id in r {
            let single = by_id.get(&id.to_string()).expect("unknown job id in generated route");
            let place = &single.places[0];
            tour.insert_last(Activity {
                place: TourPlace {
                    idx: 0,
                    location: place.location.unwrap(),
                    duration: place.duration,
                    time: place.times[0].as_time_window().unwrap(),
                },
                schedule: Schedule::new(0., 0.),
                job: Some(single.clone()),
                commute: None,
            });
            used.insert(id.to_string());
        }
        registry.use_actor(&actor);
        out.push(Route { actor, tour });
    }
    let unassigned = problem
        .jobs
        .all()
        .iter()
        .filter(|j| !used.contains(j.dimens().get_job_id().unwrap()))
        .map(|j| (j.clone(), UnassignmentInfo::Unknown))
        .collect();
    Solution { cost, registry, routes: out, unassigned, telemetry: None }
}

fn write_direct(fmt: &str, solution: &Solution) -> Result<String, String> {
    let mut writer = BufWriter::new(Vec::new());
    match fmt {
        "sol" => solution.write_solomon(&mut writer).map_err(|e| e.to_string())?,
        _ => solution.write_tsplib(&mut writer).map_err(|e| e.to_string())?,
    }
    Ok(String::from_utf8(writer.into_inner().unwrap()).unwrap())
}

fn write_via_formats(fmt: &str, problem: &Problem, solution: Solution) -> Result<String, String> {
    let path = tmp_dir().join("solution.txt");
    let formats = get_formats(true, random());
    let (_, _, writer, _) = formats.get(format_name(fmt)).expect("format is not registered");
    let file: Box<dyn Write> = Box::new(File::create(&path).unwrap());
    writer.0(problem, solution, BufWriter::new(file), None).map_err(|e| e.to_string())?;
    Ok(std::fs::read_to_string(&path).unwrap())
}

/// token view of a written solution: `{"n": label number, "ids": […]}` for `Route n: ids`, null otherwise
fn tokenize_solution(text: &str, cost: f64) -> Value {
    let lines: Vec<&str> = text.split('\n').collect();
    let mut out = vec![];
    for (i, l) in lines.iter().enumerate() {
        let parts: Vec<&str> = l.split(':').collect();
        if parts.len() == 2 {
            let n = parts[0].strip_prefix("Route ").and_then(|s| s.parse::<i64>().ok());
            let ids: Vec<Value> = parts[1].split_whitespace().map(|t| parse_id(t, "")).collect();
            out.push(json!({"n": n, "ids": ids}));
        } else {
            assert!(i + 1 == lines.len(), "a line without colon before the end");
            assert_eq!(*l, format!("Cost {cost:.2}"), "unexpected cost line");
            out.push(Value::Null);
        }
    }
    json!(out)
}

fn dump_read_solution(problem: &Problem, solution: &Solution) -> Value {
    let depot = problem.fleet.vehicles[0].details[0].start.as_ref().unwrap().location;
    let mut acts_ok = true;
    let mut actors = HashSet::new();
    let mut routes = vec![];
    for r in solution.routes.iter() {
        actors.insert(r.actor.vehicle.dimens.get_vehicle_id().unwrap().clone());
        let n = r.tour.total();
        let mut ids = vec![];
        for (i, a) in r.tour.all_activities().enumerate() {
            match &a.job {
                None => acts_ok &= (i == 0 || i == n - 1) && a.place.location == depot,
                Some(single) => {
                    let p = &single.places[0];
                    acts_ok &= i > 0
                        && i < n - 1
                        && a.place.idx == 0
                        && Some(a.place.location) == p.location
                        && a.place.duration == p.duration
                        && Some(a.place.time.clone()) == p.times[0].as_time_window();
                    ids.push(parse_id(single.dimens.get_job_id().unwrap(), ""));
                }
            }
        }
        acts_ok &= n >= 2;
        routes.push(json!(ids));
    }
    let mut unassigned: Vec<i64> =
        solution.unassigned.iter().map(|(j, _)| j.dimens().get_job_id().unwrap().parse::<i64>().unwrap()).collect();
    unassigned.sort();
    let available = solution.registry.available().count();
    json!({"routes": routes, "unassigned": unassigned,
           "distinct_actors": actors.len() == solution.routes.len()
               && available + solution.routes.len() == problem.fleet.actors.len(),
           "acts_ok": acts_ok})
}

fn read_solution_all_ways(fmt: &str, text: &str, problem: &Arc<Problem>) -> Value {
    let a = read_init_solution(BufReader::new(text.as_bytes()), problem.clone(), random()).expect("init reader failed");
    let path = tmp_dir().join("init.txt");
    std::fs::write(&path, text).unwrap();
    let formats = get_formats(true, random());
    let (_, reader, _, _) = formats.get(format_name(fmt)).expect("format is not registered");
    let b = reader.0(File::open(&path).unwrap(), problem.clone()).expect("init reader (formats) failed");
    let (va, vb) = (dump_read_solution(problem, &a), dump_read_solution(problem, &b));
    assert!(va == vb, "direct and get_formats initial solution readers differ");
    va
}

fn quiet_env() -> Arc<Environment> {
    Arc::new(Environment { logger: Arc::new(|_| {}), ..Environment::default() })
}

/// all singles (sub-jobs of multi jobs included) by the number in their id, with the job they belong to
fn singles_by_number(problem: &Problem) -> HashMap<i64, (Arc<Single>, Job)> {
    let mut m = HashMap::new();
    for job in problem.jobs.all() {
        match job {
            Job::Single(s) => {
                m.insert(s.dimens.get_job_id().unwrap().parse::<i64>().unwrap(), (s.clone(), job.clone()));
            }
            Job::Multi(multi) => {
                for s in multi.jobs.iter() {
                    let id = s.dimens.get_job_id().unwrap().strip_prefix('c').unwrap().parse::<i64>().unwrap();
                    m.insert(id, (s.clone(), job.clone()));
                }
            }
        }
    }
    m
}

fn new_activity(single: &Arc<Single>) -> Activity {
    let place = &single.places[0];
    Activity {
        place: TourPlace {
            idx: 0,
            location: place.location.unwrap(),
            duration: place.duration,
            time: place.times[0].as_time_window().unwrap(),
        },
        schedule: Schedule::new(0., 0.),
        job: Some(single.clone()),
        commute: None,
    }
}

/// does the real constraint evaluation (route level + activity level, as the insertion evaluator calls it) accept `target`
/// at the end of a tour that serves `pre`?
fn exec_bind(fmt: &str, problem: Arc<Problem>, pre: &[i64], target: i64) -> Value {
    let off = if fmt == "tsp" { 1 } else { 0 };
    let by_id = singles_by_number(&problem);
    let mut registry = Registry::new(&problem.fleet, random());
    let actor = registry.next().next().expect("no vehicle");
    let mut tour = Tour::new(&actor);
    let mut used: HashSet<Job> = HashSet::new();
    for id in pre {
        let (single, job) = by_id.get(&(id - off)).expect("unknown id in generated tour");
        tour.insert_last(new_activity(single));
        used.insert(job.clone());
    }
    registry.use_actor(&actor);
    let unassigned =
        problem.jobs.all().iter().filter(|j| !used.contains(j)).map(|j| (j.clone(), UnassignmentInfo::Unknown)).collect();
    let solution = Solution { cost: 0., registry, routes: vec![Route { actor, tour }], unassigned, telemetry: None };
    let ctx = InsertionContext::new_from_solution(problem.clone(), (solution, None), quiet_env());
    let route_ctx = match ctx.solution.routes.first() {
        Some(r) => r,
        None => ctx.solution.registry.next_route().next().expect("no free route"),
    };
    assert_eq!(route_ctx.route().tour.job_activity_count(), pre.len(), "tour was changed while restoring the context");
    let (single, job) = by_id.get(&(target - off)).expect("unknown target id");
    // the calls `analyze_insertion_in_route_leg` makes for the last leg
    let route_violation = problem.goal.evaluate(&MoveContext::route(&ctx.solution, route_ctx, job));
    let (items, index) = route_ctx.route().tour.legs().last().expect("tour without legs");
    let (prev, next) = match items {
        [prev, next] => (prev, Some(next)),
        _ => panic!("closed tour expected"),
    };
    let activity = new_activity(single);
    let activity_ctx = ActivityContext { index, prev, target: &activity, next };
    let activity_violation = problem.goal.evaluate(&MoveContext::activity(&ctx.solution, route_ctx, &activity_ctx));
    let accepted = route_violation.is_none() && activity_violation.is_none();
    if job.as_single().is_some() {
        // single jobs: the public evaluator entry point must say the same
        let result_selector = BestResultSelector::default();
        let leg_selection = LegSelection::Exhaustive;
        let eval_ctx = EvaluationContext { goal: &problem.goal, job, leg_selection: &leg_selection, result_selector: &result_selector };
        let result =
            eval_job_insertion_in_route(&ctx, &eval_ctx, route_ctx, InsertionPosition::Last, InsertionResult::make_failure());
        assert_eq!(result.as_success().is_some(), accepted, "eval_job_insertion_in_route disagrees with goal.evaluate");
    }
    json!({"append_ok": accepted})
}

fn exec(case: &Value) -> Value {
    let k = case["k"].as_str().unwrap();
    let rounded = case["rounded"].as_bool().unwrap();
    let text = case["text"].as_str().unwrap();
    match k {
        "sol" | "lil" | "tsp" => match read_problem(k, text, rounded) {
            Ok((_, dump)) => json!({"ok": dump}),
            Err(e) => json!({"err": e}),
        },
        "init" | "initread" => {
            let fmt = case["fmt"].as_str().unwrap();
            let (problem, _) = match read_problem(fmt, text, rounded) {
                Ok(p) => p,
                Err(e) => return json!({"err": e}),
            };
            let problem = Arc::new(problem);
            if k == "init" {
                let routes: Vec<Vec<i64>> = serde_json::from_value(case["routes"].clone()).unwrap();
                let cost = f64::from_bits(case["cost_bits"].as_u64().unwrap());
                let solution = build_solution(&problem, &routes, cost);
                let written = match write_direct(fmt, &solution) {
                    Ok(t) => t,
                    Err(_) => return json!({"write_err": true}),
                };
                let written2 = write_via_formats(fmt, &problem, build_solution(&problem, &routes, cost)).expect("formats writer failed");
                assert!(written == written2, "direct writer and get_formats writer differ");
                json!({"written": tokenize_solution(&written, cost), "read": read_solution_all_ways(fmt, &written, &problem)})
            } else {
                json!({"read": read_solution_all_ways(fmt, case["sol_text"].as_str().unwrap(), &problem)})
            }
        }
        "bind" => {
            let fmt = case["fmt"].as_str().unwrap();
            let (problem, _) = match read_problem(fmt, text, rounded) {
                Ok(p) => p,
                Err(e) => return json!({"err": e}),
            };
            let pre: Vec<i64> = serde_json::from_value(case["pre"].clone()).unwrap();
            exec_bind(fmt, Arc::new(problem), &pre, case["target"].as_i64().unwrap())
        }
        other => panic!("unknown case kind {other}"),
    }
}

fn main() {
    run_main(gen_cases, exec);
    let _ = std::fs::remove_dir_all(tmp_dir());
}
