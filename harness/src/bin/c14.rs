//! C14 — tours and the vehicle registry stay well-formed under any operation sequence.
//!
//! A case is a small world (jobs incl. multi jobs, actors with open/closed shifts and group keys) and a
//! sequence of operations on *handles*: bare `Tour`s, `Route`s, `RouteContext`s, `Registry`s and
//! `RegistryContext`s of the real crate. After every operation ALL live handles are observed through the
//! public API; the output lists the result of the operation and every handle whose observation changed.
//! Deep copies are handles of their own, so "independent of the original" is "an operation on one
//! handle never changes the observation of another".

use serde_json::{Value, json};
use std::cell::{Cell, RefCell};
use std::collections::{BTreeMap, HashMap};
use std::panic::{AssertUnwindSafe, catch_unwind};
use std::sync::Arc;
use vrp_core::construction::heuristics::RegistryContext;
use vrp_core::models::common::{Schedule, TimeWindow};
use vrp_core::models::problem::{Actor, JobIdDimension, Single, VehicleIdDimension};
use vrp_core::models::solution::{Activity, Place, Registry, Route, Tour};
use vrp_core::prelude::*;
use vrp_verif_harness::*;

// ------------------------------------------------------------------------------------------------
// world

struct StKey;
struct CntKey;

/// a feature state as the real features have them: caches something about the tour on accept
struct CountState;

impl FeatureState for CountState {
    fn accept_insertion(&self, _: &mut SolutionContext, _: usize, _: &Job) {}
    fn accept_route_state(&self, route_ctx: &mut RouteContext) {
        let n = route_ctx.route().tour.job_activity_count();
        route_ctx.state_mut().set_tour_state::<CntKey, usize>(n);
    }
    fn accept_solution_state(&self, _: &mut SolutionContext) {}
}

struct World {
    problem: Arc<Problem>,
    jobs: Vec<Job>,
    singles: Vec<Vec<Arc<Single>>>,
    actors: Vec<Arc<Actor>>,
    /// an actor of another fleet (never registered): id = actors.len()
    foreign: Arc<Actor>,
}

const START_LOC: usize = 0;
const END_LOC: usize = 1;
const N_LOC: usize = 16;

fn make_goal() -> GoalContext {
    let minimize_unassigned = MinimizeUnassignedBuilder::new("min-unassigned").build().unwrap();
    let count = FeatureBuilder::default().with_name("count").with_state(CountState).build().unwrap();
    GoalContextBuilder::with_features(&[minimize_unassigned, count]).unwrap().build().unwrap()
}

fn make_problem(job_subs: &[usize], actors: &[(usize, bool, usize)]) -> Arc<Problem> {
    let jobs: Vec<Job> = job_subs
        .iter()
        .enumerate()
        .map(|(k, n)| {
            let loc = 2 + k % (N_LOC - 2);
            if *n <= 1 {
                SingleBuilder::default().id(&format!("j{k}")).location(loc).unwrap().build_as_job().unwrap()
            } else {
                let mut b = MultiBuilder::default().id(&format!("j{k}"));
                for _ in 0..*n {
                    b = b.add_job(SingleBuilder::default().location(loc).unwrap().build().unwrap());
                }
                b.build_as_job().unwrap()
            }
        })
        .collect();
    // consecutive actors with the same vehicle number are the shifts of one vehicle
    let mut vehicles = vec![];
    let mut i = 0;
    while i < actors.len() {
        let v = actors[i].0;
        let mut b = VehicleBuilder::default().id(&format!("v{v}"));
        while i < actors.len() && actors[i].0 == v {
            let mut d = VehicleDetailBuilder::default().set_start_location(START_LOC);
            if actors[i].1 {
                d = d.set_end_location(END_LOC);
            }
            b = b.add_detail(d.build().unwrap());
            i += 1;
        }
        vehicles.push(b.build().unwrap());
    }
    let groups: Vec<usize> = actors.iter().map(|a| a.2).collect();
    let m = vec![1.; N_LOC * N_LOC];
    let transport = SimpleTransportCost::new(m.clone(), m).unwrap();
    Arc::new(
        ProblemBuilder::default()
            .add_jobs(jobs.into_iter())
            .add_vehicles(vehicles.into_iter())
            .with_vehicle_similarity(move |actors| {
                let addrs: Vec<usize> = actors.iter().map(|a| Arc::as_ptr(a) as usize).collect();
                let groups = groups.clone();
                Box::new(move |a: &Actor| {
                    let addr = a as *const Actor as usize;
                    groups[addrs.iter().position(|p| *p == addr).expect("unknown actor in group key")]
                })
            })
            .with_goal(make_goal())
            .with_transport_cost(Arc::new(transport))
            .with_logger(Arc::new(|_| {}))
            .build()
            .unwrap(),
    )
}

thread_local! {
    static WORLDS: RefCell<HashMap<String, Arc<World>>> = RefCell::new(HashMap::new());
}

fn world_of(case: &Value) -> Arc<World> {
    let key = format!("{}|{}", case["jobs"], case["actors"]);
    if let Some(w) = WORLDS.with(|m| m.borrow().get(&key).cloned()) {
        return w;
    }
    let job_subs: Vec<usize> = case["jobs"].as_array().unwrap().iter().map(|v| v.as_u64().unwrap() as usize).collect();
    let actors: Vec<(usize, bool, usize)> = case["actors"]
        .as_array()
        .unwrap()
        .iter()
        .map(|a| (a["v"].as_u64().unwrap() as usize, a["closed"].as_bool().unwrap(), a["g"].as_u64().unwrap() as usize))
        .collect();
    let problem = make_problem(&job_subs, &actors);
    let jobs: Vec<Job> = problem.jobs.all().to_vec();
    // `Jobs::all` keeps the order in which the jobs were added: check it through the ids
    for (k, job) in jobs.iter().enumerate() {
        assert_eq!(job.dimens().get_job_id().map(|s| s.as_str()), Some(format!("j{k}").as_str()), "job order");
    }
    let singles = jobs
        .iter()
        .map(|job| match job {
            Job::Single(s) => vec![s.clone()],
            Job::Multi(m) => m.jobs.clone(),
        })
        .collect();
    let fleet_actors = problem.fleet.actors.clone();
    assert_eq!(fleet_actors.len(), actors.len());
    for (a, spec) in fleet_actors.iter().zip(actors.iter()) {
        assert_eq!(a.vehicle.dimens.get_vehicle_id().map(|s| s.as_str()), Some(format!("v{}", spec.0).as_str()));
        assert_eq!(a.detail.end.is_some(), spec.1);
    }
    let other = make_problem(&[1], &[(0, true, 0)]);
    let w = Arc::new(World { problem, jobs, singles, actors: fleet_actors, foreign: other.fleet.actors[0].clone() });
    WORLDS.with(|m| m.borrow_mut().insert(key, w.clone()));
    w
}

impl World {
    fn actor(&self, a: usize) -> Arc<Actor> {
        if a < self.actors.len() { self.actors[a].clone() } else { self.foreign.clone() }
    }
    fn actor_id(&self, a: &Actor) -> usize {
        self.actors.iter().position(|x| std::ptr::eq(x.as_ref(), a)).unwrap_or(self.actors.len())
    }
    fn job_id(&self, job: &Job) -> usize {
        self.jobs.iter().position(|x| x == job).expect("a job that is not of this world")
    }
}

// ------------------------------------------------------------------------------------------------
// observation through the public API

fn act_tag(w: &World, a: &Activity, ok: &Cell<bool>) -> Value {
    match a.retrieve_job() {
        None => {
            if a.job.is_some() {
                ok.set(false);
            }
            match a.place.location {
                START_LOC => json!("S"),
                END_LOC => json!("E"),
                _ => json!("X"),
            }
        }
        Some(job) => {
            let j = w.job_id(&job);
            let single = a.job.as_ref().unwrap();
            let s = w.singles[j].iter().position(|x| Arc::ptr_eq(x, single)).expect("unknown sub-job");
            if job.dimens().get_job_id().map(|s| s.as_str()) != Some(format!("j{j}").as_str()) {
                ok.set(false);
            }
            json!([j, s])
        }
    }
}

fn obs_tour(w: &World, tour: &Tour) -> Value {
    let ok = Cell::new(true);
    let check = |b: bool| {
        if !b {
            ok.set(false)
        }
    };
    let acts: Vec<Value> = tour.all_activities().map(|a| act_tag(w, a, &ok)).collect();
    let total = tour.total();
    // the other accessors must tell the same story
    for (i, tag) in acts.iter().enumerate() {
        check(tour.get(i).map(|a| act_tag(w, a, &ok)).as_ref() == Some(tag));
        check(&act_tag(w, &tour[i], &ok) == tag);
    }
    check(tour.get(acts.len()).is_none());
    if total > 0 {
        let slice: Vec<Value> = tour.activities_slice(0, total - 1).iter().map(|a| act_tag(w, a, &ok)).collect();
        check(slice == acts);
    }
    let mut jobs: Vec<usize> = tour.jobs().map(|j| w.job_id(j)).collect();
    jobs.sort();
    let legs: Vec<Value> = tour
        .legs()
        .map(|(slice, idx)| json!([slice.iter().map(|a| act_tag(w, a, &ok)).collect::<Vec<_>>(), idx]))
        .collect();
    let ix: Vec<Value> = w
        .jobs
        .iter()
        .map(|job| {
            check(tour.contains(job) == tour.has_job(job));
            let subs: Vec<Value> = tour
                .job_activities(job)
                .map(|a| match act_tag(w, a, &ok) {
                    Value::Array(js) => js[1].clone(),
                    other => other,
                })
                .collect();
            json!([tour.index(job), tour.index_last(job), tour.contains(job), subs])
        })
        .collect();
    let se = json!([tour.start().map(|a| act_tag(w, a, &ok)), tour.end().map(|a| act_tag(w, a, &ok)), tour.end_idx()]);
    json!({
        "acts": acts, "jobs": jobs, "n": [tour.job_count(), tour.job_activity_count(), total], "legs": legs,
        "hj": tour.has_jobs(), "se": se, "ix": ix, "ok": ok.get(),
    })
}

fn obs_rc(w: &World, rc: &RouteContext) -> Value {
    json!({"t": "rc", "a": w.actor_id(&rc.route().actor), "tour": obs_tour(w, &rc.route().tour),
           "stale": rc.is_stale(), "st": rc.state().get_tour_state::<StKey, i64>(),
           "cnt": rc.state().get_tour_state::<CntKey, usize>()})
}

fn obs_registry(w: &World, t: &str, r: &Registry) -> Value {
    let all: Vec<usize> = r.all().map(|a| w.actor_id(&a)).collect();
    let mut avail: Vec<usize> = r.available().map(|a| w.actor_id(&a)).collect();
    avail.sort();
    json!({"t": t, "all": all, "avail": avail})
}

enum Hnd {
    Tour(usize, Tour),
    Route(Route),
    Rc(RouteContext),
    Reg(Registry),
    Rctx(RegistryContext),
}

fn observe(w: &World, h: &Hnd) -> Value {
    match h {
        Hnd::Tour(a, t) => json!({"t": "tour", "a": a, "tour": obs_tour(w, t), "stale": null, "st": null, "cnt": null}),
        Hnd::Route(r) => {
            json!({"t": "route", "a": w.actor_id(&r.actor), "tour": obs_tour(w, &r.tour), "stale": null, "st": null, "cnt": null})
        }
        Hnd::Rc(rc) => obs_rc(w, rc),
        Hnd::Reg(r) => obs_registry(w, "reg", r),
        Hnd::Rctx(x) => obs_registry(w, "rctx", x.resources()),
    }
}

// ------------------------------------------------------------------------------------------------
// executing a case on the real code

fn u(v: &Value) -> usize {
    v.as_u64().expect("number expected") as usize
}

/// mutable access to the tour behind a tour-like handle (`route_mut()` for a route context)
fn tour_mut(h: &mut Hnd) -> &mut Tour {
    match h {
        Hnd::Tour(_, t) => t,
        Hnd::Route(r) => &mut r.tour,
        Hnd::Rc(rc) => &mut rc.route_mut().tour,
        _ => panic!("bad op: not a tour-like handle"),
    }
}

fn caught<T>(f: impl FnOnce() -> T) -> Option<T> {
    catch_unwind(AssertUnwindSafe(f)).ok()
}

fn jobless_activity() -> Activity {
    Activity {
        place: Place { idx: 0, location: 7, duration: 0., time: TimeWindow::new(0., 1000.) },
        schedule: Schedule { arrival: 0., departure: 0. },
        job: None,
        commute: None,
    }
}

fn apply(w: &World, hs: &mut BTreeMap<usize, Hnd>, op: &Value) -> Value {
    let name = op[0].as_str().expect("op name");
    let random = Arc::new(DefaultRandom::default());
    match name {
        "new_tour" => {
            hs.insert(u(&op[1]), Hnd::Tour(u(&op[2]), Tour::new(&w.actor(u(&op[2])))));
            Value::Null
        }
        "new_route" => {
            let actor = w.actor(u(&op[2]));
            let tour = Tour::new(&actor);
            hs.insert(u(&op[1]), Hnd::Route(Route { actor, tour }));
            Value::Null
        }
        "new_rc" => {
            hs.insert(u(&op[1]), Hnd::Rc(RouteContext::new(w.actor(u(&op[2])))));
            Value::Null
        }
        "copy" => {
            let c = match hs.get(&u(&op[2])).expect("bad op: no such handle") {
                Hnd::Tour(a, t) => Hnd::Tour(*a, t.deep_copy()),
                Hnd::Route(r) => Hnd::Route(r.deep_copy()),
                Hnd::Rc(rc) => Hnd::Rc(rc.deep_copy()),
                Hnd::Reg(r) => Hnd::Reg(r.deep_copy()),
                Hnd::Rctx(x) => Hnd::Rctx(x.deep_copy()),
            };
            hs.insert(u(&op[1]), c);
            Value::Null
        }
        "drop" => {
            hs.remove(&u(&op[1]));
            Value::Null
        }
        "ins_at" | "ins_last" | "ins_nojob" => {
            let h = hs.get_mut(&u(&op[1])).expect("bad op: no such handle");
            let tour = tour_mut(h);
            let r = match name {
                "ins_at" => {
                    let a = Activity::new_with_job(w.singles[u(&op[2])][u(&op[3])].clone());
                    let idx = u(&op[4]);
                    caught(|| {
                        tour.insert_at(a, idx);
                    })
                }
                "ins_last" => {
                    let a = Activity::new_with_job(w.singles[u(&op[2])][u(&op[3])].clone());
                    caught(|| {
                        tour.insert_last(a);
                    })
                }
                _ => {
                    let idx = u(&op[2]);
                    caught(|| {
                        tour.insert_at(jobless_activity(), idx);
                    })
                }
            };
            if r.is_some() { Value::Null } else { json!("panic") }
        }
        "rem" => {
            let h = hs.get_mut(&u(&op[1])).expect("bad op: no such handle");
            json!(tour_mut(h).remove(&w.jobs[u(&op[2])]))
        }
        "rem_sub" => {
            let h = hs.get_mut(&u(&op[1])).expect("bad op: no such handle");
            let key = Job::Single(w.singles[u(&op[2])][u(&op[3])].clone());
            json!(tour_mut(h).remove(&key))
        }
        "rem_at" => {
            let h = hs.get_mut(&u(&op[1])).expect("bad op: no such handle");
            let tour = tour_mut(h);
            let idx = u(&op[2]);
            match caught(|| tour.remove_activity_at(idx)) {
                Some(job) => json!(w.job_id(&job)),
                None => json!("panic"),
            }
        }
        "touch" | "accept" | "set_state" => {
            let Some(Hnd::Rc(rc)) = hs.get_mut(&u(&op[1])) else { panic!("bad op: not a route context") };
            match name {
                "touch" => {
                    let _ = rc.route_mut();
                }
                "accept" => w.problem.goal.accept_route_state(rc),
                _ => rc.state_mut().set_tour_state::<StKey, i64>(op[2].as_i64().unwrap()),
            }
            Value::Null
        }
        "new_reg" => {
            hs.insert(u(&op[1]), Hnd::Reg(Registry::new(&w.problem.fleet, random)));
            Value::Null
        }
        "new_rctx" => {
            let registry = Registry::new(&w.problem.fleet, random);
            hs.insert(u(&op[1]), Hnd::Rctx(RegistryContext::new(&w.problem.goal, registry)));
            Value::Null
        }
        "use" | "free" => {
            let Some(Hnd::Reg(r)) = hs.get_mut(&u(&op[1])) else { panic!("bad op: not a registry") };
            let actor = w.actor(u(&op[2]));
            json!(if name == "use" { r.use_actor(&actor) } else { r.free_actor(&actor) })
        }
        "get_route" => {
            let Some(Hnd::Rctx(x)) = hs.get_mut(&u(&op[1])) else { panic!("bad op: not a registry context") };
            let got = x.get_route(&w.actor(u(&op[2])));
            let res = got.is_some();
            if let Some(rc) = got {
                hs.insert(u(&op[3]), Hnd::Rc(rc));
            }
            json!(res)
        }
        "free_route" => {
            let Some(Hnd::Rc(rc)) = hs.remove(&u(&op[2])) else { panic!("bad op: not a route context") };
            let Some(Hnd::Rctx(x)) = hs.get_mut(&u(&op[1])) else { panic!("bad op: not a registry context") };
            json!(x.free_route(rc))
        }
        "use_route" => {
            let Some(Hnd::Rc(rc)) = hs.remove(&u(&op[2])) else { panic!("bad op: not a route context") };
            let res = {
                let Some(Hnd::Rctx(x)) = hs.get_mut(&u(&op[1])) else { panic!("bad op: not a registry context") };
                x.use_route(&rc)
            };
            hs.insert(u(&op[2]), Hnd::Rc(rc));
            json!(res)
        }
        "next" => match hs.get(&u(&op[1])).expect("bad op: no such handle") {
            Hnd::Reg(r) => {
                let mut picks: Vec<usize> = r.next().map(|a| w.actor_id(&a)).collect();
                picks.sort();
                json!(picks)
            }
            Hnd::Rctx(x) => match caught(|| x.next_route().map(|rc| (w.actor_id(&rc.route().actor), obs_rc(w, rc))).collect::<Vec<_>>()) {
                Some(mut picks) => {
                    picks.sort_by_key(|p| p.0);
                    json!(picks.into_iter().map(|(a, o)| json!([a, o])).collect::<Vec<_>>())
                }
                None => json!("panic"),
            },
            _ => panic!("bad op: not a registry (context)"),
        },
        "slice" => {
            let keep: Vec<usize> = op[3].as_array().unwrap().iter().map(u).collect();
            let filter = |a: &Actor| keep.contains(&w.actor_id(a));
            let c = match hs.get(&u(&op[2])).expect("bad op: no such handle") {
                Hnd::Reg(r) => Hnd::Reg(r.deep_slice(filter)),
                Hnd::Rctx(x) => Hnd::Rctx(x.deep_slice(filter)),
                _ => panic!("bad op: not a registry (context)"),
            };
            hs.insert(u(&op[1]), c);
            Value::Null
        }
        other => panic!("bad op: unknown operation {other}"),
    }
}

fn exec(case: &Value) -> Value {
    let w = world_of(case);
    let mut hs: BTreeMap<usize, Hnd> = BTreeMap::new();
    let mut last: BTreeMap<usize, Value> = BTreeMap::new();
    let mut out = vec![];
    for op in case["ops"].as_array().unwrap() {
        let r = apply(&w, &mut hs, op);
        let now: BTreeMap<usize, Value> = hs.iter().map(|(h, x)| (*h, observe(&w, x))).collect();
        let mut ch = vec![];
        let keys: std::collections::BTreeSet<usize> = last.keys().chain(now.keys()).copied().collect();
        for h in keys {
            match (last.get(&h), now.get(&h)) {
                (Some(a), Some(b)) if a == b => {}
                (_, Some(b)) => ch.push(json!([h, b])),
                (_, None) => ch.push(json!([h, null])),
            }
        }
        last = now;
        out.push(json!({"r": r, "ch": ch}));
    }
    json!(out)
}

// ------------------------------------------------------------------------------------------------
// generators

/// what the generator tracks to produce meaningful operations (lengths for valid indices, live handles)
#[derive(Clone)]
enum Shadow {
    /// job ids of the job activities, is a route context
    Tourish(Vec<usize>, bool),
    Reg,
    Rctx,
}

struct Gen<'a> {
    rng: &'a mut Rng,
    job_subs: Vec<usize>,
    n_actors: usize,
    hs: BTreeMap<usize, Shadow>,
    next_h: usize,
    ops: Vec<Value>,
    bad_index: bool,
}

impl Gen<'_> {
    fn fresh(&mut self) -> usize {
        self.next_h += 1;
        self.next_h - 1
    }
    fn pick_handle(&mut self, f: impl Fn(&Shadow) -> bool) -> Option<usize> {
        let hs: Vec<usize> = self.hs.iter().filter(|(_, s)| f(s)).map(|(h, _)| *h).collect();
        if hs.is_empty() { None } else { Some(*self.rng.pick(&hs)) }
    }
    fn job(&mut self) -> (usize, usize) {
        let j = self.rng.usize(0, self.job_subs.len() - 1);
        (j, self.rng.usize(0, self.job_subs[j] - 1))
    }
    fn new_tourish(&mut self) {
        let h = self.fresh();
        let a = self.rng.usize(0, self.n_actors - 1);
        let kind = *self.rng.pick(&["new_tour", "new_route", "new_rc", "new_rc"]);
        self.ops.push(json!([kind, h, a]));
        self.hs.insert(h, Shadow::Tourish(vec![], kind == "new_rc"));
    }
    /// one operation on a tour-like handle
    fn tour_op(&mut self, oor: bool) {
        let Some(h) = self.pick_handle(|s| matches!(s, Shadow::Tourish(..))) else { return self.new_tourish() };
        let Shadow::Tourish(mut mid, is_rc) = self.hs[&h].clone() else { unreachable!() };
        let len = mid.len();
        match self.rng.below(100) {
            0..=29 => {
                let (j, s) = if !mid.is_empty() && self.rng.chance(1, 4) {
                    // another activity of a job that is already there (multi jobs, duplicates)
                    let j = *self.rng.pick(&mid);
                    (j, self.rng.usize(0, self.job_subs[j] - 1))
                } else {
                    self.job()
                };
                let idx = if oor && self.rng.chance(1, 2) {
                    // position 0 displaces the start, `len + 2` is behind the end of a closed tour and out of
                    // range for an open one, `len + 3` is out of range for both
                    self.bad_index = true;
                    *self.rng.pick(&[0, len + 2, len + 3])
                } else {
                    match self.rng.below(4) {
                        0 => 1,
                        1 => len + 1,
                        _ => self.rng.usize(1, len + 1),
                    }
                };
                self.ops.push(json!(["ins_at", h, j, s, idx]));
                if idx >= 1 && idx <= len + 1 {
                    mid.insert(idx - 1, j);
                }
            }
            30..=44 => {
                let (j, s) = self.job();
                self.ops.push(json!(["ins_last", h, j, s]));
                mid.push(j);
            }
            45..=59 => {
                let j = if !mid.is_empty() && self.rng.chance(3, 4) { *self.rng.pick(&mid) } else { self.job().0 };
                if self.job_subs[j] > 1 && self.rng.chance(1, 3) {
                    // the key is one TASK of a multi job wrapped as a job of its own (`Job::Single(sub)`, an idiom of the code base):
                    // the tour does not own such a job, nothing may change
                    let s = self.rng.usize(0, self.job_subs[j] - 1);
                    self.ops.push(json!(["rem_sub", h, j, s]));
                } else {
                    self.ops.push(json!(["rem", h, j]));
                    mid.retain(|x| *x != j);
                }
            }
            60..=74 => {
                let idx = match self.rng.below(8) {
                    0 => 0,
                    1 => len + 1,
                    2 => len + 2,
                    _ => self.rng.usize(1, len.max(1)),
                };
                self.ops.push(json!(["rem_at", h, idx]));
                if idx >= 1 && idx <= len {
                    let j = mid[idx - 1];
                    mid.retain(|x| *x != j);
                }
            }
            75..=77 => {
                let idx = self.rng.usize(0, len + 2);
                self.ops.push(json!(["ins_nojob", h, idx]));
            }
            78..=89 => {
                let d = self.fresh();
                self.ops.push(json!(["copy", d, h]));
                self.hs.insert(d, Shadow::Tourish(mid.clone(), is_rc));
            }
            90..=92 if self.hs.len() > 1 => {
                self.ops.push(json!(["drop", h]));
                self.hs.remove(&h);
                return;
            }
            _ if is_rc => {
                let op = match self.rng.below(3) {
                    0 => json!(["touch", h]),
                    1 => json!(["accept", h]),
                    _ => json!(["set_state", h, self.rng.range(-3, 3)]),
                };
                self.ops.push(op);
            }
            _ => return self.new_tourish(),
        }
        self.hs.insert(h, Shadow::Tourish(mid, is_rc));
    }
    fn actor_arg(&mut self) -> usize {
        // now and then an actor of another fleet
        if self.rng.chance(1, 12) { self.n_actors } else { self.rng.usize(0, self.n_actors - 1) }
    }
    fn reg_op(&mut self) {
        let Some(h) = self.pick_handle(|s| matches!(s, Shadow::Reg | Shadow::Rctx)) else {
            let h = self.fresh();
            let rctx = self.rng.chance(1, 2);
            self.ops.push(json!([if rctx { "new_rctx" } else { "new_reg" }, h]));
            self.hs.insert(h, if rctx { Shadow::Rctx } else { Shadow::Reg });
            return;
        };
        let is_ctx = matches!(self.hs[&h], Shadow::Rctx);
        match self.rng.below(100) {
            0..=39 => {
                let a = self.actor_arg();
                if is_ctx {
                    let d = self.fresh();
                    self.ops.push(json!(["get_route", h, a, d]));
                    // whether a route comes back is not known here: later operations on `d` are only
                    // generated by `fix_handles` once the real outcome is known
                    self.hs.insert(d, Shadow::Tourish(vec![], true));
                } else {
                    self.ops.push(json!(["use", h, a]));
                }
            }
            40..=64 => {
                if is_ctx {
                    if let Some(r) = self.pick_handle(|s| matches!(s, Shadow::Tourish(_, true))) {
                        let op = if self.rng.chance(3, 4) { "free_route" } else { "use_route" };
                        self.ops.push(json!([op, h, r]));
                        if op == "free_route" {
                            self.hs.remove(&r);
                        }
                    }
                } else {
                    let a = self.actor_arg();
                    self.ops.push(json!(["free", h, a]));
                }
            }
            65..=79 => self.ops.push(json!(["next", h])),
            80..=89 => {
                let d = self.fresh();
                self.ops.push(json!(["copy", d, h]));
                let s = self.hs[&h].clone();
                self.hs.insert(d, s);
            }
            90..=96 => {
                let d = self.fresh();
                let keep: Vec<usize> = (0..self.n_actors).filter(|_| self.rng.chance(2, 3)).collect();
                self.ops.push(json!(["slice", d, h, keep]));
                let s = self.hs[&h].clone();
                self.hs.insert(d, s);
            }
            _ => {
                if self.hs.len() > 1 {
                    self.ops.push(json!(["drop", h]));
                    self.hs.remove(&h);
                }
            }
        }
    }
}

/// `get_route` may return nothing: drop later operations that mention a handle that does not exist.
/// Done with a tiny interpreter over handle liveness + registry usage (no tour contents needed).
fn fix_handles(ops: Vec<Value>, n_actors: usize) -> Vec<Value> {
    #[derive(Clone)]
    enum L {
        Tourish(bool, usize),
        Reg(Vec<usize>, Vec<usize>), // registered, held
    }
    let mut live: BTreeMap<usize, L> = BTreeMap::new();
    let mut out = vec![];
    for op in ops {
        let name = op[0].as_str().unwrap().to_string();
        let g = |i: usize| u(&op[i]);
        let ok = match name.as_str() {
            "new_tour" | "new_route" | "new_rc" => {
                live.insert(g(1), L::Tourish(name == "new_rc", g(2)));
                true
            }
            "new_reg" | "new_rctx" => {
                live.insert(g(1), L::Reg((0..n_actors).collect(), vec![]));
                true
            }
            "copy" => match live.get(&g(2)).cloned() {
                Some(x) => {
                    live.insert(g(1), x);
                    true
                }
                None => false,
            },
            "slice" => match live.get(&g(2)).cloned() {
                Some(L::Reg(reg, held)) => {
                    let keep: Vec<usize> = op[3].as_array().unwrap().iter().map(u).collect();
                    live.insert(
                        g(1),
                        L::Reg(
                            reg.into_iter().filter(|a| keep.contains(a)).collect(),
                            held.into_iter().filter(|a| keep.contains(a)).collect(),
                        ),
                    );
                    true
                }
                _ => false,
            },
            "drop" => live.remove(&g(1)).is_some(),
            "get_route" => match live.get_mut(&g(1)) {
                Some(L::Reg(reg, held)) => {
                    let a = g(2);
                    if reg.contains(&a) && !held.contains(&a) {
                        held.push(a);
                        live.insert(g(3), L::Tourish(true, a));
                    }
                    true
                }
                _ => false,
            },
            "use" | "free" | "next" => matches!(live.get(&g(1)), Some(L::Reg(..))),
            "free_route" | "use_route" => match (live.get(&g(1)).cloned(), live.get(&g(2)).cloned()) {
                (Some(L::Reg(reg, mut held)), Some(L::Tourish(true, a))) => {
                    if name == "free_route" {
                        held.retain(|x| *x != a);
                        live.remove(&g(2));
                    } else if reg.contains(&a) && !held.contains(&a) {
                        held.push(a);
                    }
                    live.insert(g(1), L::Reg(reg, held));
                    true
                }
                _ => false,
            },
            "touch" | "accept" | "set_state" => matches!(live.get(&g(1)), Some(L::Tourish(true, _))),
            _ => matches!(live.get(&g(1)), Some(L::Tourish(..))),
        };
        if ok {
            out.push(op);
        }
    }
    out
}

fn gen_world(rng: &mut Rng) -> (Vec<usize>, Vec<Value>) {
    let mut job_subs: Vec<usize> = (0..rng.usize(3, 5)).map(|_| 1).collect();
    for _ in 0..rng.usize(1, 2) {
        job_subs.push(rng.usize(2, 3));
    }
    rng.shuffle(&mut job_subs);
    let n_actors = rng.usize(3, 4);
    let mut closed: Vec<bool> = (0..n_actors).map(|_| rng.chance(1, 2)).collect();
    closed[0] = rng.chance(1, 2);
    closed[1] = !closed[0];
    // two vehicles (the first one with several shifts); group keys: by vehicle, all alike, all different, random
    let split = rng.usize(1, n_actors - 1);
    let mode = rng.below(4);
    let actors: Vec<Value> = (0..n_actors)
        .map(|i| {
            let v = if i < split { 0 } else { 1 };
            let g = match mode {
                0 => v,
                1 => 0,
                2 => i,
                _ => rng.usize(0, 1),
            };
            json!({"v": v, "closed": closed[i], "g": g * 3 + 1})
        })
        .collect();
    (job_subs, actors)
}

fn gen_sequence(rng: &mut Rng, kind: &str, len: usize) -> Value {
    let (job_subs, actors) = gen_world(rng);
    let n_actors = actors.len();
    let mut g = Gen { rng, job_subs: job_subs.clone(), n_actors, hs: BTreeMap::new(), next_h: 0, ops: vec![], bad_index: false };
    while g.ops.len() < len {
        match kind {
            "tour" => g.tour_op(false),
            "oor" => g.tour_op(true),
            "reg" => {
                if g.rng.chance(1, 5) {
                    g.tour_op(false)
                } else {
                    g.reg_op()
                }
            }
            _ => {
                if g.rng.chance(1, 2) {
                    g.tour_op(false)
                } else {
                    g.reg_op()
                }
            }
        }
    }
    let bad = g.bad_index;
    let ops = fix_handles(g.ops, n_actors);
    json!({"k": kind, "in_hyp": !(kind == "oor" && bad), "jobs": job_subs, "actors": actors, "ops": ops})
}

/// all operation sequences of the given length over a fixed alphabet (thorough tier)
fn gen_exhaustive_tour(cases: &mut Vec<Value>, closed: bool, kind: &str, max_len: usize) {
    // jobs: j0, j1 single, j2 multi with two sub-jobs; the tour handle is 0, copies get fresh handles and the
    // sequence continues on the ORIGINAL (so every copy must stay as it was)
    let actors = json!([{"v": 0, "closed": closed, "g": 0}, {"v": 1, "closed": !closed, "g": 1}]);
    const ALPHA: usize = 10;
    for len in 1..=max_len {
        for code in 0..ALPHA.pow(len as u32) {
            let mut ops = vec![json!([kind, 0, 0])];
            let mut mid: Vec<usize> = vec![];
            let mut next_h = 1;
            let mut rest = code;
            for _ in 0..len {
                let c = rest % ALPHA;
                rest /= ALPHA;
                let n = mid.len();
                let op = match c {
                    0 => {
                        mid.push(0);
                        json!(["ins_last", 0, 0, 0])
                    }
                    1 => {
                        mid.insert(0, 1);
                        json!(["ins_at", 0, 1, 0, 1])
                    }
                    2 => {
                        mid.insert(0, 2);
                        json!(["ins_at", 0, 2, 0, 1])
                    }
                    3 => {
                        mid.push(2);
                        json!(["ins_last", 0, 2, 1])
                    }
                    4 => {
                        let idx = 2.min(n + 1);
                        mid.insert(idx - 1, 0);
                        json!(["ins_at", 0, 0, 0, idx])
                    }
                    5 => {
                        mid.retain(|x| *x != 0);
                        json!(["rem", 0, 0])
                    }
                    6 => {
                        mid.retain(|x| *x != 2);
                        json!(["rem", 0, 2])
                    }
                    7 | 8 => {
                        let idx = c - 6;
                        if idx <= n {
                            let j = mid[idx - 1];
                            mid.retain(|x| *x != j);
                        }
                        json!(["rem_at", 0, idx])
                    }
                    _ => {
                        next_h += 1;
                        json!(["copy", next_h - 1, 0])
                    }
                };
                ops.push(op);
            }
            cases.push(json!({"k": "exh", "in_hyp": true, "jobs": [1, 1, 2], "actors": actors, "ops": ops}));
        }
    }
}

fn gen_exhaustive_reg(cases: &mut Vec<Value>, ctx: bool, max_len: usize) {
    // two actors of one group and one of another; handle 0 is the registry (context); routes / copies get fresh handles
    let actors = json!([{"v": 0, "closed": true, "g": 5}, {"v": 0, "closed": false, "g": 5}, {"v": 1, "closed": true, "g": 2}]);
    const ALPHA: usize = 9;
    let total = |len: usize| ALPHA.pow(len as u32);
    for len in 1..=max_len {
        for code in 0..total(len) {
            let mut ops = vec![json!([if ctx { "new_rctx" } else { "new_reg" }, 0])];
            let mut next_h = 1;
            let mut routes: Vec<usize> = vec![];
            let mut c = code;
            for _ in 0..len {
                let x = c % ALPHA;
                c /= ALPHA;
                let op = match (x, ctx) {
                    (0..=2, false) => json!(["use", 0, x]),
                    (3..=5, false) => json!(["free", 0, x - 3]),
                    (0..=2, true) => {
                        next_h += 1;
                        routes.push(next_h - 1);
                        json!(["get_route", 0, x, next_h - 1])
                    }
                    (3..=4, true) => match routes.get(x - 3) {
                        Some(r) => json!(["free_route", 0, r]),
                        None => json!(["next", 0]),
                    },
                    (5, true) => match routes.first() {
                        Some(r) => json!(["use_route", 0, r]),
                        None => json!(["next", 0]),
                    },
                    (6, _) => json!(["next", 0]),
                    (7, _) => {
                        next_h += 1;
                        json!(["copy", next_h - 1, 0])
                    }
                    _ => {
                        next_h += 1;
                        json!(["slice", next_h - 1, 0, [0, 2]])
                    }
                };
                ops.push(op);
            }
            let ops = fix_handles(ops, 3);
            cases.push(json!({"k": "exh", "in_hyp": true, "jobs": [1, 2], "actors": actors, "ops": ops}));
        }
    }
}

fn gen_cases(rng: &mut Rng, tier: Tier) -> Vec<Value> {
    let thorough = tier == Tier::Thorough;
    let scale = if thorough { 10 } else { 1 };
    let mut cases = vec![];
    for _ in 0..(400 * scale) {
        let len = rng.usize(5, 50);
        cases.push(gen_sequence(rng, "tour", len));
    }
    for _ in 0..(300 * scale) {
        let len = rng.usize(5, 50);
        cases.push(gen_sequence(rng, "reg", len));
    }
    for _ in 0..(300 * scale) {
        let len = rng.usize(5, 60);
        cases.push(gen_sequence(rng, "mixed", len));
    }
    for _ in 0..(100 * scale) {
        let len = rng.usize(3, 25);
        cases.push(gen_sequence(rng, "oor", len));
    }
    // exhaustive part: every word over the alphabet up to the given length
    let (tl, rl) = if thorough { (4, 4) } else { (3, 3) };
    gen_exhaustive_tour(&mut cases, true, "new_rc", if thorough { 5 } else { tl });
    gen_exhaustive_tour(&mut cases, false, "new_tour", tl);
    gen_exhaustive_reg(&mut cases, false, rl);
    gen_exhaustive_reg(&mut cases, true, rl);
    if thorough {
        for _ in 0..1000 {
            let len = rng.usize(100, 300);
            cases.push(gen_sequence(rng, "mixed", len));
        }
    }
    cases
}

fn main() {
    run_main(gen_cases, exec);
}
