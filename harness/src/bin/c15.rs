//! C15 — parallel evaluation does not depend on how the work is split: the real
//! `PositionInsertionEvaluator::evaluate_all` inside rayon pools of 1, 2, 3, 4, 8, 16 threads (repeated),
//! against the minimum of a sequential scan of unpruned `eval_job_insertion_in_route` calls.

use serde_json::{Value, json};
use vrp_core::construction::heuristics::*;
use vrp_core::models::problem::{Job, VehicleIdDimension};
use vrp_core::rosomaxa::utils::ThreadPool;
use vrp_verif_harness::evalcase::*;
use vrp_verif_harness::evalgen::*;
use vrp_verif_harness::pragen::quiet_env;
use vrp_verif_harness::*;

const POOLS: &[usize] = &[1, 2, 3, 4, 8, 16];

fn gen_cases(rng: &mut Rng, tier: Tier) -> Vec<Value> {
    let n = if tier == Tier::Thorough { 6000 } else { 400 };
    // VERIF_C15_NONMETRIC=1 (development only): search for witnesses of the known finding S9
    let metric = std::env::var("VERIF_C15_NONMETRIC").is_err();
    // a third of the work lists contain multi-task candidates (evaluated by `eval_multi`)
    (0..n)
        .map(|i| {
            let mut case = if i % 3 == 2 { gen_multi_route_case_with_multi_jobs(rng, metric) } else { gen_multi_route_case(rng, metric) };
            // every fifth work list has distances of the order 2^40 that differ by a few units (still exact in f64, still metric):
            // insertion costs that agree to 10-11 digits - a comparison with a tolerance is not the order the property speaks of
            if i % 5 == 4 {
                let n = case["n"].as_u64().unwrap() as usize;
                let base = 1i64 << 40;
                if let Some(dist) = case["dist"].as_array_mut() {
                    for (k, d) in dist.iter_mut().enumerate() {
                        if k / n != k % n {
                            *d = json!(d.as_i64().unwrap() + base);
                        }
                    }
                }
                case["near_ties"] = json!(true);
            }
            // every fourth work list is evaluated under the HEURISTIC goal (known_edge objective ranked second) on a solution
            // that carries a footprint: the edges of the current tours were seen `fp` times in earlier solutions
            if i % 4 == 1 {
                case["heuristic_goal"] = json!(true);
                case["fp"] = json!(rng.range(4, 40));
            }
            case
        })
        .collect()
}

fn cost_json(res: &InsertionResult) -> Value {
    match res {
        InsertionResult::Success(s) => json!(
            s.cost
                .iter()
                .map(|v| {
                    assert!(v.fract() == 0. && v.abs() < 9.0e15, "non-integral cost {v}");
                    v as i64
                })
                .collect::<Vec<_>>()
        ),
        InsertionResult::Failure(_) => Value::Null,
    }
}

fn exec(case: &Value) -> Value {
    let mut mc = build_multi_case(case, quiet_env());
    if let Some(times) = case["fp"].as_u64() {
        use vrp_core::models::common::{Footprint, Shadow};
        use vrp_core::rosomaxa::population::RosomaxaSolution;
        let mut footprint = Footprint::new(&mc.problem);
        let shadow = Shadow::from(&mc.ctx);
        (0..times).for_each(|_| footprint.add(&shadow));
        mc.ctx.on_update(&footprint);
    }
    let jobs: Vec<&Job> = mc.cands.iter().collect();
    let routes: Vec<&RouteContext> = mc.ctx.solution.routes.iter().chain(mc.ctx.solution.registry.next_route()).collect();
    let leg_selection = LegSelection::Exhaustive;
    let result_selector = BestResultSelector::default();
    let evaluator = PositionInsertionEvaluator::default();

    // sequential scan without any alternative (nothing is pruned): cost of every (route, job) pair
    let pairs: Vec<Value> = routes
        .iter()
        .flat_map(|route_ctx| {
            jobs.iter().map(|job| {
                let eval_ctx = EvaluationContext { goal: &mc.problem.goal, job, leg_selection: &leg_selection, result_selector: &result_selector };
                cost_json(&eval_job_insertion_in_route(&mc.ctx, &eval_ctx, route_ctx, InsertionPosition::Any, InsertionResult::make_failure()))
            })
            .collect::<Vec<_>>()
        })
        .collect();

    let repeats = 3;
    let pools: Vec<Value> = POOLS
        .iter()
        .map(|&threads| {
            let pool = ThreadPool::new(threads);
            let costs: Vec<Value> = (0..repeats)
                .map(|_| pool.execute(|| cost_json(&evaluator.evaluate_all(&mc.ctx, &jobs, &routes, &leg_selection, &result_selector))))
                .collect();
            json!(costs)
        })
        .collect();
    // route order as the evaluator saw it (vehicle index), so that the model lists the same work items
    let order: Vec<Value> = routes
        .iter()
        .map(|r| {
            let id = r.route().actor.vehicle.dimens.get_vehicle_id().cloned().unwrap_or_default();
            json!(id[1..].parse::<usize>().unwrap())
        })
        .collect();
    json!({"route_order": order, "pairs": pairs, "pools": pools})
}

fn main() {
    run_main(gen_cases, exec);
}
