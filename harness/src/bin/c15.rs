//! C15 — parallel evaluation does not depend on how the work is split: the real
//! `PositionInsertionEvaluator::evaluate_all` inside rayon pools of 1, 2, 3, 4, 8, 16 threads (repeated),
//! against the minimum of a sequential scan of unpruned `eval_job_insertion_in_route` calls.

use serde_json::{Value, json};
use vrp_core::construction::heuristics::*;
use vrp_core::models::problem::{Job, VehicleIdDimension};
use vrp_core::rosomaxa::utils::ThreadPool;
use vrp_verif_harness::evalcase::*;
use vrp_verif_harness::evalgen::*;
use vrp_verif_harness::pragen::quiet_env;
use vrp_verif_harness::*;

const POOLS: &[usize] = &[1, 2, 3, 4, 8, 16];

fn gen_cases(rng: &mut Rng, tier: Tier) -> Vec<Value> {
    let n = if tier == Tier::Thorough { 6000 } else { 400 };
    // VERIF_C15_NONMETRIC=1 (development only): search for witnesses of the known finding S9
    let metric = std::env::var("VERIF_C15_NONMETRIC").is_err();
    // a third of the work lists contain multi-task candidates (evaluated by `eval_multi`)
    (0..n)
        .map(|i| {
            let mut case = if i % 3 == 2 { gen_multi_route_case_with_multi_jobs(rng, metric) } else { gen_multi_route_case(rng, metric) };
            // every fifth work list has distances of the order 2^40 that differ by a few units (still exact in f64, still metric):
            // insertion costs that agree to 10-11 digits - a comparison with a tolerance is not the order the property speaks of
            if i % 5 == 4 {
                let n = case["n"].as_u64().unwrap() as usize;
                let base = 1i64 << 40;
                if let Some(dist) = case["dist"].as_array_mut() {
                    for (k, d) in dist.iter_mut().enumerate() {
                        if k / n != k % n {
                            *d = json!(d.as_i64().unwrap() + base);
                        }
                    }
                }
                case["near_ties"] = json!(true);
            }
            // every fourth work list is evaluated under the HEURISTIC goal (known_edge objective ranked second) on a solution
            // that carries a footprint: the edges of the current tours were seen `fp` times in earlier solutions
            if i % 4 == 1 {
                case["heuristic_goal"] = json!(true);
                case["fp"] = json!(rng.range(4, 40));
            }
            case
        })
        .collect::<Vec<_>>()
        .into_iter()
        .chain((0..(if tier == Tier::Thorough { 400 } else { 40 })).map(|_| gen_swap_star(rng)).collect::<Vec<_>>())
        .collect()
}

// ---------------------------------------------------------------------------------------------------------------------
// the SWAP* local search operator: its parallel evaluation of all (outer job, inner job) pairs of two tours, reduced to the
// lexicographically smallest change of the fitness vector, must not depend on the pool it runs on either

/// no randomness: the operator takes the first route pair and scans all legs
struct FixedRandom;

impl vrp_core::prelude::Random for FixedRandom {
    fn uniform_int(&self, min: i32, _: i32) -> i32 {
        min
    }
    fn uniform_real(&self, min: f64, _: f64) -> f64 {
        min
    }
    fn is_head_not_tails(&self) -> bool {
        false
    }
    fn is_hit(&self, probability: f64) -> bool {
        probability >= 1.
    }
    fn weighted(&self, _: &[usize]) -> usize {
        0
    }
    fn get_rng(&self) -> vrp_core::rosomaxa::utils::RandomGen {
        vrp_core::rosomaxa::utils::RandomGen::new_repeatable()
    }
}

/// two tours over random coordinates; a value objective ranked above the cost whose per-job values (for the second vehicle
/// only) are small multiples of a step between 1e-9 and 1e-6: candidate exchanges that agree to many digits in the higher
/// layer and differ clearly in the cost - an exact lexicographic minimum exists and is unique
fn gen_swap_star(rng: &mut Rng) -> Value {
    let per_route = rng.usize(4, 8);
    let pts: Vec<Value> = (0..1 + 2 * per_route).map(|_| json!([rng.range(0, 1000), rng.range(0, 1000)])).collect();
    let step_exp = rng.range(6, 9);
    let mut ks: Vec<i64> = (0..per_route as i64).collect();
    rng.shuffle(&mut ks);
    json!({"k": "swapstar", "per_route": per_route, "pts": pts, "step_exp": step_exp, "ks": ks, "value_above_cost": rng.chance(5, 6)})
}

fn exec_swap_star(case: &Value) -> Value {
    use std::sync::Arc;
    use vrp_core::construction::features::{JobReadValueFn, create_maximize_total_job_value_feature};
    use vrp_core::models::problem::JobIdDimension;
    use vrp_core::models::solution::{Activity, Place};
    use vrp_core::prelude::*;
    use vrp_core::rosomaxa::evolution::TelemetryMode;
    use vrp_core::solver::search::{ExchangeSwapStar, LocalOperator};
    use vrp_core::solver::{GreedyPopulation, RefinementContext};
    use vrp_core::utils::Parallelism;

    let per_route = case["per_route"].as_u64().unwrap() as usize;
    let pts: Vec<(f64, f64)> = case["pts"].as_array().unwrap().iter().map(|p| (p[0].as_f64().unwrap() / 10., p[1].as_f64().unwrap() / 10.)).collect();
    let step = 10f64.powi(-(case["step_exp"].as_i64().unwrap() as i32)) * 0.3;
    let ks: Vec<i64> = case["ks"].as_array().unwrap().iter().map(|k| k.as_i64().unwrap()).collect();
    let matrix: Vec<f64> = pts.iter().flat_map(|a| pts.iter().map(move |b| ((a.0 - b.0).powi(2) + (a.1 - b.1).powi(2)).sqrt())).collect();
    let transport: Arc<dyn TransportCost> = Arc::new(SimpleTransportCost::new(matrix.clone(), matrix).unwrap());
    let jobs: Vec<Job> = (1..=2 * per_route)
        .map(|idx| {
            SingleBuilder::default()
                .id(format!("c{idx}").as_str())
                .location(idx)
                .unwrap()
                .build_as_job()
                .unwrap()
        })
        .collect();
    let vehicles: Vec<Vehicle> = ["v0", "v1"]
        .into_iter()
        .map(|id| {
            VehicleBuilder::default()
                .id(id)
                .add_detail(VehicleDetailBuilder::default().set_start_location(0).set_end_location(0).build().unwrap())
                .build()
                .unwrap()
        })
        .collect();
    let bonus: Arc<std::collections::HashMap<String, f64>> =
        Arc::new((1..=2 * per_route).map(|idx| (format!("c{idx}"), ks[(idx - 1) % per_route] as f64 * step)).collect());
    let minimize_unassigned = MinimizeUnassignedBuilder::new("min-unassigned").build().unwrap();
    let maximize_value = create_maximize_total_job_value_feature(
        "max-value",
        JobReadValueFn::Right(Arc::new(move |actor, job| {
            if actor.vehicle.dimens.get_vehicle_id().is_some_and(|id| id == "v1") {
                job.dimens().get_job_id().and_then(|id| bonus.get(id)).copied().unwrap_or(0.)
            } else {
                0.
            }
        })),
        Arc::new(|job, _| job),
        ViolationCode::unknown(),
    )
    .unwrap();
    let minimize_cost = TransportFeatureBuilder::new("min-cost").set_transport_cost(transport.clone()).set_time_constrained(false).build_minimize_cost().unwrap();
    let features = if case["value_above_cost"].as_bool().unwrap_or(true) {
        vec![minimize_unassigned, maximize_value, minimize_cost]
    } else {
        vec![minimize_unassigned, minimize_cost, maximize_value]
    };
    let goal = GoalContextBuilder::with_features(&features).unwrap().build().unwrap();
    let problem = Arc::new(
        ProblemBuilder::default().add_jobs(jobs.into_iter()).add_vehicles(vehicles.into_iter()).with_goal(goal).with_transport_cost(transport).build().unwrap(),
    );
    let random: Arc<dyn Random> = Arc::new(FixedRandom);
    let mut outcomes: Vec<Value> = vec![];
    for (pools, threads) in [(1usize, 1usize), (1, 2), (1, 3), (1, 4), (2, 4), (1, 8), (1, 16)] {
        for _ in 0..2 {
            let parallelism = Parallelism::new(pools, threads);
            let environment = Arc::new(Environment::new(random.clone(), None, parallelism.clone(), Arc::new(|_: &str| {}), false));
            let mut ctx = InsertionContext::new_empty(problem.clone(), environment.clone());
            for (vehicle_id, range) in [("v0", 1..=per_route), ("v1", per_route + 1..=2 * per_route)] {
                let actor = problem.fleet.actors.iter().find(|a| a.vehicle.dimens.get_vehicle_id().is_some_and(|id| id == vehicle_id)).cloned().unwrap();
                let mut route_ctx = ctx.solution.registry.get_route(&actor).unwrap();
                for idx in range {
                    let job = problem.jobs.all().iter().find(|job| job.dimens().get_job_id().unwrap() == &format!("c{idx}")).cloned().unwrap();
                    let single = job.as_single().cloned().unwrap();
                    let place = single.places.first().unwrap();
                    let mut activity = Activity::new_with_job(single.clone());
                    activity.place = Place { idx: 0, location: place.location.unwrap(), duration: place.duration, time: place.times.first().unwrap().to_time_window(0.) };
                    route_ctx.route_mut().tour.insert_last(activity);
                }
                ctx.solution.routes.push(route_ctx);
            }
            ctx.restore();
            let refinement_ctx = RefinementContext::new(problem.clone(), Box::new(GreedyPopulation::new(problem.goal.clone(), 1, None)), TelemetryMode::None, environment.clone());
            let operator = ExchangeSwapStar::new(random.clone(), 200);
            let result = parallelism.thread_pool_execute(pools - 1, || operator.explore(&refinement_ctx, &ctx));
            let sig = match result {
                None => json!(null),
                Some(r) => {
                    let mut tours: Vec<(String, Vec<String>)> = r
                        .solution
                        .routes
                        .iter()
                        .map(|rc| {
                            (
                                rc.route().actor.vehicle.dimens.get_vehicle_id().unwrap().clone(),
                                rc.route().tour.all_activities().filter_map(|a| a.retrieve_job()).map(|j| j.dimens().get_job_id().unwrap().clone()).collect(),
                            )
                        })
                        .collect();
                    tours.sort();
                    json!({"tours": tours, "fitness": problem.goal.fitness(&r).map(|f| f.to_bits()).collect::<Vec<u64>>()})
                }
            };
            outcomes.push(sig);
        }
    }
    let distinct = outcomes.iter().map(|o| o.to_string()).collect::<std::collections::BTreeSet<_>>().len();
    json!({"outcomes": outcomes, "distinct": distinct})
}

fn cost_json(res: &InsertionResult) -> Value {
    match res {
        InsertionResult::Success(s) => json!(
            s.cost
                .iter()
                .map(|v| {
                    assert!(v.fract() == 0. && v.abs() < 9.0e15, "non-integral cost {v}");
                    v as i64
                })
                .collect::<Vec<_>>()
        ),
        InsertionResult::Failure(_) => Value::Null,
    }
}

fn exec(case: &Value) -> Value {
    if case["k"] == "swapstar" {
        return exec_swap_star(case);
    }
    let mut mc = build_multi_case(case, quiet_env());
    if let Some(times) = case["fp"].as_u64() {
        use vrp_core::models::common::{Footprint, Shadow};
        use vrp_core::rosomaxa::population::RosomaxaSolution;
        let mut footprint = Footprint::new(&mc.problem);
        let shadow = Shadow::from(&mc.ctx);
        (0..times).for_each(|_| footprint.add(&shadow));
        mc.ctx.on_update(&footprint);
    }
    let jobs: Vec<&Job> = mc.cands.iter().collect();
    let routes: Vec<&RouteContext> = mc.ctx.solution.routes.iter().chain(mc.ctx.solution.registry.next_route()).collect();
    let leg_selection = LegSelection::Exhaustive;
    let result_selector = BestResultSelector::default();
    let evaluator = PositionInsertionEvaluator::default();

    // sequential scan without any alternative (nothing is pruned): cost of every (route, job) pair
    let pairs: Vec<Value> = routes
        .iter()
        .flat_map(|route_ctx| {
            jobs.iter().map(|job| {
                let eval_ctx = EvaluationContext { goal: &mc.problem.goal, job, leg_selection: &leg_selection, result_selector: &result_selector };
                cost_json(&eval_job_insertion_in_route(&mc.ctx, &eval_ctx, route_ctx, InsertionPosition::Any, InsertionResult::make_failure()))
            })
            .collect::<Vec<_>>()
        })
        .collect();

    let repeats = 3;
    let pools: Vec<Value> = POOLS
        .iter()
        .map(|&threads| {
            let pool = ThreadPool::new(threads);
            let costs: Vec<Value> = (0..repeats)
                .map(|_| pool.execute(|| cost_json(&evaluator.evaluate_all(&mc.ctx, &jobs, &routes, &leg_selection, &result_selector))))
                .collect();
            json!(costs)
        })
        .collect();
    // route order as the evaluator saw it (vehicle index), so that the model lists the same work items
    let order: Vec<Value> = routes
        .iter()
        .map(|r| {
            let id = r.route().actor.vehicle.dimens.get_vehicle_id().cloned().unwrap_or_default();
            json!(id[1..].parse::<usize>().unwrap())
        })
        .collect();
    json!({"route_order": order, "pairs": pairs, "pools": pools})
}

fn main() {
    run_main(gen_cases, exec);
}
