//! C16 — routing-cost providers return exactly the supplied data: runs the real providers
//! (`create_matrix_transport_cost[_with_fallback]`, `SimpleTransportCost`, the transport built by
//! `read_pragmatic` from matrices or from coordinates, the scientific `CoordIndex::create_transport`)
//! through the `TransportCost` trait methods and prints every value as an exact rational.

use serde_json::{Value, json};
use std::cell::Cell;
use std::io::BufReader;
use std::panic::{AssertUnwindSafe, catch_unwind};
use std::sync::Arc;
use vrp_core::models::common::{Distance, Duration, Location, Profile, TimeWindow};
use vrp_core::models::problem::{
    Actor, ActorDetail, Costs, Driver, MatrixData, SimpleTransportCost, TransportCost, TransportFallback, TravelTime,
    Vehicle, VehicleIdDimension, create_matrix_transport_cost, create_matrix_transport_cost_with_fallback,
};
use vrp_core::models::solution::{Route, Tour};
use vrp_pragmatic::format::problem::{PragmaticProblem, create_approx_matrices, deserialize_problem};
use vrp_pragmatic::format::{CoordIndexExtraProperty, Location as ApiLocation};
use vrp_verif_harness::*;

/// S28 switch — which `fleet_reader::create_transport_costs` is in /repo:
/// 0 = before 83519b0 (a matrix whose name is not a fleet profile is mapped by its list position),
/// 1 = the rejected alternative `fixes/S28.patch` (every such name is an error),
/// 2 = as it stands (83519b0: fleet profile names mixed with other names are an error; a set in which *no* name is
///     a fleet profile is still mapped by position — documented behaviour pinned by upstream's unit tests).
/// Streams: dev "S28" = known and unknown names mixed, dev "S28u" = no name known. A stream is inside the hypotheses
/// (oracle `unknown_name_rejected` applies) once the variant rejects it. Keep in step with `readerMode` in VrpModel/C16.lean
/// and with the `in_hyp` flags of corpus/C16/S28.jsonl.
const S28_MODE: u8 = 2;

thread_local! {
    static INEXACT: Cell<bool> = const { Cell::new(false) };
}

/// a finite `f64` as an exact reduced fraction `[num, den]` with a power-of-two denominator
fn rat(v: f64) -> Value {
    if !v.is_finite() {
        INEXACT.with(|c| c.set(true));
        return json!(null);
    }
    if v == 0. {
        return json!([0, 1]);
    }
    let bits = v.to_bits();
    let neg = (bits >> 63) == 1;
    let exp = ((bits >> 52) & 0x7ff) as i64;
    let frac = bits & ((1u64 << 52) - 1);
    let (mut m, mut e) = if exp == 0 { (frac, -1074i64) } else { (frac | (1u64 << 52), exp - 1075) };
    while m & 1 == 0 {
        m >>= 1;
        e += 1;
    }
    // every value printed must come from an exact computation: far fewer than 53 significant bits
    if v.abs() >= (1u64 << 45) as f64 || e < -40 {
        INEXACT.with(|c| c.set(true));
        return json!(null);
    }
    let (num, den) = if e >= 0 { ((m << e) as i64, 1i64) } else { (m as i64, 1i64 << (-e)) };
    json!([if neg { -num } else { num }, den])
}

fn parse_rat(v: &Value) -> f64 {
    let n = v[0].as_i64().unwrap() as f64;
    let d = v[1].as_i64().unwrap() as f64;
    assert!(d > 0. && (d as u64).is_power_of_two(), "denominators are powers of two");
    n / d
}

fn i64s(v: &Value) -> Vec<i64> {
    v.as_array().unwrap().iter().map(|x| x.as_i64().unwrap()).collect()
}

fn floats(v: &Value) -> Vec<f64> {
    i64s(v).into_iter().map(|x| x as f64).collect()
}

struct FixedFallback(f64, f64);

impl TransportFallback for FixedFallback {
    fn duration(&self, _: &Profile, _: Location, _: Location) -> Duration {
        self.0
    }
    fn distance(&self, _: &Profile, _: Location, _: Location) -> Distance {
        self.1
    }
}

fn zero_costs() -> Costs {
    Costs { fixed: 0., per_distance: 0., per_driving_time: 0., per_waiting_time: 0., per_service_time: 0. }
}

fn route_for(profile: Profile) -> Route {
    let vehicle =
        Arc::new(Vehicle { profile, costs: zero_costs(), dimens: Default::default(), details: vec![] });
    let driver = Arc::new(Driver { costs: zero_costs(), dimens: Default::default(), details: vec![] });
    let actor = Arc::new(Actor {
        vehicle,
        driver,
        detail: ActorDetail { start: None, end: None, time: TimeWindow::new(0., f64::MAX) },
    });
    Route { actor, tour: Tour::default() }
}

/// one query through all four trait methods; a panic of the real code (missing profile, `NoFallback`) is `null`
fn query(transport: &dyn TransportCost, route: &Route, q: &Value) -> Value {
    let from = q["f"].as_u64().unwrap() as usize;
    let to = q["t"].as_u64().unwrap() as usize;
    let at = parse_rat(&q["at"]);
    let tt = if q["arr"].as_bool().unwrap_or(false) { TravelTime::Arrival(at) } else { TravelTime::Departure(at) };
    let profile = route.actor.vehicle.profile.clone();
    let r = catch_unwind(AssertUnwindSafe(|| {
        (
            transport.duration(route, from, to, tt),
            transport.distance(route, from, to, tt),
            transport.duration_approx(&profile, from, to),
            transport.distance_approx(&profile, from, to),
        )
    }));
    match r {
        Ok((du, di, adu, adi)) => json!([rat(du), rat(di), rat(adu), rat(adi)]),
        Err(_) => json!(null),
    }
}

fn classify_build(msg: &str) -> String {
    let table = [
        ("no matrix data found", "empty"),
        ("distance and duration collections have different length", "lenMismatch"),
        ("distance lengths don't match", "distSize"),
        ("duration lengths don't match", "durSize"),
        ("time-aware routing requires all matrices to have timestamp", "missingTimestamp"),
        ("should not use time aware matrix routing with single matrix", "singleTimed"),
        ("matrix is not square", "notSquare"),
        ("duplicate timestamps for the same profile", "duplicateTimestamp"),
        ("error codes and distances have different length", "errorCodesLength"),
        ("duplicate profiles can be passed only for time aware routing", "agnosticProfiles"),
        ("time aware routing", "timedInAgnostic"),
        ("all matrices should have profile set or none of them", "mixedNames"),
        ("when timestamp is set, all matrices should have profile set", "timedUnnamed"),
        ("not enough routing matrices specified", "notEnough"),
        ("invalid matrix index", "invalidIndex"),
        ("amount of fleet profiles does not match matrix profiles", "profileCount"),
        ("some matrix profiles are not defined", "mixedKnownNames"),
        ("is not defined in fleet profiles", "unknownName"),
    ];
    table.iter().find(|(k, _)| msg.contains(k)).map(|(_, v)| v.to_string()).unwrap_or_else(|| format!("other:{msg}"))
}

fn exec_core(case: &Value) -> Value {
    let ms: Vec<MatrixData> = case["ms"]
        .as_array()
        .unwrap()
        .iter()
        .map(|m| {
            MatrixData::new(
                m["p"].as_u64().unwrap() as usize,
                m["ts"].as_i64().map(|t| t as f64),
                floats(&m["dur"]),
                floats(&m["dist"]),
            )
        })
        .collect();
    let res = match case.get("fb").filter(|f| !f.is_null()) {
        Some(fb) => create_matrix_transport_cost_with_fallback(
            ms,
            FixedFallback(fb[0].as_i64().unwrap() as f64, fb[1].as_i64().unwrap() as f64),
        ),
        None => create_matrix_transport_cost(ms),
    };
    match res {
        Err(e) => json!({"err": classify_build(&e.to_string())}),
        Ok(transport) => {
            let routes: Vec<Route> = case["vs"]
                .as_array()
                .unwrap()
                .iter()
                .map(|v| route_for(Profile::new(v["p"].as_u64().unwrap() as usize, Some(parse_rat(&v["sc"])))))
                .collect();
            let rs: Vec<Value> = case["qs"]
                .as_array()
                .unwrap()
                .iter()
                .map(|q| query(transport.as_ref(), &routes[q["v"].as_u64().unwrap() as usize], q))
                .collect();
            json!({"size": transport.size(), "rs": rs})
        }
    }
}

fn rfc3339(t: i64) -> String {
    assert!((0..28 * 86400).contains(&t));
    format!("1970-01-{:02}T{:02}:{:02}:{:02}Z", t / 86400 + 1, (t % 86400) / 3600, (t % 3600) / 60, t % 60)
}

fn vehicle_json(i: usize, v: &Value, start: Value) -> Value {
    let mut profile = json!({"matrix": v["prof"]});
    if !v["sc"].is_null() {
        profile["scale"] = json!(parse_rat(&v["sc"]));
    }
    json!({
        "typeId": format!("t{i}"), "vehicleIds": [format!("v{i}")], "profile": profile,
        "costs": {"fixed": 0.0, "distance": 1.0, "time": 1.0},
        "shifts": [{"start": {"earliest": "1970-01-01T00:00:00Z", "location": start}}],
        "capacity": [100]
    })
}

fn job_json(i: usize, location: Value) -> Value {
    json!({"id": format!("j{i}"), "deliveries": [{"places": [{"location": location, "duration": 1.0}], "demand": [1]}]})
}

fn error_codes(e: &vrp_pragmatic::format::MultiFormatError) -> Value {
    let mut codes: Vec<String> = e
        .errors
        .iter()
        .map(|e| if e.code == "E0002" { format!("E0002:{}", classify_build(&e.action)) } else { e.code.clone() })
        .collect();
    codes.sort();
    json!({"err": codes})
}

fn exec_prag(case: &Value) -> Value {
    let locs: Vec<u64> = case["locs"].as_array().unwrap().iter().map(|l| l.as_u64().unwrap()).collect();
    let mut jobs: Vec<Value> = locs.iter().enumerate().map(|(i, l)| job_json(i, json!({"index": l}))).collect();
    let with_unknown = case["unk"].as_bool().unwrap_or(false);
    if with_unknown {
        // a job at a location of the custom `unknown` type (no reference into the matrix)
        jobs.push(job_json(locs.len(), json!({"type": "unknown"})));
    }
    let vs = case["vs"].as_array().unwrap();
    let mut vehicles: Vec<Value> =
        vs.iter().enumerate().map(|(i, v)| vehicle_json(i, v, json!({"index": locs[0]}))).collect();
    if case["rb"].as_bool().unwrap_or(false) {
        if let Some(last) = vehicles.last_mut() {
            last["shifts"][0]["breaks"] =
                json!([{"time": {"earliest": "2100-01-01T00:00:00Z", "latest": "2100-01-01T00:00:00Z"}, "duration": 3600.0}]);
        }
    }
    let profiles: Vec<Value> = case["profiles"].as_array().unwrap().iter().map(|n| json!({"name": n})).collect();
    let problem = json!({"plan": {"jobs": jobs}, "fleet": {"vehicles": vehicles, "profiles": profiles}});
    let matrices: Vec<String> = case["ms"]
        .as_array()
        .unwrap()
        .iter()
        .map(|m| {
            let mut j = json!({"travelTimes": m["tt"], "distances": m["dist"]});
            if !m["name"].is_null() {
                j["profile"] = m["name"].clone();
            }
            if let Some(t) = m["ts"].as_i64() {
                j["timestamp"] = json!(rfc3339(t));
            }
            if !m["err"].is_null() {
                j["errorCodes"] = m["err"].clone();
            }
            j.to_string()
        })
        .collect();
    match (problem.to_string(), matrices).read_pragmatic() {
        Err(e) => error_codes(&e),
        Ok(problem) => {
            let routes: Vec<Route> = (0..vs.len())
                .map(|i| {
                    let id = format!("v{i}");
                    let actor = problem
                        .fleet
                        .actors
                        .iter()
                        .find(|a| a.vehicle.dimens.get_vehicle_id() == Some(&id))
                        .expect("actor of the vehicle")
                        .clone();
                    Route { actor, tour: Tour::default() }
                })
                .collect();
            let rs: Vec<Value> = case["qs"]
                .as_array()
                .unwrap()
                .iter()
                .map(|q| query(problem.transport.as_ref(), &routes[q["v"].as_u64().unwrap() as usize], q))
                .collect();
            let mut out = json!({"size": problem.transport.size(), "rs": rs});
            if with_unknown {
                // the index the unknown location got, and what vehicle 0 sees between it and every matrix index
                let idx = problem
                    .extras
                    .get_coord_index()
                    .and_then(|ci| ci.get_by_loc(&ApiLocation::new_unknown()))
                    .expect("index of the unknown location");
                let n = problem.transport.size();
                let probe = |f: usize, t: usize| {
                    let q = json!({"f": f, "t": t, "at": [0, 1], "arr": false});
                    query(problem.transport.as_ref(), &routes[0], &q)
                };
                let to: Vec<Value> = (0..n).map(|i| probe(i, idx)).collect();
                let from: Vec<Value> = (0..n).map(|i| probe(idx, i)).collect();
                out["unk"] = json!({"idx": idx, "to": to, "from": from, "self": probe(idx, idx)});
            }
            out
        }
    }
}

fn exec_simple(case: &Value) -> Value {
    match SimpleTransportCost::new(floats(&case["dur"]), floats(&case["dist"])) {
        Err(_) => json!({"err": "len"}),
        Ok(t) => {
            let route = route_for(Profile::new(0, Some(8.)));
            let rs: Vec<Value> = case["qs"]
                .as_array()
                .unwrap()
                .iter()
                .map(|q| {
                    let (f, to) = (q["f"].as_u64().unwrap() as usize, q["t"].as_u64().unwrap() as usize);
                    let (du, di) = (t.duration_approx(&route.actor.vehicle.profile, f, to), t.distance_approx(&route.actor.vehicle.profile, f, to));
                    // the route-based methods must tell the same story, whatever the time
                    assert!(du == t.duration(&route, f, to, TravelTime::Departure(7.)));
                    assert!(di == t.distance(&route, f, to, TravelTime::Arrival(3.)));
                    assert!(du.fract() == 0. && di.fract() == 0.);
                    json!([du as i64, di as i64])
                })
                .collect();
            json!({"size": t.size(), "rs": rs})
        }
    }
}

fn exec_euclid(case: &Value) -> Value {
    let mut index = vrp_scientific::common::CoordIndex::default();
    let ids: Vec<usize> = case["pts"]
        .as_array()
        .unwrap()
        .iter()
        .map(|p| index.collect((p[0].as_i64().unwrap() as i32, p[1].as_i64().unwrap() as i32)))
        .collect();
    let rounded = case["rounded"].as_bool().unwrap();
    let logger: vrp_core::prelude::InfoLogger = Arc::new(|_| {});
    let t = index.create_transport(rounded, &logger).expect("square by construction");
    let n = t.size();
    let route = route_for(Profile::new(0, Some(4.)));
    let profile = route.actor.vehicle.profile.clone();
    let mut same = true;
    let mut vals = vec![];
    for f in 0..n {
        for to in 0..n {
            let v = t.distance_approx(&profile, f, to);
            same &= v.to_bits() == t.duration_approx(&profile, f, to).to_bits()
                && v.to_bits() == t.duration(&route, f, to, TravelTime::Departure(5.)).to_bits()
                && v.to_bits() == t.distance(&route, f, to, TravelTime::Arrival(5.)).to_bits();
            vals.push(v);
        }
    }
    if rounded && !vals.iter().all(|v| v.fract() == 0.) {
        // a rounded matrix with a non-integral entry: reported to the driver (oracle `rounded_entries_integral`), not asserted
        json!({"ids": ids, "size": n, "same": same, "non_integral": true, "bits": vals.iter().map(|v| v.to_bits()).collect::<Vec<_>>()})
    } else if rounded {
        json!({"ids": ids, "size": n, "same": same, "m": vals.iter().map(|v| *v as i64).collect::<Vec<_>>()})
    } else {
        json!({"ids": ids, "size": n, "same": same, "bits": vals.iter().map(|v| v.to_bits()).collect::<Vec<_>>()})
    }
}

fn coord(p: &Value) -> Value {
    json!({"lat": p[0].as_i64().unwrap() as f64 / 10000., "lng": p[1].as_i64().unwrap() as f64 / 10000.})
}

fn exec_approx(case: &Value) -> Value {
    let pts = case["pts"].as_array().unwrap();
    let jobs: Vec<Value> = pts.iter().enumerate().map(|(i, p)| job_json(i, coord(p))).collect();
    let vs = case["vs"].as_array().unwrap();
    let vehicles: Vec<Value> = vs.iter().enumerate().map(|(i, v)| vehicle_json(i, v, coord(&pts[0]))).collect();
    let profiles: Vec<Value> = case["profiles"]
        .as_array()
        .unwrap()
        .iter()
        .map(|p| {
            let mut j = json!({"name": p["name"]});
            if !p["speed"].is_null() {
                j["speed"] = json!(p["speed"].as_i64().unwrap() as f64);
            }
            j
        })
        .collect();
    let text = json!({"plan": {"jobs": jobs}, "fleet": {"vehicles": vehicles, "profiles": profiles}}).to_string();
    let api = deserialize_problem(BufReader::new(text.as_bytes())).expect("valid problem");
    let mats: Vec<Value> = create_approx_matrices(&api)
        .iter()
        .map(|m| {
            assert!(m.timestamp.is_none() && m.error_codes.is_none());
            json!({"name": m.profile, "tt": m.travel_times, "dist": m.distances})
        })
        .collect();
    match text.read_pragmatic() {
        Err(e) => json!({"mats": mats, "read": error_codes(&e)}),
        Ok(problem) => {
            let n = problem.transport.size();
            let per_vehicle: Vec<Value> = (0..vs.len())
                .map(|i| {
                    let id = format!("v{i}");
                    let actor =
                        problem.fleet.actors.iter().find(|a| a.vehicle.dimens.get_vehicle_id() == Some(&id)).unwrap().clone();
                    let route = Route { actor, tour: Tour::default() };
                    let mut du = vec![];
                    let mut di = vec![];
                    for f in 0..n {
                        for to in 0..n {
                            du.push(rat(problem.transport.duration(&route, f, to, TravelTime::Departure(0.))));
                            di.push(rat(problem.transport.distance(&route, f, to, TravelTime::Departure(0.))));
                        }
                    }
                    json!({"du": du, "di": di})
                })
                .collect();
            json!({"mats": mats, "read": {"size": n, "vs": per_vehicle}})
        }
    }
}

fn exec(case: &Value) -> Value {
    INEXACT.with(|c| c.set(false));
    let out = match case["k"].as_str().unwrap() {
        "core" => exec_core(case),
        "prag" => exec_prag(case),
        "simple" => exec_simple(case),
        "euclid" => exec_euclid(case),
        "approx" => exec_approx(case),
        other => panic!("unknown case kind {other}"),
    };
    if INEXACT.with(|c| c.get()) { json!({"inexact": true}) } else { out }
}

// ------------------------------------------------------------------------------------------------
// generators

fn entries(rng: &mut Rng, len: usize, style: u64) -> Vec<i64> {
    (0..len)
        .map(|_| match style {
            0 => rng.range(0, 9),              // many ties
            1 => rng.range(0, (1 << 20) - 1),  // large
            2 => {
                if rng.chance(1, 5) { -1 } else { rng.range(0, 1000) } // unreachable entries
            }
            _ => rng.range(0, 200),
        })
        .collect()
}

fn dyadic(rng: &mut Rng) -> Value {
    match rng.below(6) {
        0 => json!([1, 1]),
        1 => json!([rng.range(0, 3), 1]),
        _ => {
            let k = rng.range(0, 4);
            let mut num = rng.range(1, 48);
            let mut den = 1i64 << k;
            while den > 1 && num % 2 == 0 {
                num /= 2;
                den /= 2;
            }
            json!([num, den])
        }
    }
}

fn frac(num: i64, den: i64) -> Value {
    let (mut n, mut d) = (num, den);
    while d > 1 && n % 2 == 0 {
        n /= 2;
        d /= 2;
    }
    json!([n, d])
}

/// timestamps of one profile: increasing, gaps `m * 2^g`; returns (timestamps, per gap (m, g))
fn timestamps(rng: &mut Rng, count: usize, allow_negative: bool) -> (Vec<i64>, Vec<(i64, i64)>) {
    let mut t = if allow_negative && rng.chance(1, 6) { rng.range(-40, -1) } else { rng.range(0, 50) };
    let mut ts = vec![t];
    let mut gaps = vec![];
    for _ in 1..count {
        let g = rng.range(0, 6);
        let m = if rng.chance(1, 4) { *rng.pick(&[3i64, 5, 7]) } else { 1 };
        t += m << g;
        if t <= 0 {
            // two timestamps below 1 would share the u64 key 0 (that class is generated separately)
            t = 1 + (m << g);
        }
        ts.push(t);
        gaps.push((m, g));
    }
    // a clamped step changes the first gap: recompute it as (odd part, power of two)
    for i in 0..gaps.len() {
        let span = ts[i + 1] - ts[i];
        let g = span.trailing_zeros() as i64;
        gaps[i] = (span >> g, g);
    }
    (ts, gaps)
}

/// query times around the timestamps of one profile; every interpolation ratio is a short dyadic number
fn query_times(rng: &mut Rng, ts: &[i64], gaps: &[(i64, i64)]) -> Vec<Value> {
    let mut out = vec![];
    let first = ts[0];
    let last = *ts.last().unwrap();
    for &t in ts {
        out.push(frac(t, 1)); // exactly at a matrix timestamp
        if t >= 0 {
            out.push(frac(4 * t + rng.range(1, 3), 4)); // same u64 key as the timestamp
        }
    }
    out.push(frac(first - rng.range(1, 30), 1));
    out.push(frac(2 * first - 1, 2));
    out.push(frac(last + rng.range(1, 30), 1));
    out.push(frac(4 * (last + 1) + 1, 4));
    for (i, &(m, g)) in gaps.iter().enumerate() {
        let (l, span) = (ts[i], m << g);
        if span >= 2 {
            // integer points strictly inside, ratio = j / 2^g
            for _ in 0..2 {
                let j = rng.range(1, ((1i64 << g) - 1).max(1));
                if m * j < span {
                    out.push(frac(l + m * j, 1));
                }
            }
            out.push(frac(l + span - 1, 1));
            if m == 1 {
                // fractional points: just before the right timestamp and a quarter after an inner second
                out.push(frac(2 * (l + span) - 1, 2));
                out.push(frac(4 * (l + 1) + 1, 4));
            }
        }
    }
    // only times whose ratio is dyadic were produced for m == 1; for m > 1 the integer points l + m*j are dyadic,
    // but `l + span - 1` is not: drop those
    out.into_iter()
        .filter(|t| {
            let (n, d) = (t[0].as_i64().unwrap(), t[1].as_i64().unwrap());
            // locate the bracket
            let key = if n < 0 { 0 } else { n / d };
            if ts.iter().any(|&x| x.max(0) == key) {
                return true;
            }
            match ts.iter().position(|&x| x.max(0) > key) {
                None | Some(0) => true,
                Some(i) => {
                    // ratio = (n/d - l) / span must be dyadic: span * d must divide (n - l*d) * 2^k for some k
                    let span = ts[i] - ts[i - 1];
                    let odd = span >> span.trailing_zeros();
                    (n - ts[i - 1] * d) % odd == 0
                }
            }
        })
        .collect()
}

fn pairs(rng: &mut Rng, n: usize, count: usize) -> Vec<(usize, usize)> {
    if n == 0 {
        return vec![(0, 0)];
    }
    if n * n <= count {
        return (0..n).flat_map(|f| (0..n).map(move |t| (f, t))).collect();
    }
    (0..count).map(|_| (rng.usize(0, n - 1), rng.usize(0, n - 1))).collect()
}

/// a consistent core set: (matrices, per profile timestamps+gaps or None)
fn core_set(rng: &mut Rng, n: usize, np: usize, timed: bool) -> (Vec<Value>, Vec<Option<(Vec<i64>, Vec<(i64, i64)>)>>) {
    let style = rng.below(4);
    let mut ms = vec![];
    let mut info = vec![];
    for p in 0..np {
        if timed {
            let count = rng.usize(2, 4);
            let (ts, gaps) = timestamps(rng, count, true);
            for &t in &ts {
                ms.push(json!({"p": p, "ts": t, "dur": entries(rng, n * n, style), "dist": entries(rng, n * n, style)}));
            }
            info.push(Some((ts, gaps)));
        } else {
            ms.push(json!({"p": p, "ts": null, "dur": entries(rng, n * n, style), "dist": entries(rng, n * n, style)}));
            info.push(None);
        }
    }
    rng.shuffle(&mut ms);
    (ms, info)
}

fn queries(
    rng: &mut Rng,
    n: usize,
    vehicle_profiles: &[usize],
    info: &[Option<(Vec<i64>, Vec<(i64, i64)>)>],
    budget: usize,
) -> Vec<Value> {
    let mut qs = vec![];
    for (vi, &p) in vehicle_profiles.iter().enumerate() {
        let times = match info.get(p).and_then(|x| x.as_ref()) {
            Some((ts, gaps)) => query_times(rng, ts, gaps),
            None => vec![frac(0, 1), frac(rng.range(-5, 100), 1), frac(rng.range(1, 400), 4)],
        };
        for (f, t) in pairs(rng, n, budget) {
            let k = if info.get(p).is_some_and(|x| x.is_some()) { 3 } else { 1 };
            for _ in 0..k {
                qs.push(json!({"v": vi, "f": f, "t": t, "at": rng.pick(&times), "arr": rng.chance(1, 2)}));
            }
        }
        // every time at one pair
        let (f, t) = (rng.usize(0, n.max(1) - 1), rng.usize(0, n.max(1) - 1));
        for at in &times {
            qs.push(json!({"v": vi, "f": f, "t": t, "at": at, "arr": rng.chance(1, 2)}));
        }
    }
    qs
}

fn gen_core_ok(rng: &mut Rng) -> Value {
    let n = rng.usize(1, 4);
    let np = rng.usize(1, 3);
    let timed = rng.chance(1, 2);
    let (ms, info) = core_set(rng, n, np, timed);
    let nv = rng.usize(1, 4);
    let mut vps: Vec<usize> = (0..nv).map(|_| rng.usize(0, np - 1)).collect();
    if nv >= 2 && rng.chance(1, 2) {
        vps[1] = vps[0]; // two vehicles of one profile (different scales)
    }
    let vs: Vec<Value> = vps.iter().map(|p| json!({"p": p, "sc": dyadic(rng)})).collect();
    let mut qs = queries(rng, n, &vps, &info, 6);
    let with_fb = rng.chance(1, 3);
    // boundary: `to >= size` — the flat index lands in another row while it is below the length, else the fallback
    for _ in 0..2 {
        let f = rng.usize(0, n - 1);
        let to = n + rng.usize(0, 1);
        if with_fb || f * n + to < n * n {
            let at = qs.iter().filter(|q| q["v"] == 0).nth(rng.usize(0, 5)).map(|q| q["at"].clone()).unwrap_or(json!([0, 1]));
            qs.push(json!({"v": 0, "f": f, "t": to, "at": at, "arr": false}));
        }
    }
    if with_fb {
        qs.push(json!({"v": 0, "f": n, "t": 0, "at": [0, 1], "arr": false}));
    }
    let fb = if with_fb { json!([rng.range(-9, 9), rng.range(-9, 9)]) } else { json!(null) };
    json!({"k": "core", "fb": fb, "ms": ms, "vs": vs, "qs": qs})
}

/// sets the builder is expected to reject, one class per case; `dev` names a class the current code accepts
fn gen_core_bad(rng: &mut Rng) -> Value {
    let n = rng.usize(1, 3);
    let np = rng.usize(1, 3);
    let timed = rng.chance(1, 2);
    let (mut ms, mut info) = core_set(rng, n, np, timed);
    let victim = rng.usize(0, ms.len() - 1);
    let mut dev = Value::Null;
    let class = rng.below(10);
    match class {
        0 => ms.clear(),
        1 => {
            // durations and distances of different length (same rounded size or not)
            let extra = if rng.chance(1, 2) { 1 } else { 2 * n + 1 };
            let style = rng.below(4);
            ms[victim]["dist"] = json!(entries(rng, n * n + extra, style));
        }
        2 => {
            // another dimension
            let m = n + rng.usize(1, 2);
            ms[victim]["dist"] = json!(entries(rng, m * m, 3));
            ms[victim]["dur"] = json!(entries(rng, m * m, 3));
        }
        3 => {
            // not a square number of entries, the same in both collections (D1: rounds to the common size)
            let len = if rng.chance(1, 2) { n * n + rng.usize(1, n) } else { (n * n).saturating_sub(rng.usize(1, n)).max(n * n - n + 1) };
            ms[victim]["dist"] = json!(entries(rng, len, 3));
            ms[victim]["dur"] = json!(entries(rng, len, 3));
            if len != n * n {
                dev = json!("D1");
            }
        }
        4 => {
            // timed and untimed mixed
            if timed {
                ms[victim]["ts"] = Value::Null;
            } else {
                ms[victim]["ts"] = json!(rng.range(0, 50));
            }
        }
        5 => {
            // the same (profile, timestamp) twice: duplicate profile (untimed) / duplicate timestamp (timed, D2)
            let mut copy = ms[victim].clone();
            copy["dur"] = json!(entries(rng, n * n, 3));
            ms.push(copy);
            if timed {
                dev = json!("D2");
            }
        }
        6 if !timed => {
            // a gap in the profile indices of an untimed set
            for m in ms.iter_mut() {
                if m["p"].as_u64().unwrap() as usize == np - 1 {
                    m["p"] = json!(np);
                }
            }
        }
        6 | 7 => {
            // a profile with a single timed matrix
            let style = rng.below(4);
            ms.push(json!({"p": np, "ts": rng.range(0, 50), "dur": entries(rng, n * n, style), "dist": entries(rng, n * n, style)}));
            if !timed {
                for m in ms.iter_mut().take(1) {
                    m["p"] = json!(np + 1);
                }
            }
        }
        8 if timed => {
            // timestamps that differ only below the u64 truncation: negative ones all map to key 0 (D2)
            let p = ms[victim]["p"].clone();
            let style = rng.below(4);
            ms.push(json!({"p": p, "ts": -50, "dur": entries(rng, n * n, style), "dist": entries(rng, n * n, style)}));
            ms.push(json!({"p": p, "ts": -60, "dur": entries(rng, n * n, style), "dist": entries(rng, n * n, style)}));
            dev = json!("D2");
        }
        _ => {
            // one matrix of the first-seen size only (reference size comes from the first matrix)
            let m = n + 1;
            ms[0]["dist"] = json!(entries(rng, m * m, 3));
            ms[0]["dur"] = json!(entries(rng, m * m, 3));
            if ms.len() == 1 {
                ms.push(json!({"p": np, "ts": ms[0]["ts"], "dur": entries(rng, n * n, 3), "dist": entries(rng, n * n, 3)}));
            }
        }
    }
    rng.shuffle(&mut ms);
    // queries only where they are well defined for an accepted set: away from duplicated keys, inside the data
    info.clear();
    let vs = vec![json!({"p": 0, "sc": dyadic(rng)})];
    let qs = if dev.is_null() {
        vec![json!({"v": 0, "f": 0, "t": 0, "at": [0, 1], "arr": false})]
    } else {
        vec![json!({"v": 0, "f": 0, "t": 0, "at": [1000, 1], "arr": false})]
    };
    let mut case = json!({"k": "core", "fb": [-3, -4], "ms": ms, "vs": vs, "qs": qs});
    if !dev.is_null() {
        // formerly accepted by the builder (repaired in 0684041 / c805ac8): now an ordinary rejected class
        case["cls"] = dev;
    }
    case
}

const NAMES: &[&str] = &["car", "truck", "bike", "van"];

fn gen_prag(rng: &mut Rng) -> Value {
    let np = rng.usize(1, 3);
    let mut names: Vec<&str> = NAMES.to_vec();
    rng.shuffle(&mut names);
    let profiles: Vec<&str> = names[..np].to_vec();
    let unknown = names[np];
    let n = rng.usize(1, 4);
    let mut locs: Vec<u64> = (0..n as u64).collect();
    if n >= 3 && rng.chance(1, 4) {
        locs.remove(1); // an index no location refers to: the maximum index still defines the size
    }
    rng.shuffle(&mut locs);
    let nv = rng.usize(1, 3);
    let vnames: Vec<&str> = (0..nv).map(|_| *rng.pick(&profiles)).collect();
    let vs: Vec<Value> =
        vnames.iter().map(|p| json!({"prof": p, "sc": if rng.chance(1, 3) { Value::Null } else { dyadic(rng) }})).collect();
    let timed = rng.chance(1, 3);
    let named = timed || rng.chance(2, 3);
    let style = rng.below(4);
    let mut ms: Vec<Value> = vec![];
    let mut info = vec![];
    for p in &profiles {
        if timed {
            let count = rng.usize(2, 3);
            let (ts, gaps) = timestamps(rng, count, false);
            for &t in &ts {
                ms.push(json!({"name": p, "ts": t, "tt": entries(rng, n * n, style), "dist": entries(rng, n * n, style), "err": null}));
            }
            info.push(Some((ts, gaps)));
        } else {
            ms.push(json!({"name": if named { json!(p) } else { Value::Null }, "ts": null,
                           "tt": entries(rng, n * n, style), "dist": entries(rng, n * n, style), "err": null}));
            info.push(None);
        }
    }
    if named {
        rng.shuffle(&mut ms);
    }
    // error codes on some matrices
    for m in ms.iter_mut() {
        if rng.chance(1, 3) {
            let codes: Vec<i64> = (0..n * n).map(|_| if rng.chance(1, 4) { rng.range(1, 3) } else { rng.range(-1, 0) }).collect();
            m["err"] = json!(codes);
        }
    }
    let mut dev = Value::Null;
    let mut broken = false;
    match rng.below(24) {
        0 if ms.len() >= 2 => {
            // names on some matrices only
            let i = rng.usize(0, ms.len() - 1);
            ms[i]["name"] = if named { Value::Null } else { json!(profiles[0]) };
            broken = true;
        }
        1 if !named => {
            ms[0]["ts"] = json!(rng.range(0, 50));
            broken = true;
        }
        2 if np >= 2 => {
            // fewer matrices than profiles
            let keep = profiles[0];
            ms.retain(|m| m["name"].is_null() || m["name"] == keep);
            if !named {
                ms.truncate(1);
            }
            broken = true;
        }
        3 | 4 | 5 if named => {
            // S28: a matrix named after a profile the fleet does not define
            let i = rng.usize(0, ms.len() - 1);
            let old = ms[i]["name"].clone();
            for m in ms.iter_mut() {
                if m["name"] == old {
                    m["name"] = json!(unknown);
                }
            }
            dev = json!("S28");
            broken = true;
        }
        6 if named => {
            // one more matrix under an unknown name (also S28)
            ms.push(json!({"name": unknown, "ts": if timed { json!(rng.range(0, 50)) } else { Value::Null },
                           "tt": entries(rng, n * n, style), "dist": entries(rng, n * n, style), "err": null}));
            dev = json!("S28");
            broken = true;
        }
        7 => {
            // another dimension in one matrix
            let i = rng.usize(0, ms.len() - 1);
            let m = n + 1;
            ms[i]["tt"] = json!(entries(rng, m * m, 3));
            ms[i]["dist"] = json!(entries(rng, m * m, 3));
            ms[i]["err"] = Value::Null;
            broken = true;
        }
        8 => {
            // error codes shorter / longer than the data
            let i = rng.usize(0, ms.len() - 1);
            let len = if rng.chance(1, 2) { (n * n).saturating_sub(1) } else { n * n + 1 };
            let codes: Vec<i64> = (0..len).map(|_| if rng.chance(1, 2) { 1 } else { 0 }).collect();
            ms[i]["err"] = json!(codes);
            // the data is cut / extended to the length of the codes: not a square number of entries any more (D1)
            dev = json!("D1");
            broken = true;
        }
        9 if named && !timed => {
            // the same name twice
            let mut copy = ms[0].clone();
            copy["dist"] = json!(entries(rng, n * n, 3));
            ms.push(copy);
            broken = true;
        }
        10 => {
            // durations and distances of different length
            let i = rng.usize(0, ms.len() - 1);
            ms[i]["tt"] = json!(entries(rng, n * n + 1, 3));
            ms[i]["err"] = Value::Null;
            broken = true;
        }
        11 if timed => {
            // a profile with a single timed matrix
            let name = ms[0]["name"].clone();
            let mut seen = false;
            ms.retain(|m| {
                if m["name"] == name {
                    let keep = !seen;
                    seen = true;
                    keep
                } else {
                    true
                }
            });
            broken = true;
        }
        12 if n >= 2 => {
            // not a square number of entries (D1)
            let i = rng.usize(0, ms.len() - 1);
            let len = if rng.chance(1, 2) { n * n + 1 } else { n * n - 1 };
            ms[i]["tt"] = json!(entries(rng, len, 3));
            ms[i]["dist"] = json!(entries(rng, len, 3));
            ms[i]["err"] = Value::Null;
            dev = json!("D1");
            broken = true;
        }
        13 if timed => {
            // the same timestamp twice under one name (D2)
            let mut copy = ms[0].clone();
            copy["tt"] = json!(entries(rng, n * n, 3));
            ms.push(copy);
            dev = json!("D2");
            broken = true;
        }
        _ => {}
    }
    let vps: Vec<usize> = vnames.iter().map(|v| profiles.iter().position(|p| p == v).unwrap()).collect();
    let qs = if broken {
        // a far-away time and the first pair: well defined whatever the set looks like
        (0..nv).map(|v| json!({"v": v, "f": 0, "t": 0, "at": [100000, 1], "arr": false})).collect()
    } else {
        queries(rng, n, &vps, &info, 5)
    };
    if dev == "S28" && !ms.iter().any(|m| profiles.iter().any(|p| m["name"] == *p)) {
        dev = json!("S28u");
    }
    let mut case = json!({"k": "prag", "profiles": profiles, "vs": vs, "locs": locs, "ms": ms, "qs": qs});
    if !broken && rng.chance(1, 4) {
        case["unk"] = json!(true);
        if (locs.len() as u64) < locs.iter().max().unwrap() + 1 {
            // D3: with sparse matrix indices the unknown location is given an index inside the matrix
            dev = json!("D3");
        }
    }
    if !broken && rng.chance(1, 3) {
        // a required break (far in the future) on the last vehicle: the reader then wraps the matrix provider into the reserved-time
        // provider (`DynamicTransportCost`), which has to hand the supplied data through unchanged
        case["rb"] = json!(true);
    }
    if !dev.is_null() {
        // D1 / D2 / D3 are repaired in /repo: plain class labels; S28 / S28u depend on the reader variant
        let outside = (dev == "S28" && S28_MODE == 0) || (dev == "S28u" && S28_MODE != 1);
        if outside {
            case["dev"] = dev.clone();
            case["in_hyp"] = json!(false);
        } else {
            case["cls"] = dev.clone();
        }
    }
    case
}

fn gen_simple(rng: &mut Rng) -> Value {
    let n = rng.usize(0, 4);
    let ld = match rng.below(5) {
        0 => n * n + rng.usize(1, 2),
        1 => (n * n).saturating_sub(1),
        _ => n * n,
    };
    let lx = match rng.below(5) {
        0 => (n + 1) * (n + 1),
        1 => n * n + 1,
        _ => n * n,
    };
    let qs: Vec<Value> = (0..8).map(|_| json!({"f": rng.usize(0, n + 1), "t": rng.usize(0, n + 1)})).collect();
    json!({"k": "simple", "dur": entries(rng, ld, 3), "dist": entries(rng, lx, 1), "qs": qs})
}

fn gen_euclid(rng: &mut Rng) -> Value {
    let n = rng.usize(1, 7);
    let big = rng.chance(1, 4);
    let mut pts: Vec<(i64, i64)> = vec![];
    for _ in 0..n {
        if !pts.is_empty() && rng.chance(1, 6) {
            let p = *rng.pick(&pts);
            pts.push(p); // the same point again
        } else if big {
            pts.push((rng.range(-500_000, 500_000), rng.range(-500_000, 500_000)));
        } else {
            pts.push((rng.range(-20, 20), rng.range(-20, 20)));
        }
    }
    json!({"k": "euclid", "pts": pts.iter().map(|p| json!([p.0, p.1])).collect::<Vec<_>>(), "rounded": rng.chance(2, 3)})
}

fn gen_approx(rng: &mut Rng) -> Value {
    let n = rng.usize(1, 6);
    let (clat, clng) = (rng.range(-800_000, 800_000), rng.range(-1_790_000, 1_790_000));
    let spread = *rng.pick(&[50i64, 2_000, 100_000]);
    let mut pts: Vec<(i64, i64)> = vec![];
    for _ in 0..n {
        if !pts.is_empty() && rng.chance(1, 8) {
            let p = *rng.pick(&pts);
            pts.push(p);
        } else {
            pts.push((
                (clat + rng.range(-spread, spread)).clamp(-899_999, 899_999),
                (clng + rng.range(-spread, spread)).clamp(-1_799_999, 1_799_999),
            ));
        }
    }
    let np = rng.usize(1, 3);
    let mut names: Vec<&str> = NAMES.to_vec();
    rng.shuffle(&mut names);
    let profiles: Vec<Value> = names[..np]
        .iter()
        .map(|n| json!({"name": n, "speed": if rng.chance(1, 3) { Value::Null } else { json!(*rng.pick(&[1i64, 2, 5, 10, 16, 25])) }}))
        .collect();
    let nv = rng.usize(1, 3);
    let vs: Vec<Value> = (0..nv)
        .map(|_| json!({"prof": names[rng.usize(0, np - 1)], "sc": if rng.chance(1, 2) { Value::Null } else { dyadic(rng) }}))
        .collect();
    json!({"k": "approx", "pts": pts.iter().map(|p| json!([p.0, p.1])).collect::<Vec<_>>(), "profiles": profiles, "vs": vs})
}

fn gen_cases(rng: &mut Rng, tier: Tier) -> Vec<Value> {
    let scale = if tier == Tier::Thorough { 40 } else { 1 };
    let mut cases = vec![];
    for _ in 0..(500 * scale) {
        cases.push(gen_core_ok(rng));
    }
    for _ in 0..(250 * scale) {
        cases.push(gen_core_bad(rng));
    }
    for _ in 0..(400 * scale) {
        cases.push(gen_prag(rng));
    }
    for _ in 0..(150 * scale) {
        cases.push(gen_simple(rng));
    }
    for _ in 0..(200 * scale) {
        cases.push(gen_euclid(rng));
    }
    for _ in 0..(200 * scale) {
        cases.push(gen_approx(rng));
    }
    cases
}

fn main() {
    run_main(gen_cases, exec);
}
