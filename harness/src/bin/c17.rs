//! C17 — embedded optimisation and clustering algorithms keep their contracts: runs the real
//! `lkh_optimize`, `Tour::try_path` (hook H7), `create_clusters` (DBSCAN), `create_kmedoids` and
//! `create_hierarchical_kmedoids` on generated integer instances with ties, duplicates and tiny sizes.

use serde_json::{Value, json};
use std::sync::atomic::{AtomicUsize, Ordering};
use std::sync::mpsc;
use std::time::Duration;
use vrp_core::algorithms::clustering::dbscan::create_clusters;
use vrp_core::algorithms::clustering::kmedoids::{create_hierarchical_kmedoids, create_kmedoids};
use vrp_core::algorithms::lkh::{AdjacencySpec, Cost, Edge, Node, lkh_optimize, verif_try_path};
use vrp_verif_harness::*;

// ------------------------------------------------------------------------------------------------
// generators

/// distinct labels: either 0..n or a random n-subset of 0..m (gaps), shuffled or not
fn labels(rng: &mut Rng, n: usize) -> Vec<usize> {
    if rng.chance(3, 4) {
        (0..n).collect()
    } else {
        let m = n + rng.usize(1, 4);
        let mut all: Vec<usize> = (0..m).collect();
        rng.shuffle(&mut all);
        all.truncate(n);
        all
    }
}

/// symmetric integer matrix of the given kind over `m` labels (zero diagonal)
fn sym_matrix(rng: &mut Rng, m: usize, kind: u64) -> Vec<Vec<i64>> {
    let mut c = vec![vec![0i64; m]; m];
    match kind {
        // random, small range: many ties
        0 => {
            let hi = *rng.pick(&[1i64, 3, 10, 100]);
            for i in 0..m {
                for j in (i + 1)..m {
                    let v = rng.range(0, hi);
                    c[i][j] = v;
                    c[j][i] = v;
                }
            }
        }
        // points on a small integer grid, L1 distance: metric, ties, co-located points
        1 => {
            let side = *rng.pick(&[2i64, 4, 8, 30]);
            let pts: Vec<(i64, i64)> = (0..m).map(|_| (rng.range(0, side), rng.range(0, side))).collect();
            for i in 0..m {
                for j in 0..m {
                    c[i][j] = (pts[i].0 - pts[j].0).abs() + (pts[i].1 - pts[j].1).abs();
                }
            }
        }
        // points on a line (collinear), with duplicates
        2 => {
            let side = *rng.pick(&[3i64, 10, 1000]);
            let pts: Vec<i64> = (0..m).map(|_| rng.range(0, side)).collect();
            for i in 0..m {
                for j in 0..m {
                    c[i][j] = (pts[i] - pts[j]).abs();
                }
            }
        }
        // large values (still exact in f64)
        3 => {
            for i in 0..m {
                for j in (i + 1)..m {
                    let v = rng.range(0, 1 << 30);
                    c[i][j] = v;
                    c[j][i] = v;
                }
            }
        }
        // squared euclidean on a grid: non-metric but geometric
        _ => {
            let pts: Vec<(i64, i64)> = (0..m).map(|_| (rng.range(0, 12), rng.range(0, 12))).collect();
            for i in 0..m {
                for j in 0..m {
                    let (dx, dy) = (pts[i].0 - pts[j].0, pts[i].1 - pts[j].1);
                    c[i][j] = dx * dx + dy * dy;
                }
            }
        }
    }
    c
}

/// neighbour lists as `CostMatrix::new` in lkh_search.rs builds them (all other tour nodes, stable sort by
/// cost), and variations: k nearest, shuffled subset, with nodes outside the tour
fn neighbour_lists(rng: &mut Rng, m: usize, path: &[usize], c: &[Vec<i64>], mode: u64) -> Vec<Vec<usize>> {
    let mut in_path: Vec<usize> = path.to_vec();
    in_path.sort();
    in_path.dedup();
    (0..m)
        .map(|i| {
            let pool: Vec<usize> =
                if mode == 3 { (0..m).filter(|&j| j != i).collect() } else { in_path.iter().copied().filter(|&j| j != i).collect() };
            let mut nb: Vec<(usize, i64)> = pool.into_iter().map(|j| (j, c[i.min(j)][i.max(j)])).collect();
            nb.sort_by(|a, b| a.1.cmp(&b.1));
            let mut nb: Vec<usize> = nb.into_iter().map(|x| x.0).collect();
            match mode {
                4 => {
                    // adversarial but legal AdjacencySpec: any nodes in any order, the node itself and repetitions included
                    let len = rng.usize(0, 2 * m);
                    nb = (0..len).map(|_| rng.usize(0, m - 1)).collect();
                }
                1 => nb.truncate(5),
                2 => {
                    rng.shuffle(&mut nb);
                    let keep = rng.usize(0, nb.len());
                    nb.truncate(keep);
                }
                _ => {}
            }
            nb
        })
        .collect()
}

fn closing_pairs(path: &[usize]) -> Vec<(usize, usize)> {
    let n = path.len();
    (0..n).map(|i| (path[i], path[(i + 1) % n])).collect()
}

fn gen_trypath(rng: &mut Rng, cases: &mut Vec<Value>, count: usize) {
    for idx in 0..count {
        let n = match rng.below(12) {
            0 => rng.usize(0, 2),
            1 => 3,
            _ => rng.usize(4, 10),
        };
        let mut path = labels(rng, n);
        rng.shuffle(&mut path);
        let legs = closing_pairs(&path);
        let mut broken: Vec<(usize, usize)> = vec![];
        let mut joined: Vec<(usize, usize)> = vec![];
        let mode = if n < 4 { rng.below(2) + 4 } else { (idx % 6) as u64 };
        match mode {
            // 2-opt on legs i < j: the reconnection that keeps one cycle, or the one that splits the tour
            0 => {
                let i = rng.usize(0, n - 2);
                let j = rng.usize(i + 1, n - 1);
                let (a, b) = legs[i];
                let (cc, d) = legs[j];
                broken = vec![(a, b), (cc, d)];
                joined = if rng.chance(2, 3) { vec![(a, cc), (b, d)] } else { vec![(a, d), (b, cc)] };
            }
            // k-opt: break k legs, reconnect the 2k end points by a random perfect matching (degree preserving)
            1 | 2 => {
                let k = rng.usize(2, 4.min(n));
                let mut idxs: Vec<usize> = (0..n).collect();
                rng.shuffle(&mut idxs);
                idxs.truncate(k);
                let mut ends = vec![];
                for &i in &idxs {
                    broken.push(legs[i]);
                    ends.push(legs[i].0);
                    ends.push(legs[i].1);
                }
                rng.shuffle(&mut ends);
                for p in ends.chunks(2) {
                    joined.push((p[0], p[1]));
                }
                if rng.chance(1, 2) {
                    // orientation / order noise must not matter
                    broken = broken.into_iter().map(|(a, b)| (b, a)).collect();
                    rng.shuffle(&mut joined);
                }
            }
            // same number of edges but degrees not preserved (e.g. the rho shape)
            3 => {
                let k = rng.usize(1, 2);
                for _ in 0..k {
                    broken.push(*rng.pick(&legs));
                    joined.push((*rng.pick(&path), *rng.pick(&path)));
                }
            }
            // garbage: non-tour edges broken, tour edges joined, loops, duplicates, foreign nodes
            _ => {
                let m = path.iter().copied().max().map(|x| x + 3).unwrap_or(3);
                for _ in 0..rng.usize(0, 4) {
                    broken.push(if rng.chance(1, 2) && !legs.is_empty() { *rng.pick(&legs) } else { (rng.usize(0, m - 1), rng.usize(0, m - 1)) });
                }
                for _ in 0..rng.usize(0, 5) {
                    joined.push(if rng.chance(1, 4) && !legs.is_empty() {
                        *rng.pick(&legs)
                    } else if rng.chance(3, 4) && !path.is_empty() {
                        (*rng.pick(&path), *rng.pick(&path))
                    } else {
                        (rng.usize(0, m - 1), rng.usize(0, m - 1))
                    });
                }
                if rng.chance(1, 10) && n > 1 {
                    // duplicate node in the path (not a tour)
                    let i = rng.usize(1, n - 1);
                    path[i] = path[0];
                }
            }
        }
        let m = path.iter().chain(broken.iter().flat_map(|e| [&e.0, &e.1])).chain(joined.iter().flat_map(|e| [&e.0, &e.1])).copied().max().map(|x| x + 1).unwrap_or(0);
        let kind = rng.below(3);
        let c = sym_matrix(rng, m, kind);
        cases.push(json!({"k": "trypath", "path": path, "broken": broken, "joined": joined, "c": c}));
    }
}

fn gen_lkh(rng: &mut Rng, cases: &mut Vec<Value>, count: usize, max_n: usize) {
    for idx in 0..count {
        let n = match rng.below(10) {
            0 => rng.usize(0, 3),
            1..=5 => rng.usize(4, 8.min(max_n)),
            _ => rng.usize(4, max_n),
        };
        let mut path = labels(rng, n);
        // the solver always starts from 0..n; the contract is stated for any start path (S6)
        if idx % 3 != 0 {
            rng.shuffle(&mut path);
        }
        let m = path.iter().copied().max().map(|x| x + 1).unwrap_or(0) + if rng.chance(1, 5) { 2 } else { 0 };
        let kind = rng.below(5);
        let c = sym_matrix(rng, m, kind);
        let mode = match rng.below(10) {
            0 => 1,
            1 => 2,
            2 => 3,
            3 => 4,
            _ => 0,
        };
        let nb = neighbour_lists(rng, m, &path, &c, mode);
        cases.push(json!({"k": "lkh", "path": path, "c": c, "nb": nb}));
    }
}

/// Euclidean instances: integer points (duplicates and mirror-symmetric layouts on purpose), costs are the f64 square
/// roots the solver's own cost matrix would hold, neighbour lists by distance. With such costs the gain of a move is a
/// rounded running sum: a swap of two nodes with equal costs to their tour neighbours has real gain 0 and now and then a
/// rounding-positive one - in both directions (S50)
fn gen_lkh_pts(rng: &mut Rng, cases: &mut Vec<Value>, count: usize, max_n: usize) {
    for idx in 0..count {
        let n = rng.usize(4, max_n);
        let mut pts: Vec<(i64, i64)> = vec![];
        while pts.len() < n {
            match rng.below(6) {
                // a duplicate of an earlier point (two stops at one address)
                0 if !pts.is_empty() => pts.push(*rng.pick(&pts)),
                // the mirror image of an earlier point (equal distances to points on the axis)
                1 if !pts.is_empty() => {
                    let p = *rng.pick(&pts);
                    pts.push((-p.0, p.1));
                }
                // a point on the axis
                2 => pts.push((0, rng.range(-20, 20))),
                _ => pts.push((rng.range(-50, 50), rng.range(-50, 50))),
            }
        }
        let mut path: Vec<usize> = (0..n).collect();
        if idx % 3 == 0 {
            rng.shuffle(&mut path);
        }
        let sq = |a: (i64, i64), b: (i64, i64)| (a.0 - b.0) * (a.0 - b.0) + (a.1 - b.1) * (a.1 - b.1);
        let nb: Vec<Vec<usize>> = (0..n)
            .map(|i| {
                let mut others: Vec<usize> = (0..n).filter(|&j| j != i).collect();
                others.sort_by_key(|&j| (sq(pts[i], pts[j]), j));
                others
            })
            .collect();
        cases.push(json!({"k": "lkh_pts", "path": path, "pts": pts.iter().map(|p| json!([p.0, p.1])).collect::<Vec<_>>(), "nb": nb}));
    }
}

fn gen_dbscan(rng: &mut Rng, cases: &mut Vec<Value>, count: usize, max_n: usize) {
    for idx in 0..count {
        let n = match rng.below(10) {
            0 => rng.usize(0, 2),
            _ => rng.usize(3, max_n),
        };
        let min_pts = rng.usize(0, 5);
        let mut nb: Vec<Vec<usize>> = vec![vec![]; n];
        match idx % 4 {
            // eps-neighbourhoods the way create_job_clusters builds them: other points sorted by cost,
            // `take_while(cost < eps)`; with or without the point itself
            0 | 1 | 2 => {
                let c = sym_matrix(rng, n, [1u64, 2, 4][idx % 3]);
                let eps = *rng.pick(&[0i64, 1, 2, 3, 5, 9, 20]);
                let with_self = rng.chance(1, 2);
                let inclusive = rng.chance(1, 4);
                for i in 0..n {
                    let mut v: Vec<(usize, i64)> = (0..n).filter(|&j| with_self || j != i).map(|j| (j, c[i][j])).collect();
                    v.sort_by(|a, b| a.1.cmp(&b.1));
                    nb[i] = v.into_iter().take_while(|x| if inclusive { x.1 <= eps } else { x.1 < eps }).map(|x| x.0).collect();
                }
            }
            // arbitrary (asymmetric) tables, repetitions inside a list allowed
            _ => {
                for i in 0..n {
                    let len = rng.usize(0, (n + 1).min(6));
                    nb[i] = (0..len).map(|_| rng.usize(0, n - 1)).collect();
                }
            }
        }
        let mut points: Vec<usize> = (0..n).collect();
        match rng.below(6) {
            0 => rng.shuffle(&mut points),
            1 => {
                // repeated points in the input
                for _ in 0..rng.usize(1, 3) {
                    if n > 0 {
                        let p = rng.usize(0, n - 1);
                        let at = rng.usize(0, points.len());
                        points.insert(at, p);
                    }
                }
            }
            2 => {
                // only some points are offered: the others can still be reached as neighbours
                rng.shuffle(&mut points);
                let keep = rng.usize(0, n);
                points.truncate(keep);
            }
            _ => {}
        }
        cases.push(json!({"k": "dbscan", "n": n, "points": points, "nb": nb, "min_pts": min_pts}));
    }
}

/// distance matrices for k-medoids: kind 0/1 strict (d(x,y) > 0 for x != y), 2 with co-located points (metric),
/// 3 asymmetric strict
fn kmed_matrix(rng: &mut Rng, m: usize, kind: u64) -> Vec<Vec<i64>> {
    match kind {
        0 => {
            // distinct positions on a line / grid
            let two_d = rng.chance(1, 2);
            let mut pts: Vec<(i64, i64)> = vec![];
            while pts.len() < m {
                let p = (rng.range(0, 3 * m as i64 + 3), if two_d { rng.range(0, 12) } else { 0 });
                if !pts.contains(&p) {
                    pts.push(p);
                }
            }
            (0..m).map(|i| (0..m).map(|j| (pts[i].0 - pts[j].0).abs() + (pts[i].1 - pts[j].1).abs()).collect()).collect()
        }
        1 => {
            let hi = *rng.pick(&[2i64, 5, 50]);
            let mut c = vec![vec![0i64; m]; m];
            for i in 0..m {
                for j in (i + 1)..m {
                    let v = rng.range(1, hi);
                    c[i][j] = v;
                    c[j][i] = v;
                }
            }
            c
        }
        2 => {
            let kind = 1 + rng.below(2);
            sym_matrix(rng, m, kind)
        }
        3 => {
            let mut c = vec![vec![0i64; m]; m];
            for i in 0..m {
                for j in 0..m {
                    if i != j {
                        c[i][j] = rng.range(1, 9);
                    }
                }
            }
            c
        }
        // outside the hypotheses of the theorems: zero distances between different points, not a metric
        _ => {
            let hi = *rng.pick(&[1i64, 2, 3, 5]);
            let asym = rng.chance(1, 3);
            let mut c = vec![vec![0i64; m]; m];
            for i in 0..m {
                for j in (i + 1)..m {
                    c[i][j] = rng.range(0, hi);
                    c[j][i] = if asym { rng.range(0, hi) } else { c[i][j] };
                }
            }
            c
        }
    }
}

fn gen_kmed(rng: &mut Rng, cases: &mut Vec<Value>, count: usize, max_n: usize) {
    for _ in 0..count {
        let n = match rng.below(8) {
            0 => rng.usize(0, 2),
            _ => rng.usize(3, max_n),
        };
        let mut points = labels(rng, n);
        if rng.chance(1, 3) {
            rng.shuffle(&mut points);
        }
        let m = points.iter().copied().max().map(|x| x + 1).unwrap_or(0);
        let kind = match rng.below(10) {
            r @ 0..=7 => r % 4,
            _ => 4,
        };
        let d = kmed_matrix(rng, m, kind);
        // the callers pass pairwise different points; repeated values are outside the hypotheses
        let dup = n > 0 && rng.chance(1, 12);
        if dup {
            for _ in 0..rng.usize(1, 3) {
                let p = *rng.pick(&points);
                let at = rng.usize(0, points.len());
                points.insert(at, p);
            }
        }
        let kk = match rng.below(10) {
            0 => 0,
            1 => n + rng.usize(0, 2),
            2 => 1,
            _ => rng.usize(1, n.max(1)),
        };
        cases.push(json!({"k": "kmed", "points": points, "d": d, "kk": kk, "in_hyp": kind < 4 && !dup}));
    }
}

fn gen_hier(rng: &mut Rng, cases: &mut Vec<Value>, count: usize, max_n: usize) {
    for _ in 0..count {
        let n = match rng.below(8) {
            0 => rng.usize(0, 3),
            _ => rng.usize(4, max_n),
        };
        let mut points = labels(rng, n);
        if rng.chance(1, 3) {
            rng.shuffle(&mut points);
        }
        let m = points.iter().copied().max().map(|x| x + 1).unwrap_or(0);
        let kind = match rng.below(10) {
            r @ 0..=7 => r % 4,
            _ => 4,
        };
        let d = kmed_matrix(rng, m, kind);
        let levels = rng.usize(0, 5);
        cases.push(json!({"k": "hier", "points": points, "d": d, "levels": levels, "in_hyp": kind < 4}));
    }
}

fn gen_cases(rng: &mut Rng, tier: Tier) -> Vec<Value> {
    let thorough = tier == Tier::Thorough;
    let scale = if thorough { 30 } else { 1 };
    let mut cases = vec![];
    gen_trypath(rng, &mut cases, 1800 * scale);
    gen_lkh(rng, &mut cases, 500 * scale, if thorough { 40 } else { 12 });
    gen_dbscan(rng, &mut cases, 1500 * scale, if thorough { 16 } else { 12 });
    gen_kmed(rng, &mut cases, 700 * scale, if thorough { 14 } else { 10 });
    gen_hier(rng, &mut cases, 500 * scale, if thorough { 20 } else { 14 });
    // last, so that the streams above stay what they were
    gen_lkh_pts(rng, &mut cases, 600 * scale, if thorough { 14 } else { 9 });
    // grid instances with repeated addresses, searched in bulk inside one case each (evaluation budget instead of a clock)
    for _ in 0..(8 * scale) {
        cases.push(json!({"k": "lkh_grid", "seed": rng.next() % 1_000_000_007, "count": 25_000, "side": if rng.chance(1, 3) { 5 } else { 4 }}));
    }
    cases
}

// ------------------------------------------------------------------------------------------------
// execution on the real code

fn usizes(v: &Value) -> Vec<usize> {
    v.as_array().unwrap().iter().map(|x| x.as_u64().unwrap() as usize).collect()
}

fn matrix(v: &Value) -> Vec<Vec<i64>> {
    v.as_array().unwrap().iter().map(|r| r.as_array().unwrap().iter().map(|x| x.as_i64().unwrap()).collect()).collect()
}

fn pairs(v: &Value) -> Vec<Edge> {
    v.as_array()
        .unwrap()
        .iter()
        .map(|e| {
            let e = usizes(e);
            (e[0], e[1])
        })
        .collect()
}

struct Adjacency {
    c: Vec<Vec<i64>>,
    nb: Vec<Vec<Node>>,
}

impl AdjacencySpec for Adjacency {
    fn cost(&self, edge: &Edge) -> Cost {
        self.c[edge.0][edge.1] as f64
    }

    fn neighbours(&self, node: Node) -> &[Node] {
        self.nb.get(node).map(|v| v.as_slice()).unwrap_or(&[])
    }
}

struct EuclidAdjacency {
    c: Vec<Vec<f64>>,
    nb: Vec<Vec<Node>>,
}

impl AdjacencySpec for EuclidAdjacency {
    fn cost(&self, edge: &Edge) -> Cost {
        // as the solver's cost matrix does: one stored value per unordered pair
        let (a, b) = if edge.0 > edge.1 { (edge.1, edge.0) } else { (edge.0, edge.1) };
        self.c[a][b]
    }

    fn neighbours(&self, node: Node) -> &[Node] {
        self.nb.get(node).map(|v| v.as_slice()).unwrap_or(&[])
    }
}

static TIMEOUTS: AtomicUsize = AtomicUsize::new(0);

/// an adjacency that counts cost evaluations and gives up (panics) beyond a budget: non-termination shows without a clock
struct BudgetAdjacency {
    inner: EuclidAdjacency,
    used: AtomicUsize,
    budget: usize,
}

impl AdjacencySpec for BudgetAdjacency {
    fn cost(&self, edge: &Edge) -> Cost {
        if self.used.fetch_add(1, Ordering::Relaxed) > self.budget {
            panic!("evaluation budget exceeded");
        }
        self.inner.cost(edge)
    }

    fn neighbours(&self, node: Node) -> &[Node] {
        self.inner.neighbours(node)
    }
}

/// `count` small instances on a `side` x `side` integer grid with one or two stops at an address visited already (many equal
/// distances, equal-cost tours reachable from one another): each is searched under an evaluation budget a thousand times
/// above what such an instance needs; the contract (permutation, start, cost) is checked on the spot
fn exec_lkh_grid(case: &Value) -> Value {
    let seed = case["seed"].as_u64().unwrap();
    let count = case["count"].as_u64().unwrap() as usize;
    let side = case["side"].as_i64().unwrap();
    let handle = std::thread::Builder::new()
        .stack_size(64 * 1024 * 1024)
        .spawn(move || {
            let mut rng = Rng::new(seed);
            let (mut exceeded, mut broken) = (vec![], vec![]);
            let mut n_exceeded = 0usize;
            for _ in 0..count {
                let n = rng.usize(5, 9);
                let mut pts: Vec<(i64, i64)> = vec![];
                let dups = rng.usize(1, 2);
                while pts.len() < n {
                    if pts.len() + dups >= n && !pts.is_empty() {
                        pts.push(*rng.pick(&pts));
                    } else {
                        pts.push((rng.range(0, side - 1), rng.range(0, side - 1)));
                    }
                }
                if rng.chance(1, 2) {
                    rng.shuffle(&mut pts);
                }
                let path: Vec<usize> = (0..n).collect();
                let sq = |a: (i64, i64), b: (i64, i64)| (a.0 - b.0) * (a.0 - b.0) + (a.1 - b.1) * (a.1 - b.1);
                let nb: Vec<Vec<usize>> = (0..n)
                    .map(|i| {
                        let mut others: Vec<usize> = (0..n).filter(|&j| j != i).collect();
                        others.sort_by_key(|&j| (sq(pts[i], pts[j]), j));
                        others
                    })
                    .collect();
                let c: Vec<Vec<f64>> = pts.iter().map(|a| pts.iter().map(|b| (sq(*a, *b) as f64).sqrt()).collect()).collect();
                let closed = |q: &[usize]| -> f64 { (0..q.len()).map(|i| c[q[i]][q[(i + 1) % q.len()]]).sum() };
                let adjacency =
                    BudgetAdjacency { inner: EuclidAdjacency { c: c.clone(), nb }, used: AtomicUsize::new(0), budget: 2_000_000 };
                let p2 = path.clone();
                let res = std::panic::catch_unwind(std::panic::AssertUnwindSafe(|| lkh_optimize(adjacency, p2)));
                let inst = json!({"pts": pts.iter().map(|p| json!([p.0, p.1])).collect::<Vec<_>>(), "path": path});
                match res {
                    Err(_) => {
                        n_exceeded += 1;
                        if exceeded.len() < 3 {
                            exceeded.push(inst);
                        }
                    }
                    Ok(paths) => {
                        let ok = !paths.is_empty()
                            && paths.iter().all(|q| {
                                let mut sorted = q.clone();
                                sorted.sort();
                                sorted == path && q.first() == path.first() && closed(q) <= closed(&path) + 1e-6
                            });
                        if !ok && broken.len() < 3 {
                            broken.push(inst);
                        }
                    }
                }
            }
            json!({"instances": count, "exceeded_count": n_exceeded, "exceeded": exceeded, "contract_broken": broken})
        })
        .unwrap();
    handle.join().unwrap_or_else(|_| json!({"panic": "grid search thread panicked"}))
}

fn exec_lkh_pts(case: &Value) -> Value {
    let pts = matrix(&case["pts"]);
    let c: Vec<Vec<f64>> = pts
        .iter()
        .map(|a| pts.iter().map(|b| (((a[0] - b[0]) * (a[0] - b[0]) + (a[1] - b[1]) * (a[1] - b[1])) as f64).sqrt()).collect())
        .collect();
    let adjacency = EuclidAdjacency { c, nb: case["nb"].as_array().unwrap().iter().map(usizes).collect() };
    run_lkh(adjacency, usizes(&case["path"]))
}

fn exec_lkh(case: &Value) -> Value {
    let adjacency = Adjacency { c: matrix(&case["c"]), nb: case["nb"].as_array().unwrap().iter().map(usizes).collect() };
    run_lkh(adjacency, usizes(&case["path"]))
}

fn run_lkh<A: AdjacencySpec + Send + 'static>(adjacency: A, path: Vec<Node>) -> Value {
    // after three timeouts the remaining LKH cases get one second only (their verdict is then "not run" instead of
    // "timeout"), after ten they are not started: every timed-out call leaves a spinning thread behind
    let timeouts = TIMEOUTS.load(Ordering::SeqCst);
    if timeouts >= 10 {
        return json!({"not_run": true});
    }
    let limit = Duration::from_secs(if timeouts >= 3 {
        1
    } else if path.len() <= 12 {
        20
    } else {
        60
    });
    let (tx, rx) = mpsc::channel();
    std::thread::Builder::new()
        .stack_size(64 * 1024 * 1024)
        .spawn(move || {
            let res = std::panic::catch_unwind(std::panic::AssertUnwindSafe(|| lkh_optimize(adjacency, path)));
            let _ = tx.send(res.map_err(|e| {
                e.downcast_ref::<String>().cloned().or_else(|| e.downcast_ref::<&str>().map(|s| s.to_string())).unwrap_or_default()
            }));
        })
        .unwrap();
    match rx.recv_timeout(limit) {
        Ok(Ok(paths)) => json!({"paths": paths}),
        Ok(Err(msg)) => json!({"panic": msg}),
        Err(_) => {
            TIMEOUTS.fetch_add(1, Ordering::SeqCst);
            if timeouts >= 3 { json!({"not_run": true}) } else { json!({"timeout": true}) }
        }
    }
}

fn sorted_clusters(map: std::collections::HashMap<usize, Vec<usize>>) -> Value {
    let mut v: Vec<(usize, Vec<usize>)> = map.into_iter().collect();
    v.sort();
    json!(v)
}

fn exec(case: &Value) -> Value {
    match case["k"].as_str().unwrap() {
        "trypath" => {
            let r = verif_try_path(usizes(&case["path"]), &pairs(&case["broken"]), &pairs(&case["joined"]));
            json!({"r": r})
        }
        "lkh" => exec_lkh(case),
        "lkh_pts" => exec_lkh_pts(case),
        "lkh_grid" => exec_lkh_grid(case),
        "dbscan" => {
            let n = case["n"].as_u64().unwrap() as usize;
            let ids: Vec<usize> = (0..n).collect();
            let nb: Vec<Vec<&usize>> =
                case["nb"].as_array().unwrap().iter().map(|l| usizes(l).into_iter().map(|j| &ids[j]).collect()).collect();
            let points: Vec<&usize> = usizes(&case["points"]).into_iter().map(|j| &ids[j]).collect();
            let min_pts = case["min_pts"].as_u64().unwrap() as usize;
            let clusters = create_clusters(points.iter().copied(), min_pts, |p: &usize| nb[*p].iter().copied());
            json!(clusters.iter().map(|c| c.iter().map(|p| **p).collect::<Vec<usize>>()).collect::<Vec<_>>())
        }
        "kmed" => {
            let d = matrix(&case["d"]);
            let points = usizes(&case["points"]);
            let kk = case["kk"].as_u64().unwrap() as usize;
            sorted_clusters(create_kmedoids(&points, kk, |a: &usize, b: &usize| d[*a][*b] as f64))
        }
        "hier" => {
            let d = matrix(&case["d"]);
            let points = usizes(&case["points"]);
            let levels = case["levels"].as_u64().unwrap() as usize;
            let tiers = create_hierarchical_kmedoids(&points, levels, move |a: &usize, b: &usize| d[*a][*b] as f64);
            json!(tiers.into_iter().map(sorted_clusters).collect::<Vec<_>>())
        }
        other => panic!("unknown case kind {other}"),
    }
}

fn main() {
    run_main(gen_cases, exec);
}
