//! C18 — adaptive operator selection and termination arithmetic: runs the real `SlotMachine` (recording sampler and
//! the default sampler), `random_argmax`, `DefaultRandom::weighted`, the reward arithmetic of `dynamic_selective.rs`
//! (verif hooks), the `Termination` implementations, `Remedian`, `Noise` and the sampling iterators on generated inputs.
//! Every float is printed as its binary64 bit pattern.

use rosomaxa::algorithms::math::{Remedian, relative_distance};
use rosomaxa::algorithms::rl::{SlotAction, SlotFeedback, SlotMachine};
use rosomaxa::hyper::{DynamicSelective, HeuristicSearchOperators, verif};
use rosomaxa::prelude::*;
use rosomaxa::termination::{CompositeTermination, MaxGeneration, MinVariation, TargetProximity};
use rosomaxa::utils::{
    DefaultDistributionSampler, DistributionSampler, SelectionSamplingIterator, Timer, create_range_sampling_iter,
    random_argmax,
};
use serde_json::{Value, json};
use std::any::Any;
use std::cmp::Ordering;
use std::collections::{BTreeSet, HashMap};
use std::sync::{Arc, Mutex};
use vrp_verif_harness::*;

// ------------------------------------------------------------------------------------------------
// plain solution / objective / context (public traits of the crate)

struct Sol(Vec<f64>);

impl HeuristicSolution for Sol {
    fn fitness(&self) -> impl Iterator<Item = Float> {
        self.0.iter().cloned()
    }
    fn deep_copy(&self) -> Self {
        Sol(self.0.clone())
    }
}

/// lexicographic order on the fitness vector; `rev` maximises instead of minimising
struct Obj {
    rev: bool,
}

impl HeuristicObjective for Obj {
    type Solution = Sol;
    fn total_order(&self, a: &Sol, b: &Sol) -> Ordering {
        let ord = a
            .0
            .iter()
            .zip(b.0.iter())
            .map(|(x, y)| x.partial_cmp(y).unwrap_or(Ordering::Equal))
            .find(|o| *o != Ordering::Equal)
            .unwrap_or(Ordering::Equal);
        if self.rev { ord.reverse() } else { ord }
    }
}

struct Ctx {
    objective: Obj,
    ranked: Vec<Sol>,
    statistics: HeuristicStatistics,
    phase: SelectionPhase,
    environment: Environment,
    state: HashMap<String, Box<dyn Any + Send + Sync>>,
}

impl Ctx {
    fn new(rev: bool, random: Arc<dyn Random>, is_experimental: bool) -> Self {
        Ctx {
            objective: Obj { rev },
            ranked: vec![],
            statistics: HeuristicStatistics::default(),
            phase: SelectionPhase::Exploration,
            environment: Environment { random, logger: Arc::new(|_| {}), is_experimental, ..Environment::default() },
            state: HashMap::new(),
        }
    }
}

impl HeuristicContext for Ctx {
    type Objective = Obj;
    type Solution = Sol;

    fn objective(&self) -> &Obj {
        &self.objective
    }
    fn selected(&self) -> Box<dyn Iterator<Item = &'_ Sol> + '_> {
        Box::new(self.ranked.iter())
    }
    fn ranked(&self) -> Box<dyn Iterator<Item = &'_ Sol> + '_> {
        Box::new(self.ranked.iter())
    }
    fn statistics(&self) -> &HeuristicStatistics {
        &self.statistics
    }
    fn selection_phase(&self) -> SelectionPhase {
        match self.phase {
            SelectionPhase::Initial => SelectionPhase::Initial,
            SelectionPhase::Exploration => SelectionPhase::Exploration,
            SelectionPhase::Exploitation => SelectionPhase::Exploitation,
        }
    }
    fn environment(&self) -> &Environment {
        &self.environment
    }
    fn on_initial(&mut self, solution: Sol, _: Timer) {
        self.ranked.push(solution);
    }
    fn on_generation(&mut self, _: Vec<Sol>, _: Float, _: Timer) {}
    fn on_result(self) -> HeuristicResult<Obj, Sol> {
        Err("not used".into())
    }
}

impl Stateful for Ctx {
    type Key = String;
    fn set_state<T: 'static + Send + Sync>(&mut self, key: String, state: T) {
        self.state.insert(key, Box::new(state));
    }
    fn get_state<T: 'static + Send + Sync>(&self, key: &String) -> Option<&T> {
        self.state.get(key).and_then(|s| s.downcast_ref::<T>())
    }
    fn state_mut<T: 'static + Send + Sync, F: Fn() -> T>(&mut self, key: String, inserter: F) -> &mut T {
        self.state.entry(key).or_insert_with(|| Box::new(inserter())).downcast_mut::<T>().expect("state type")
    }
}

// ------------------------------------------------------------------------------------------------
// scripted random sources

/// `Random` whose trait methods are scripted (the concrete `RandomGen` of `get_rng` cannot be scripted)
struct ScriptRandom {
    hits: Mutex<Vec<bool>>,
    reals: Mutex<Vec<f64>>,
    ints: Mutex<Vec<i32>>,
    log: Mutex<Vec<Value>>,
}

impl ScriptRandom {
    fn new(hits: Vec<bool>, reals: Vec<f64>, ints: Vec<i32>) -> Self {
        let rev = |mut v: Vec<_>| {
            v.reverse();
            v
        };
        ScriptRandom {
            hits: Mutex::new(rev(hits)),
            reals: Mutex::new({
                let mut r = reals;
                r.reverse();
                r
            }),
            ints: Mutex::new({
                let mut r = ints;
                r.reverse();
                r
            }),
            log: Mutex::new(vec![]),
        }
    }
}

impl Random for ScriptRandom {
    fn uniform_int(&self, min: i32, max: i32) -> i32 {
        self.log.lock().unwrap().push(json!(["int", min, max]));
        self.ints.lock().unwrap().pop().unwrap_or(min).clamp(min, max)
    }
    fn uniform_real(&self, min: Float, max: Float) -> Float {
        self.log.lock().unwrap().push(json!(["real", min.to_bits(), max.to_bits()]));
        self.reals.lock().unwrap().pop().unwrap_or(min)
    }
    fn is_head_not_tails(&self) -> bool {
        true
    }
    fn is_hit(&self, probability: Float) -> bool {
        self.log.lock().unwrap().push(json!(["hit", probability.to_bits()]));
        // a probability outside (0, 1) leaves no choice (`gen_bool(p.clamp(0, 1))` in the default implementation)
        let scripted = self.hits.lock().unwrap().pop().unwrap_or(true);
        if probability >= 1. { true } else if probability <= 0. { false } else { scripted }
    }
    fn weighted(&self, _: &[usize]) -> usize {
        0
    }
    fn get_rng(&self) -> RandomGen {
        RandomGen::new_repeatable()
    }
}

#[derive(Default)]
struct SamplerLog {
    gamma_ret: f64,
    normal_ret: f64,
    shape: f64,
    scale: f64,
    mean: f64,
    std: f64,
    gamma_calls: usize,
    normal_calls: usize,
}

/// `DistributionSampler` returning scripted values and recording its arguments
#[derive(Clone)]
struct RecSampler(Arc<Mutex<SamplerLog>>);

impl DistributionSampler for RecSampler {
    fn gamma(&self, shape: Float, scale: Float) -> Float {
        let mut s = self.0.lock().unwrap();
        s.shape = shape;
        s.scale = scale;
        s.gamma_calls += 1;
        s.gamma_ret
    }
    fn normal(&self, mean: Float, std_dev: Float) -> Float {
        let mut s = self.0.lock().unwrap();
        s.mean = mean;
        s.std = std_dev;
        s.normal_calls += 1;
        s.normal_ret
    }
}

#[derive(Clone)]
struct Act;
struct Fb(f64);
impl SlotFeedback for Fb {
    fn reward(&self) -> Float {
        self.0
    }
}
impl SlotAction for Act {
    type Context = f64;
    type Feedback = Fb;
    fn take(&self, context: f64) -> Fb {
        Fb(context)
    }
}

// ------------------------------------------------------------------------------------------------
// helpers

fn b(x: f64) -> Value {
    json!(x.to_bits())
}
fn f(v: &Value) -> f64 {
    f64::from_bits(v.as_u64().expect("bit pattern"))
}
fn fs(v: &Value) -> Vec<f64> {
    v.as_array().expect("array").iter().map(f).collect()
}
fn bs(xs: &[f64]) -> Value {
    Value::Array(xs.iter().map(|x| b(*x)).collect())
}
fn pow2(k: i32) -> f64 {
    (2f64).powi(k)
}

// ------------------------------------------------------------------------------------------------
// exec

fn exec_slot(case: &Value) -> Value {
    let prior = f(&case["prior"]);
    let rewards = fs(&case["rewards"]);
    let gammas = fs(&case["gammas"]);
    let zs = fs(&case["zs"]);
    let log = Arc::new(Mutex::new(SamplerLog::default()));
    let mut slot = SlotMachine::new(prior, Act, RecSampler(log.clone()));
    let mut real =
        SlotMachine::new(prior, Act, DefaultDistributionSampler::new(Arc::new(DefaultRandom::new_repeatable())));
    let mut params = vec![];
    let mut calls = vec![];
    let mut reals = vec![];
    let mut observe = |slot: &SlotMachine<Act, RecSampler>, real: &SlotMachine<Act, DefaultDistributionSampler>, i: usize| {
        let (alpha, beta, mu, v, n) = slot.get_params();
        params.push(json!([b(alpha), b(beta), b(mu), b(v), n]));
        {
            let mut s = log.lock().unwrap();
            s.gamma_ret = gammas[i];
            s.normal_ret = zs[i];
        }
        let ret = slot.sample();
        let s = log.lock().unwrap();
        calls.push(json!({"shape": b(s.shape), "scale": b(s.scale), "mean": b(s.mean), "std": b(s.std),
            "var": b(s.std * s.std), "ret": b(ret), "ncalls": [s.gamma_calls, s.normal_calls]}));
        reals.push(b(real.sample()));
    };
    observe(&slot, &real, 0);
    for (i, r) in rewards.iter().enumerate() {
        // play() hands the context to the action; the feedback carries the reward
        let fb = slot.play(*r);
        slot.update(&fb);
        real.update(&Fb(*r));
        observe(&slot, &real, i + 1);
    }
    json!({"params": params, "calls": calls, "real": reals})
}

fn exec_argmax(case: &Value) -> Value {
    let vals = fs(&case["vals"]);
    let reps = case["reps"].as_u64().unwrap_or(300);
    let random = DefaultRandom::new_repeatable();
    let mut picks = BTreeSet::new();
    let mut none = false;
    for _ in 0..reps {
        match random_argmax(vals.iter().cloned(), &random) {
            Some(i) => {
                picks.insert(i);
            }
            None => none = true,
        }
    }
    json!({"picks": picks.into_iter().collect::<Vec<_>>(), "none": none})
}

fn exec_weighted(case: &Value) -> Value {
    let weights: Vec<usize> = case["weights"].as_array().unwrap().iter().map(|w| w.as_u64().unwrap() as usize).collect();
    let reps = case["reps"].as_u64().unwrap_or(1500);
    let random = DefaultRandom::new_repeatable();
    if weights.is_empty() {
        // the code unwraps an empty `min_by`: report the panic as the `none` of the model
        let r = std::panic::catch_unwind(std::panic::AssertUnwindSafe(|| random.weighted(&weights)));
        return json!({"picks": [], "none": r.is_err()});
    }
    let mut picks = BTreeSet::new();
    for _ in 0..reps {
        picks.insert(random.weighted(&weights));
    }
    json!({"picks": picks.into_iter().collect::<Vec<_>>(), "none": false})
}

/// several slot machines with their histories, the default sampler and `random_argmax` — as `SearchAgent::search` does
fn exec_select(case: &Value) -> Value {
    let random: Arc<dyn Random> = Arc::new(DefaultRandom::new_repeatable());
    let slots: Vec<_> = case["slots"]
        .as_array()
        .unwrap()
        .iter()
        .map(|s| {
            let mut slot = SlotMachine::new(f(&s["prior"]), Act, DefaultDistributionSampler::new(random.clone()));
            fs(&s["rewards"]).iter().for_each(|r| slot.update(&Fb(*r)));
            slot
        })
        .collect();
    let rounds = case["rounds"].as_u64().unwrap_or(20);
    let mut picks = vec![];
    let mut samples = vec![];
    for _ in 0..rounds {
        let vals: Vec<f64> = slots.iter().map(|s| s.sample()).collect();
        let pick = random_argmax(vals.iter().cloned(), random.as_ref());
        samples.push(bs(&vals));
        picks.push(json!(pick));
    }
    json!({"picks": picks, "samples": samples})
}

fn exec_reward(case: &Value) -> Value {
    let rev = case["mode"].as_str() == Some("rev");
    let mut ctx = Ctx::new(rev, Arc::new(DefaultRandom::new_repeatable()), false);
    if !case["best"].is_null() {
        ctx.ranked.push(Sol(fs(&case["best"])));
    }
    ctx.statistics.improvement_1000_ratio = f(&case["ratio"]);
    let new = Sol(fs(&case["new"]));
    let init = Sol(fs(&case["init"]));
    let d_init = verif::relative_distance(&ctx.objective, &new, &init);
    let d_best = ctx.ranked.first().map(|best| verif::relative_distance(&ctx.objective, &new, best));
    let base = verif::distance_reward(&ctx, &init, &new);
    let median = case["median"].as_u64().map(|m| m as usize);
    let mult = verif::perf_multiplier(
        &ctx,
        &init,
        median,
        case["duration"].as_u64().unwrap() as usize,
        case["improved"].as_bool().unwrap(),
    );
    json!({"d_init": b(d_init), "d_best": d_best.map(b), "base": b(base), "mult": b(mult), "reward": b(base * mult)})
}

fn phase_of(v: &Value) -> SelectionPhase {
    match v.as_str() {
        Some("initial") => SelectionPhase::Initial,
        Some("exploitation") => SelectionPhase::Exploitation,
        _ => SelectionPhase::Exploration,
    }
}

fn exec_maxgen(case: &Value) -> Value {
    let mut ctx = Ctx::new(false, Arc::new(DefaultRandom::new_repeatable()), false);
    ctx.statistics.generation = case["generation"].as_u64().unwrap() as usize;
    let t = MaxGeneration::<Ctx, Obj, Sol>::new(case["limit"].as_u64().unwrap() as usize);
    let estimate = t.estimate(&ctx);
    let stop = t.is_termination(&mut ctx);
    json!({"estimate": b(estimate), "stop": stop})
}

fn exec_composite(case: &Value) -> Value {
    let mut ctx = Ctx::new(false, Arc::new(DefaultRandom::new_repeatable()), false);
    let mut parts: Vec<Box<dyn Termination<Context = Ctx, Objective = Obj>>> = vec![];
    for (idx, p) in case["parts"].as_array().unwrap().iter().enumerate() {
        match p["t"].as_str().unwrap() {
            "maxgen" => parts.push(Box::new(MaxGeneration::<Ctx, Obj, Sol>::new(p["limit"].as_u64().unwrap() as usize))),
            "target" => parts.push(Box::new(TargetProximity::<Ctx, Obj, Sol>::new(fs(&p["target"]), f(&p["threshold"])))),
            "variation" => parts.push(Box::new(MinVariation::<Ctx, Obj, Sol, String>::new_with_sample(
                p["sample"].as_u64().unwrap() as usize,
                f(&p["threshold"]),
                true,
                format!("mv{idx}"),
            ))),
            other => panic!("unknown part {other}"),
        }
    }
    let t = CompositeTermination::new(parts);
    let mut out = vec![];
    for s in case["steps"].as_array().unwrap() {
        ctx.statistics.generation = s["gen"].as_u64().unwrap() as usize;
        ctx.ranked = if s["fitness"].is_null() { vec![] } else { vec![Sol(fs(&s["fitness"]))] };
        let estimate = t.estimate(&ctx);
        let stop = t.is_termination(&mut ctx);
        out.push(json!({"estimate": b(estimate), "stop": stop}));
    }
    json!({"steps": out})
}

fn exec_target(case: &Value) -> Value {
    let mut ctx = Ctx::new(false, Arc::new(DefaultRandom::new_repeatable()), false);
    if !case["fitness"].is_null() {
        ctx.ranked.push(Sol(fs(&case["fitness"])));
    }
    let target = fs(&case["target"]);
    let t = TargetProximity::<Ctx, Obj, Sol>::new(target.clone(), f(&case["threshold"]));
    let estimate = t.estimate(&ctx);
    let stop = t.is_termination(&mut ctx);
    let distance = ctx.ranked.first().map(|s| b(relative_distance(target.iter(), s.fitness())));
    json!({"estimate": b(estimate), "stop": stop, "distance": distance})
}

fn exec_mv_sample(case: &Value) -> Value {
    let mut ctx = Ctx::new(false, Arc::new(DefaultRandom::new_repeatable()), false);
    let t = MinVariation::<Ctx, Obj, Sol, String>::new_with_sample(
        case["sample"].as_u64().unwrap() as usize,
        f(&case["threshold"]),
        case["global"].as_bool().unwrap(),
        "mv".to_string(),
    );
    let mut fires = vec![];
    let mut estimates = vec![];
    for s in case["steps"].as_array().unwrap() {
        ctx.statistics.generation = s["gen"].as_u64().unwrap() as usize;
        ctx.phase = phase_of(&s["phase"]);
        ctx.ranked = if s["fitness"].is_null() { vec![] } else { vec![Sol(fs(&s["fitness"]))] };
        fires.push(t.is_termination(&mut ctx));
        estimates.push(b(t.estimate(&ctx)));
    }
    json!({"fires": fires, "estimates": estimates})
}

/// period mode reads the wall clock through `statistics().time`: every scenario runs on its own thread with its own
/// timer, sleeps until the scripted moments and brackets each call with two readings of the same timer
fn exec_mv_period(case: &Value) -> Value {
    let scenarios = case["scenarios"].as_array().unwrap().clone();
    let handles: Vec<_> = scenarios
        .into_iter()
        .map(|sc| {
            std::thread::spawn(move || {
                let mut ctx = Ctx::new(false, Arc::new(DefaultRandom::new_repeatable()), false);
                let t = MinVariation::<Ctx, Obj, Sol, String>::new_with_period(
                    sc["period"].as_u64().unwrap() as usize,
                    f(&sc["threshold"]),
                    sc["global"].as_bool().unwrap(),
                    "mv".to_string(),
                );
                ctx.statistics.time = Timer::start();
                let timer = ctx.statistics.time.clone();
                let mut times = vec![];
                let mut fires = vec![];
                for call in sc["calls"].as_array().unwrap() {
                    let at = call["at_ms"].as_u64().unwrap() as u128;
                    loop {
                        let now = timer.elapsed_millis();
                        if now >= at {
                            break;
                        }
                        std::thread::sleep(std::time::Duration::from_millis(((at - now) as u64).min(50)));
                    }
                    ctx.phase = phase_of(&call["phase"]);
                    ctx.ranked = if call["fitness"].is_null() { vec![] } else { vec![Sol(fs(&call["fitness"]))] };
                    let repeat = call["repeat"].as_u64().unwrap_or(1);
                    let before = timer.elapsed_millis() as u64;
                    let mut fired = false;
                    for _ in 0..repeat {
                        fired = t.is_termination(&mut ctx);
                    }
                    let after = timer.elapsed_millis() as u64;
                    times.push(json!([before, after]));
                    fires.push(fired);
                }
                json!({"times": times, "fires": fires})
            })
        })
        .collect();
    let runs: Vec<Value> = handles
        .into_iter()
        .map(|h| match h.join() {
            Ok(v) => v,
            Err(e) => std::panic::resume_unwind(e),
        })
        .collect();
    json!({"runs": runs})
}

fn exec_remedian(case: &Value) -> Value {
    let base = case["base"].as_u64().unwrap() as usize;
    let exponent = case["exponent"].as_u64().unwrap() as usize;
    let mut r: Remedian<usize, fn(&usize, &usize) -> Ordering> = Remedian::new(base, exponent, |a, b| a.cmp(b));
    let mut added = vec![];
    let mut medians = vec![json!(r.approx_median())];
    for v in case["values"].as_array().unwrap() {
        added.push(r.add_observation(v.as_u64().unwrap() as usize));
        medians.push(json!(r.approx_median()));
    }
    json!({"added": added, "medians": medians})
}

fn exec_noise(case: &Value) -> Value {
    let hits: Vec<bool> = case["hits"].as_array().unwrap().iter().map(|h| h.as_bool().unwrap()).collect();
    let us = fs(&case["us"]);
    let values = fs(&case["values"]);
    let random = Arc::new(ScriptRandom::new(hits, us, vec![]));
    let range = (f(&case["range"][0]), f(&case["range"][1]));
    let p = f(&case["probability"]);
    let noise = if case["addition"].as_bool().unwrap() {
        Noise::new_with_addition(p, range, random.clone())
    } else {
        Noise::new_with_ratio(p, range, random.clone())
    };
    let out: Vec<f64> = values.iter().map(|v| noise.generate(*v)).collect();
    json!({"out": bs(&out)})
}

fn exec_sampling(case: &Value) -> Value {
    let size = case["size"].as_u64().unwrap() as usize;
    let amount = case["amount"].as_u64().unwrap() as usize;
    let hits: Vec<bool> = case["hits"].as_array().unwrap().iter().map(|h| h.as_bool().unwrap()).collect();
    let random = Arc::new(ScriptRandom::new(hits, vec![], vec![]));
    let items: Vec<usize> = SelectionSamplingIterator::new(0..size, amount, random.clone()).collect();
    // the probabilities handed to is_hit: needed / left
    let probs: Vec<Value> = random.log.lock().unwrap().iter().map(|e| e[1].clone()).collect();
    // the same with the default random: only counted
    let real = Arc::new(DefaultRandom::new_repeatable());
    let real_items: Vec<usize> = SelectionSamplingIterator::new(0..size, amount, real).collect();
    let pick = case["pick"].as_i64().unwrap() as i32;
    let sample_size = case["sample_size"].as_u64().unwrap() as usize;
    let rnd2 = ScriptRandom::new(vec![], vec![], vec![pick]);
    let range: Vec<usize> = create_range_sampling_iter(0..size, sample_size, &rnd2).collect();
    let asked = rnd2.log.lock().unwrap().first().cloned();
    json!({"items": items, "probs": probs, "real_items": real_items, "range": range, "asked": asked})
}

struct ScriptOp {
    idx: usize,
    script: Arc<Vec<Vec<f64>>>,
    log: Arc<Mutex<Vec<usize>>>,
    spin_us: u64,
}

impl HeuristicSearchOperator for ScriptOp {
    type Context = Ctx;
    type Objective = Obj;
    type Solution = Sol;
    fn search(&self, _: &Ctx, _: &Sol) -> Sol {
        let mut log = self.log.lock().unwrap();
        let k = log.len();
        log.push(self.idx);
        if self.spin_us > 0 {
            std::thread::sleep(std::time::Duration::from_micros(self.spin_us * (self.idx as u64 + 1)));
        }
        Sol(self.script[k % self.script.len()].clone())
    }
}

/// the whole `DynamicSelective` hyper-heuristic over scripted operators, telemetry switched on
fn exec_dynamic(case: &Value) -> Value {
    let n_ops = case["ops"].as_u64().unwrap() as usize;
    let script: Arc<Vec<Vec<f64>>> = Arc::new(case["script"].as_array().unwrap().iter().map(fs).collect());
    let spin_us = case["spin_us"].as_u64().unwrap_or(0);
    let log = Arc::new(Mutex::new(vec![]));
    let random: Arc<dyn Random> = Arc::new(DefaultRandom::new_repeatable());
    let mut ctx = Ctx::new(false, random, true);
    ctx.ranked = vec![Sol(fs(&case["start"]))];
    let ops: HeuristicSearchOperators<Ctx, Obj, Sol> = (0..n_ops)
        .map(|idx| {
            let op: Arc<dyn HeuristicSearchOperator<Context = Ctx, Objective = Obj, Solution = Sol> + Send + Sync> =
                Arc::new(ScriptOp { idx, script: script.clone(), log: log.clone(), spin_us });
            (op, format!("op{idx}"), 1.)
        })
        .collect();
    let mut heuristic = DynamicSelective::new(ops, vec![], &ctx.environment);
    let ratios = fs(&case["ratios"]);
    let mut current = Sol(fs(&case["start"]));
    for g in 0..script.len() {
        ctx.statistics.generation = g;
        ctx.statistics.improvement_1000_ratio = ratios[g % ratios.len()];
        let mut found = if g % 3 == 2 { heuristic.search_many(&ctx, vec![&current]) } else { heuristic.search(&ctx, &current) };
        let new = found.pop().expect("one solution");
        if ctx.objective.total_order(&new, &ctx.ranked[0]) == Ordering::Less {
            ctx.ranked = vec![new.deep_copy()];
        }
        if g % 2 == 0 {
            current = new;
        }
    }
    let text = format!("{heuristic}");
    let mut rewards = vec![];
    let mut params = vec![];
    let mut names = BTreeSet::new();
    let mut section = 0;
    for line in text.lines() {
        if line.starts_with("name,generation") {
            section = 1;
            continue;
        }
        if line.starts_with("generation,state") {
            section = 2;
            continue;
        }
        let cols: Vec<&str> = line.split(',').collect();
        if section == 1 && cols.len() == 6 {
            names.insert(cols[0].to_string());
            rewards.push(b(cols[2].parse::<f64>().unwrap_or(f64::NAN)));
        }
        if section == 2 && cols.len() == 8 {
            let p: Vec<f64> = cols[3..7].iter().map(|c| c.parse::<f64>().unwrap_or(f64::NAN)).collect();
            params.push(json!([b(p[0]), b(p[1]), b(p[2]), b(p[3]), cols[7].parse::<u64>().unwrap_or(u64::MAX)]));
        }
    }
    let used = log.lock().unwrap().clone();
    json!({"used": used, "rewards": rewards, "params": params, "names": names.into_iter().collect::<Vec<_>>()})
}

fn exec_inner(case: &Value) -> Value {
    match case["k"].as_str().unwrap_or("") {
        "slot" => exec_slot(case),
        "argmax" => exec_argmax(case),
        "weighted" => exec_weighted(case),
        "select" => exec_select(case),
        "reward" => exec_reward(case),
        "maxgen" => exec_maxgen(case),
        "composite" => exec_composite(case),
        "target" => exec_target(case),
        "mv_sample" => exec_mv_sample(case),
        "mv_period" => exec_mv_period(case),
        "remedian" => exec_remedian(case),
        "noise" => exec_noise(case),
        "sampling" => exec_sampling(case),
        "dynamic" => exec_dynamic(case),
        other => panic!("unknown case kind {other}"),
    }
}

/// every case runs on a fresh OS thread (inside a fresh one-thread rayon pool): the repository's repeatable RNG is
/// thread-local and seeded with 0, so a case does not depend on the cases before it
fn exec(case: &Value) -> Value {
    let case = case.clone();
    match isolated(1, move || exec_inner(&case)) {
        Ok(v) => v,
        Err(e) => std::panic::resume_unwind(e),
    }
}

// ------------------------------------------------------------------------------------------------
// generators

const SPECIALS: &[u64] = &[
    0x0000_0000_0000_0000, // +0
    0x8000_0000_0000_0000, // -0
    0x7ff0_0000_0000_0000, // +inf
    0xfff0_0000_0000_0000, // -inf
    0x7ff8_0000_0000_0000, // qNaN
    0xfff8_0000_0000_0000, // -qNaN
    0x0000_0000_0000_0001, // min denormal
    0x8000_0000_0000_0001, // -min denormal
    0x3ff0_0000_0000_0000, // 1.0
    0xbff0_0000_0000_0000, // -1.0
    0x7fef_ffff_ffff_ffff, // f64::MAX
    0xffef_ffff_ffff_ffff, // f64::MIN
    0x4008_0000_0000_0000, // 3.0
];

fn gen_reward_stream(rng: &mut Rng, len: usize) -> Vec<f64> {
    let style = rng.below(12);
    let mut pool: Vec<f64> = vec![];
    (0..len)
        .map(|i| {
            let r = match style {
                0 => rng.range(0, 160) as f64 / 8.,                       // dyadic in the documented range
                1 => rng.range(0, 18) as f64,                              // small integers
                2 => 7.5,                                                  // constant
                3 => *rng.pick(&[0., pow2(-1074), pow2(-1074) * 3., pow2(-1060), pow2(-1022), pow2(-1022) * 1.5]),
                4 => rng.range(1, 1 << 20) as f64 * pow2(rng.range(0, 20) as i32), // huge
                5 => pow2(40) + rng.range(0, 3) as f64,                    // huge, nearly equal
                6 => if i % 2 == 0 { 0. } else { 18. },                    // alternating extremes
                7 => i as f64 / 4.,                                        // increasing
                8 => *rng.pick(&[0., 0.05, 0.1, 1.25, 2.5, 3.75, 7.5, 11.25, 15., 22.5, 45.]), // base x multiplier
                9 => {
                    // everything mixed
                    match rng.below(5) {
                        0 => 0.,
                        1 => pow2(-(rng.range(1000, 1074) as i32)),
                        2 => rng.range(0, 1 << 30) as f64,
                        3 => rng.range(0, 1 << 12) as f64 / 256.,
                        _ => pow2(rng.range(30, 60) as i32),
                    }
                }
                10 => if i == 0 { rng.range(0, 40) as f64 / 2. } else { pool[0] },    // constant after the first
                _ => rng.range(0, 6 * 1024) as f64 / 1024.,
            };
            let r = if !pool.is_empty() && rng.chance(1, 6) { *rng.pick(&pool) } else { r };
            pool.push(r);
            r
        })
        .collect()
}

fn gen_slot(rng: &mut Rng, max_len: usize) -> Value {
    let len = match rng.below(10) {
        0 => 0,
        1..=4 => rng.usize(1, 6),
        5..=7 => rng.usize(7, 30),
        _ => rng.usize(31, max_len),
    };
    let rewards = gen_reward_stream(rng, len);
    let prior = match rng.below(8) {
        0 => 0.,
        1 => 0.5,
        2 => 6.,
        3 => pow2(-1074),
        4 => pow2(30),
        _ => 1.,
    };
    let gammas: Vec<f64> = (0..=len)
        .map(|_| match rng.below(6) {
            0 => 0.,
            1 | 2 => pow2(2 * rng.range(-8, 8) as i32),
            3 => rng.range(1, 4096) as f64 / 64.,
            4 => pow2(-(rng.range(20, 60) as i32)),
            _ => rng.range(1, 1 << 20) as f64,
        })
        .collect();
    let zs: Vec<f64> = (0..=len).map(|_| rng.range(-4096, 4096) as f64 / 16.).collect();
    json!({"k": "slot", "prior": b(prior), "rewards": bs(&rewards), "gammas": bs(&gammas), "zs": bs(&zs)})
}

fn gen_fitness(rng: &mut Rng, n: usize, style: u64) -> Vec<f64> {
    (0..n)
        .map(|_| match style {
            0 => rng.range(0, 6) as f64,
            1 => rng.range(0, 2000) as f64,
            2 => rng.range(0, 64) as f64 / 8.,
            3 => rng.range(-6, 6) as f64,
            _ => *rng.pick(&[0., 1., 2., 100., 1000., 0.5]),
        })
        .collect()
}

fn gen_reward(rng: &mut Rng, single: bool) -> Value {
    let n = if single { 1 } else { rng.usize(2, 4) };
    let style = *rng.pick(&[0, 0, 1, 2, 3, 4]);
    let new = gen_fitness(rng, n, style);
    let near = |rng: &mut Rng, v: &Vec<f64>| -> Vec<f64> {
        let mut w = v.clone();
        match rng.below(4) {
            0 => {}
            1 => {
                let i = rng.usize(0, n - 1);
                w[i] += rng.range(1, 4) as f64;
            }
            2 => {
                let i = rng.usize(0, n - 1);
                w[i] -= rng.range(1, 4) as f64;
                if style != 3 && w[i] < 0. {
                    w[i] = 0.;
                }
            }
            _ => w = gen_fitness(rng, n, style),
        }
        w
    };
    let init = near(rng, &new);
    let best = if rng.chance(1, 12) { Value::Null } else if rng.chance(1, 3) { bs(&init) } else { bs(&near(rng, &new)) };
    let median = match rng.below(5) {
        0 => Value::Null,
        1 => json!(0),
        _ => json!(rng.range(1, 100)),
    };
    let ratio = *rng.pick(&[0., 1. / 64., 1. / 32., 3. / 64., 1. / 16., 1. / 8., 9. / 64., 5. / 32., 3. / 16., 0.25, 0.5, 1.]);
    let same_sign = style != 3;
    json!({"k": "reward", "mode": if rng.chance(1, 4) { "rev" } else { "lex" }, "new": bs(&new), "init": bs(&init),
        "best": best, "median": median, "duration": rng.range(0, 250), "ratio": b(ratio), "improved": rng.chance(1, 2),
        "same_sign": same_sign, "assert_documented": single && same_sign})
}

fn gen_mv_sample(rng: &mut Rng) -> Value {
    let sample = rng.usize(1, 6);
    let n_obj = rng.usize(1, 3);
    let threshold = *rng.pick(&[0., 0.01, 0.1, 0.25, 0.5, 1., 2., -0.125]);
    let style = rng.below(9);
    let irregular = rng.chance(1, 8);
    let len = rng.usize(1, 3 * sample + 4);
    let base: Vec<f64> = (0..n_obj).map(|_| rng.range(1, 1000) as f64).collect();
    let mut gen_no = if irregular { rng.usize(0, 5) } else { 0 };
    let steps: Vec<Value> = (0..len)
        .map(|i| {
            let fit: Vec<f64> = (0..n_obj)
                .map(|o| match style {
                    0 => base[o],                                                // constant
                    1 => (base[o] / (i as f64 + 1.)).floor(),                    // converging
                    2 => rng.range(0, 1000) as f64,                              // noise
                    3 => if i < len / 2 { rng.range(0, 1000) as f64 } else { base[o] }, // settles
                    4 => rng.range(-3, 3) as f64,                                // around zero (mean 0, negative mean)
                    5 => base[o] + rng.range(0, 2) as f64,                       // small variation
                    // a heavily penalised start, then small values: the magnitude drops by many orders inside and past the window
                    7 => if i == 0 { 1.0e9 + base[o] } else { 10. + rng.range(0, 2) as f64 },
                    // convergence through several orders of magnitude, then stagnation at a tiny value
                    8 => (base[o] * 4.) / 10f64.powi((2 * i).min(10) as i32),
                    _ => if o == 0 { base[o] } else { rng.range(0, 1000) as f64 }, // one objective constant
                })
                .collect();
            let fit = if irregular && rng.chance(1, 6) { fit[..fit.len() - 1].to_vec() } else { fit };
            let g = gen_no;
            gen_no += if irregular { rng.usize(0, 2) } else { 1 };
            let fitness = if irregular && rng.chance(1, 10) { Value::Null } else { bs(&fit) };
            json!({"gen": g, "fitness": fitness, "phase": *rng.pick(&["initial", "exploration", "exploitation"])})
        })
        .collect();
    json!({"k": "mv_sample", "sample": sample, "threshold": b(threshold), "global": rng.chance(2, 3), "steps": steps,
        "in_hyp": !irregular})
}

fn gen_mv_period_scenario(rng: &mut Rng, long: bool) -> Value {
    let n_obj = rng.usize(1, 2);
    let threshold = *rng.pick(&[0., 0.01, 0.1, 0.5]);
    let style = rng.below(6);
    let n_calls = rng.usize(2, if long { 9 } else { 7 });
    let horizon: u64 = if long { 3400 } else { 2500 };
    let mut at: Vec<u64> = (0..n_calls).map(|_| rng.range(0, (horizon / 20) as i64) as u64 * 20).collect();
    at.sort();
    // gaps longer than the period give windows with fewer than two samples inside
    if rng.chance(1, 2) {
        let k = rng.usize(0, n_calls - 1);
        for t in at.iter_mut().skip(k) {
            *t += 1100;
        }
    }
    let base: Vec<f64> = (0..n_obj).map(|_| rng.range(1, 1000) as f64).collect();
    let calls: Vec<Value> = at
        .iter()
        .enumerate()
        .map(|(i, t)| {
            let fit: Vec<f64> = (0..n_obj)
                .map(|o| match style {
                    0 => base[o],
                    1 => (1000. / (i as f64 + 1.)).floor(),
                    2 => rng.range(0, 1000) as f64,
                    3 => if i < 2 { rng.range(0, 1000) as f64 } else { base[o] },
                    4 => base[o] + rng.range(0, 1) as f64,
                    _ => if i == n_calls - 1 { base[o] / 2. } else { base[o] },
                })
                .collect();
            json!({"at_ms": t, "fitness": bs(&fit), "phase": *rng.pick(&["exploration", "exploitation"])})
        })
        .collect();
    json!({"period": 1, "threshold": b(threshold), "global": rng.chance(3, 4), "calls": calls})
}

fn gen_cases(rng: &mut Rng, tier: Tier) -> Vec<Value> {
    let thorough = tier == Tier::Thorough;
    let scale = if thorough { 30 } else { 1 };
    let mut cases = vec![];

    // --- slot machines
    for _ in 0..(350 * scale) {
        cases.push(gen_slot(rng, if thorough { 200 } else { 120 }));
    }
    // --- argmax
    for _ in 0..(250 * scale) {
        let n = rng.usize(0, 8);
        let mut pool: Vec<u64> = vec![];
        let vals: Vec<u64> = (0..n)
            .map(|_| {
                let v = match rng.below(8) {
                    0..=2 if !pool.is_empty() => *rng.pick(&pool),
                    3 | 4 => *rng.pick(SPECIALS),
                    5 => (rng.range(-3, 3) as f64).to_bits(),
                    6 => (rng.range(-100, 100) as f64 / 8.).to_bits(),
                    _ => rng.next(),
                };
                pool.push(v);
                v
            })
            .collect();
        cases.push(json!({"k": "argmax", "vals": vals, "reps": 300}));
    }
    // --- weighted
    for _ in 0..(150 * scale) {
        let n = if rng.chance(1, 25) { 0 } else { rng.usize(1, 6) };
        let style = rng.below(5);
        let weights: Vec<u64> = (0..n)
            .map(|_| match style {
                0 => rng.range(0, 4) as u64,
                1 => 0,
                2 => rng.range(0, 1) as u64 * 1_000_000,
                3 => rng.range(1, 3) as u64 * 1_000_000_000_000,
                _ => rng.range(1, 4) as u64,
            })
            .collect();
        cases.push(json!({"k": "weighted", "weights": weights, "reps": 1500, "in_hyp": n > 0}));
    }
    // --- slot machines + default sampler + argmax
    for _ in 0..(40 * scale) {
        let k = rng.usize(1, 6);
        let slots: Vec<Value> = (0..k)
            .map(|_| {
                let len = rng.usize(0, 25);
                json!({"prior": b(1.), "rewards": bs(&gen_reward_stream(rng, len))})
            })
            .collect();
        cases.push(json!({"k": "select", "slots": slots, "rounds": 20}));
    }
    // --- rewards
    for i in 0..(500 * scale) {
        cases.push(gen_reward(rng, i % 2 == 0));
    }
    // --- max generation, composite, target proximity
    for _ in 0..(150 * scale) {
        let limit = match rng.below(6) {
            0 => 0,
            1 => 1,
            2 => rng.range(1, 50) as u64,
            3 => 1 << rng.range(1, 20),
            4 => 3 * (1u64 << rng.range(0, 20)),
            _ => rng.range(1, 1_000_000) as u64,
        };
        let generation = match rng.below(6) {
            0 => 0,
            1 => limit,
            2 => limit.saturating_sub(1),
            3 => limit + 1,
            4 => limit * 2 + rng.range(0, 10) as u64,
            _ => rng.range(0, limit.max(1) as i64) as u64,
        };
        cases.push(json!({"k": "maxgen", "limit": limit, "generation": generation, "in_hyp": limit > 0}));
    }
    for _ in 0..(100 * scale) {
        let n_parts = rng.usize(0, 4);
        let n_obj = rng.usize(1, 3);
        let target: Vec<f64> = (0..n_obj).map(|_| rng.range(0, 40) as f64 * 25.).collect();
        let parts: Vec<Value> = (0..n_parts)
            .map(|_| match rng.below(4) {
                0 | 1 => json!({"t": "maxgen", "limit": *rng.pick(&[0u64, 1, 4, 8, 10, 64, 100])}),
                2 => json!({"t": "target", "target": bs(&target), "threshold": b(*rng.pick(&[0.25, 0.5, 1.]))}),
                _ => json!({"t": "variation", "sample": rng.usize(1, 4), "threshold": b(*rng.pick(&[0., 0.125, 0.5]))}),
            })
            .collect();
        let len = rng.usize(1, 12);
        let constant = rng.chance(1, 2);
        let steps: Vec<Value> = (0..len)
            .map(|g| {
                let fit: Vec<f64> =
                    (0..n_obj).map(|o| if constant { target[o] + 50. } else { rng.range(0, 40) as f64 * 25. }).collect();
                json!({"gen": g, "fitness": if rng.chance(1, 15) { Value::Null } else { bs(&fit) }})
            })
            .collect();
        cases.push(json!({"k": "composite", "parts": parts, "steps": steps}));
    }
    for _ in 0..(200 * scale) {
        let n_obj = rng.usize(1, 3);
        let style = rng.below(4);
        let target: Vec<f64> = (0..n_obj)
            .map(|_| match style {
                0 => rng.range(1, 16) as f64 * 8.,
                1 => rng.range(-8, 8) as f64,
                _ => rng.range(0, 1000) as f64,
            })
            .collect();
        let fitness: Vec<f64> = target
            .iter()
            .map(|t| match rng.below(5) {
                0 => *t,
                1 => t / 2.,
                2 => t * 2.,
                3 => t + rng.range(-3, 3) as f64,
                _ => rng.range(0, 1000) as f64,
            })
            .collect();
        let threshold = *rng.pick(&[0., 0.0625, 0.125, 0.25, 0.5, 0.75, 1., 1.5, -0.5]);
        let fitness = if rng.chance(1, 20) { Value::Null } else { bs(&fitness) };
        cases.push(json!({"k": "target", "target": bs(&target), "fitness": fitness, "threshold": b(threshold)}));
    }
    // --- min variation
    for _ in 0..(400 * scale) {
        cases.push(gen_mv_sample(rng));
    }
    {
        // period mode: one batch of concurrent scenarios (wall clock), plus the storage-thinning path
        let n = if thorough { 400 } else { 40 };
        let mut scenarios: Vec<Value> = (0..n).map(|_| gen_mv_period_scenario(rng, thorough)).collect();
        let constant = bs(&[500., 20.]);
        scenarios.push(json!({"period": 1, "threshold": b(0.), "global": true, "calls": [
            {"at_ms": 0, "fitness": constant, "phase": "exploration", "repeat": 1003},
            {"at_ms": 400, "fitness": constant, "phase": "exploration"},
            {"at_ms": 1100, "fitness": constant, "phase": "exploration"},
            {"at_ms": 1300, "fitness": constant, "phase": "exploration", "repeat": 1005}]}));
        cases.push(json!({"k": "mv_period", "scenarios": scenarios}));
    }
    // --- remedian
    for _ in 0..(150 * scale) {
        let base = rng.usize(1, 7);
        let exponent = rng.usize(1, 4);
        let cap = (base as u64).pow(exponent as u32).min(400) as usize;
        let len = match rng.below(4) {
            0 => rng.usize(0, 5),
            1 => cap + rng.usize(0, 4),
            _ => rng.usize(0, cap + 2),
        };
        let wide = rng.chance(1, 2);
        let values: Vec<u64> = (0..len).map(|_| if wide { rng.range(0, 100_000) as u64 } else { rng.range(0, 9) as u64 }).collect();
        cases.push(json!({"k": "remedian", "base": base, "exponent": exponent, "values": values}));
    }
    cases.push(json!({"k": "remedian", "base": 11, "exponent": 7, "values": (0..(if thorough { 20000 } else { 1500 })).map(|i| (i * 7919) % 1000).collect::<Vec<u64>>()}));
    // --- noise, sampling iterators
    for _ in 0..(80 * scale) {
        let n = rng.usize(1, 8);
        let values: Vec<f64> = (0..n).map(|_| *rng.pick(&[0., 1., -2.5, 100., 0.125, 1e6, 3.])).collect();
        let lo = rng.range(-8, 4) as f64 / 8.;
        let hi = lo + rng.range(0, 16) as f64 / 8.;
        let us: Vec<f64> = (0..n).map(|_| lo + (hi - lo) * (rng.range(0, 8) as f64 / 8.)).collect();
        let hits: Vec<bool> = (0..n).map(|_| rng.chance(2, 3)).collect();
        cases.push(json!({"k": "noise", "values": bs(&values), "range": [b(lo), b(hi)], "us": bs(&us), "hits": hits,
            "probability": b(*rng.pick(&[0., 0.25, 1., 2.])), "addition": rng.chance(1, 2)}));
    }
    for _ in 0..(80 * scale) {
        let size = rng.usize(0, 40);
        let amount = rng.usize(1, 12);
        let hits: Vec<bool> = (0..size + 2).map(|_| rng.chance(1, 3)).collect();
        let sample_size = rng.usize(1, 12);
        let max_pick = ((size / sample_size).max(1) - 1) as i64;
        cases.push(json!({"k": "sampling", "size": size, "amount": amount, "hits": hits, "sample_size": sample_size,
            "pick": rng.range(0, max_pick)}));
    }
    // --- the whole hyper-heuristic
    for _ in 0..(6 * scale) {
        let n_obj = rng.usize(1, 3);
        let gens = rng.usize(10, 60);
        let start: Vec<f64> = (0..n_obj).map(|_| rng.range(500, 1000) as f64).collect();
        let mut cur = start.clone();
        let script: Vec<Vec<f64>> = (0..gens)
            .map(|_| {
                let i = rng.usize(0, n_obj - 1);
                match rng.below(4) {
                    0 => cur[i] = (cur[i] - rng.range(1, 40) as f64).max(0.),
                    1 => cur[i] += rng.range(1, 40) as f64,
                    2 => cur[i] = (cur[i] / 2.).floor(),
                    _ => {}
                }
                cur.clone()
            })
            .collect();
        let ratios: Vec<f64> = (0..5).map(|_| *rng.pick(&[0., 0.03125, 0.125, 0.25])).collect();
        cases.push(json!({"k": "dynamic", "ops": rng.usize(1, 5), "start": bs(&start), "script": script.iter().map(|s| bs(s)).collect::<Vec<_>>(),
            "ratios": bs(&ratios), "spin_us": if rng.chance(1, 2) { 300 } else { 0 }, "n_obj": n_obj}));
    }
    cases
}

fn main() {
    run_main(gen_cases, exec)
}
