//! C19 — the self-organising population keeps a well-formed map.
//!
//! Runs the real GSOM `Network` (public API + the `verif_*` hooks of `contraction.rs`) and the real
//! `Rosomaxa` population (with `rosomaxa::example::VectorSolution`) on generated streams and dumps,
//! after every operation, what the public API shows about the map.
//!
//! kinds
//! * `off`  point-wise `verif_get_offset(v, (min, max), decim)` on a batch of `v`
//! * `net`  `Network::new` + a script of `store_batch` / `smooth` / `compact` / `contract(dmin,dmax)` (hook)
//! * `pop`  `Rosomaxa::{add_all, on_generation}` ticks with scripted statistics
//! * `wts`  weights which vrp-core derives from a real `InsertionContext` (`RosomaxaSolution::on_init`)

use rosomaxa::algorithms::gsom::*;
use rosomaxa::example::*;
use rosomaxa::population::{RosomaxaContext, RosomaxaSolution};
use rosomaxa::prelude::*;
use serde_json::{Value, json};
use std::collections::BTreeSet;
use std::fmt::{Display, Formatter};
use std::ops::RangeBounds;
use std::sync::Arc;
use vrp_verif_harness::*;

// ------------------------------------------------------------------------------------------------
// a minimal `Input`/`Storage` pair (the same shape as the repository's own gsom test helpers), with a
// capacity: what `storage_factory(size)` / `resize(size)` ask for is what the node may hold

struct Data {
    w: Vec<Float>,
}

impl Input for Data {
    fn weights(&self) -> &[Float] {
        self.w.as_slice()
    }
}

struct CapStorage {
    cap: usize,
    data: Vec<Data>,
}

impl Storage for CapStorage {
    type Item = Data;

    fn add(&mut self, input: Self::Item) {
        self.data.push(input);
        while self.data.len() > self.cap {
            self.data.remove(0);
        }
    }

    fn iter(&self) -> Box<dyn Iterator<Item = &'_ Self::Item> + '_> {
        Box::new(self.data.iter())
    }

    fn drain<R>(&mut self, range: R) -> Vec<Self::Item>
    where
        R: RangeBounds<usize>,
    {
        self.data.drain(range).collect()
    }

    fn resize(&mut self, size: usize) {
        self.cap = size;
        self.data.truncate(size);
    }

    fn size(&self) -> usize {
        self.data.len()
    }
}

impl Display for CapStorage {
    fn fmt(&self, f: &mut Formatter<'_>) -> std::fmt::Result {
        write!(f, "{}", self.data.len())
    }
}

struct CapFactory {
    cap: usize,
}

impl StorageFactory<(), Data, CapStorage> for CapFactory {
    fn eval(&self, _: &()) -> CapStorage {
        CapStorage { cap: self.cap, data: vec![] }
    }
}

type Net = Network<(), Data, CapStorage, CapFactory>;

// ------------------------------------------------------------------------------------------------
// generators

/// per-mille grid of factors in (0, 1)
const FACTORS: &[i64] = &[10, 100, 250, 500, 750, 900, 990];
/// spread factors biased towards growth (growing threshold = -dim * log2(spread))
const SPREADS: &[i64] = &[10, 250, 500, 750, 750, 900, 900, 990, 990, 999];

fn gen_points(rng: &mut Rng, dim: usize, n: usize, kind: u64, centres: &[Vec<i64>]) -> Vec<Vec<i64>> {
    // values are integers scaled by 1/16 on the Rust side
    let mut pts: Vec<Vec<i64>> = vec![];
    match kind {
        // uniform
        0 => {
            for _ in 0..n {
                pts.push((0..dim).map(|_| rng.range(-1600, 1600)).collect());
            }
        }
        // clustered
        1 => {
            for _ in 0..n {
                let c = rng.pick(centres).clone();
                pts.push(c.iter().map(|v| v + rng.range(-24, 24)).collect());
            }
        }
        // duplicated: a handful of points repeated
        2 => {
            let base: Vec<Vec<i64>> = (0..rng.usize(1, 3)).map(|_| (0..dim).map(|_| rng.range(-800, 800)).collect()).collect();
            for _ in 0..n {
                pts.push(rng.pick(&base).clone());
            }
        }
        // constant
        3 => {
            let c = centres[0].clone();
            for _ in 0..n {
                pts.push(c.clone());
            }
        }
        // clustered with outliers
        4 => {
            for _ in 0..n {
                if rng.chance(1, 6) {
                    let big = *rng.pick(&[16_000_000i64, -16_000_000, 1 << 44, -(1 << 44)]);
                    let at = rng.usize(0, dim - 1);
                    let mut c = rng.pick(centres).clone();
                    c[at] = big;
                    pts.push(c);
                } else {
                    let c = rng.pick(centres).clone();
                    pts.push(c.iter().map(|v| v + rng.range(-24, 24)).collect());
                }
            }
        }
        // a line (one informative dimension): grows the map in one direction
        _ => {
            for _ in 0..n {
                let t = rng.range(-3200, 3200);
                pts.push((0..dim).map(|d| if d == 0 { t } else { 0 }).collect());
            }
        }
    }
    pts
}

fn gen_net(rng: &mut Rng, big: bool) -> Value {
    let dim = *rng.pick(&[1usize, 2, 2, 3, 3, 5]);
    let node_size = *rng.pick(&[1usize, 2, 2, 3, 8]);
    let n_centres = rng.usize(1, 6);
    let centres: Vec<Vec<i64>> = (0..n_centres).map(|_| (0..dim).map(|_| rng.range(-1600, 1600)).collect()).collect();
    let kind = rng.below(6);
    let n_init = match rng.below(8) {
        0 => rng.usize(1, 4),
        1 => *rng.pick(&[41usize, 90, 160]), // 5, 9, 16 initial nodes
        _ => rng.usize(4, if big { 120 } else { 48 }),
    };
    let init_kind = if rng.chance(1, 2) { kind } else { rng.below(6) };
    let init = gen_points(rng, dim, n_init, init_kind, &centres);
    let n_ops = rng.usize(1, if big { 60 } else { 30 });
    let mut ops = vec![];
    let mut time = 0usize;
    for _ in 0..n_ops {
        let op = match rng.below(10) {
            0..=4 => {
                time += rng.usize(0, 3);
                let n = if rng.chance(1, 8) { 0 } else { rng.usize(1, if big { 64 } else { 40 }) };
                let k = if rng.chance(3, 4) { kind } else { rng.below(6) };
                json!({"op": "store", "time": time, "pts": gen_points(rng, dim, n, k, &centres)})
            }
            5 => json!({"op": "smooth", "n": rng.usize(0, 2)}),
            6 | 7 => json!({"op": "compact"}),
            _ => {
                let (a, b) = match rng.below(8) {
                    0 => (2, 2),
                    1 => (2, 3),
                    2 => (3, 4),
                    3 => (4, 3),
                    4 => (1, 1),
                    5 => (3, 3),
                    _ => (rng.range(1, 6), rng.range(1, 6)),
                };
                json!({"op": "contract", "dmin": a, "dmax": b})
            }
        };
        ops.push(op);
    }
    json!({
        "k": "net", "dim": dim,
        "cfg": {"node_size": node_size, "spread": rng.pick(SPREADS), "dist": rng.pick(FACTORS),
                "lr": rng.pick(&[100i64, 300, 1000]), "rebal": rng.pick(&[1usize, 2, 5, 10, 100]),
                "init_err": rng.chance(1, 2)},
        "init": init, "ops": ops,
    })
}

fn gen_off(rng: &mut Rng) -> Value {
    let decim = match rng.below(6) {
        0 | 1 => 3,
        2 | 3 => 4,
        4 => 2,
        _ => rng.range(1, 9),
    };
    let (min, max) = match rng.below(6) {
        0 => (0, rng.range(0, 30)),
        1 => (-rng.range(0, 30), 0),
        2 => {
            let a = rng.range(0, 20);
            (-a, a)
        }
        3 => (rng.range(-40, 40), rng.range(-40, 40)), // not necessarily ordered: the function only takes abs()
        4 => (-rng.range(0, 1 << 20), rng.range(0, 1 << 20)),
        _ => (-rng.range(0, 12), rng.range(0, 12)),
    };
    let lo = -rng.range(0, 40);
    let hi = rng.range(0, 40);
    let mut vs: Vec<i64> = (lo..=hi).collect();
    for _ in 0..rng.usize(0, 6) {
        let m = *rng.pick(&[1i64 << 10, 1 << 20, (1 << 30) - 1]);
        vs.push(rng.range(-m, m));
    }
    json!({"k": "off", "min": min, "max": max, "decim": decim, "vs": vs})
}

fn gen_pop(rng: &mut Rng, big: bool) -> Value {
    let dim = *rng.pick(&[1usize, 2, 2, 3]);
    let n_centres = rng.usize(1, 5);
    let centres: Vec<Vec<i64>> = (0..n_centres).map(|_| (0..dim).map(|_| rng.range(-1600, 1600)).collect()).collect();
    let kind = rng.below(6);
    let initial_size = *rng.pick(&[4usize, 4, 5, 8, 16]);
    let er64 = *rng.pick(&[58i64, 58, 32, 48, 64, 16]); // exploration ratio in 1/64
    let n_ticks = rng.usize(1, if big { 240 } else { 120 });
    // termination estimate in 1/1024: mostly slowly increasing, sometimes jumping (also backwards)
    let mut te: i64 = 0;
    let step = rng.range(1, 1 + 2048 / n_ticks as i64);
    let mut ticks = vec![];
    let mut fit: i64 = 100_000;
    for g in 0..n_ticks {
        let n_add = match rng.below(8) {
            0 => 0,
            1 => rng.usize(2, 9),
            _ => rng.usize(1, 3),
        };
        let k = if rng.chance(4, 5) { kind } else { rng.below(6) };
        let pts = gen_points(rng, dim, n_add, k, &centres);
        let add: Vec<Value> = pts
            .into_iter()
            .map(|p| {
                // fitness: mostly improving, with ties and regressions
                let f = match rng.below(6) {
                    0 => fit,
                    1 => fit + rng.range(1, 500),
                    _ => {
                        fit -= rng.range(0, 50);
                        fit
                    }
                };
                json!({"f": f, "w": p})
            })
            .collect();
        te = match rng.below(12) {
            0 => rng.range(0, 1024),
            1 => te,
            _ => (te + rng.range(0, step)).min(1024),
        };
        let speed = match rng.below(6) {
            0 => json!({"slow": rng.range(1, 16)}), // ratio in 1/16
            1 => json!("moderate"),
            _ => Value::Null,
        };
        ticks.push(json!({"add": add, "te": te, "speed": speed, "gen": g}));
    }
    json!({
        "k": "pop", "dim": dim,
        "cfg": {"initial_size": initial_size, "selection_size": rng.pick(&[2usize, 4, 8]), "elite_size": rng.pick(&[1usize, 2, 4]),
                "node_size": rng.pick(&[1usize, 2, 3]), "spread": rng.pick(SPREADS), "dist": rng.pick(FACTORS),
                "rebal": rng.pick(&[1usize, 2, 3, 5, 10, 20, 100]), "er64": er64},
        "ticks": ticks,
    })
}

fn gen_wts(rng: &mut Rng) -> Value {
    json!({"k": "wts", "jobs": rng.usize(1, 6), "vehicles": rng.usize(1, 2), "capacity": rng.range(0, 4),
           "generations": rng.usize(1, 6), "empty": rng.chance(1, 3), "copies": rng.usize(0, 6)})
}

fn gen_cases(rng: &mut Rng, tier: Tier) -> Vec<Value> {
    let scale = if tier == Tier::Thorough { 12 } else { 1 };
    let mut cases = vec![];
    // hand-written shapes first: with a tiny spread factor the map does not grow, so the initial 2x2 / 3x2 / 3x3 / 4x4
    // grids (4, 5, 9, 16 initial nodes for 4, 41, 90, 160 inputs) reach the contraction as they are
    for (a, b) in [(2, 2), (3, 4), (2, 3), (3, 3), (1, 1), (4, 4)] {
        for n_init in [4usize, 41, 90, 160] {
            let init: Vec<Vec<i64>> = (0..n_init).map(|i| vec![(i as i64 % 13) * 160, (i as i64 / 13) * 160]).collect();
            cases.push(json!({
                "k": "net", "dim": 2,
                "cfg": {"node_size": 2, "spread": 10, "dist": 500, "lr": 100, "rebal": 10, "init_err": false},
                "init": init,
                "ops": [{"op": "contract", "dmin": a, "dmax": b}, {"op": "compact"}, {"op": "contract", "dmin": a, "dmax": b}],
            }));
        }
    }
    for _ in 0..(1000 * scale) {
        cases.push(gen_off(rng));
    }
    for _ in 0..(700 * scale) {
        cases.push(gen_net(rng, tier == Tier::Thorough));
    }
    for _ in 0..(300 * scale) {
        cases.push(gen_pop(rng, tier == Tier::Thorough));
    }
    for _ in 0..(30 * scale) {
        cases.push(gen_wts(rng));
    }
    cases
}

// ------------------------------------------------------------------------------------------------
// execution on the real code

fn to_f(v: i64) -> Float {
    v as Float / 16.
}

fn data_of(pts: &Value) -> Vec<Data> {
    pts.as_array()
        .unwrap()
        .iter()
        .map(|p| Data { w: p.as_array().unwrap().iter().map(|x| to_f(x.as_i64().unwrap())).collect() })
        .collect()
}

fn finite_all(xs: &[Float]) -> bool {
    xs.iter().all(|x| x.is_finite())
}

/// everything the public API shows about the map; `extra` = further coordinates to look up
fn dump_net(net: &Net, extra: &BTreeSet<(i32, i32)>) -> Value {
    // (key, node) pairs sorted by key
    let mut rows: Vec<(i32, i32, Value)> = net
        .iter()
        .map(|(key, node)| {
            let flags = (finite_all(&node.weights) as u8)
                | ((node.error.is_finite() as u8) << 1)
                | ((node.mse(net).is_finite() as u8) << 2)
                | ((node.unified_distance(net, 1).is_finite() as u8) << 3);
            (
                key.0,
                key.1,
                json!([key.0, key.1, node.coordinate.0, node.coordinate.1, node.storage.size(), node.weights.len(), flags,
                       node.total_hits]),
            )
        })
        .collect();
    rows.sort_by_key(|r| (r.0, r.1));
    let keys: BTreeSet<(i32, i32)> = rows.iter().map(|r| (r.0, r.1)).collect();

    // the other views of the same map must tell the same story
    let mut coords: Vec<(i32, i32)> = net.get_coordinates().map(|c| (c.0, c.1)).collect();
    coords.sort();
    let mut node_coords: Vec<(i32, i32)> = net.get_nodes().map(|n| (n.coordinate.0, n.coordinate.1)).collect();
    node_coords.sort();
    let mut iter_node_coords: Vec<(i32, i32)> = net.iter().map(|(_, n)| (n.coordinate.0, n.coordinate.1)).collect();
    iter_node_coords.sort();
    let state = get_network_state(net);
    let mut state_coords: Vec<(i32, i32)> = state.nodes.iter().map(|n| n.coordinate).collect();
    state_coords.sort();
    let shape = get_network_shape(net);
    let views_agree = coords == keys.iter().cloned().collect::<Vec<_>>()
        && node_coords == iter_node_coords
        && state_coords == node_coords
        && net.size() == rows.len()
        && state.shape.0 == (shape.0.0..shape.0.1)
        && state.shape.1 == (shape.1.0..shape.1.1)
        && (state.nodes.is_empty() || state.shape.2 == net.dimension());
    let state_finite = state.mse.is_finite()
        && state.nodes.iter().all(|n| n.mse.is_finite() && n.unified_distance.is_finite() && finite_all(&n.weights));

    // lookups: every key, its four main neighbours, and the coordinates of the previous state
    let mut queries: BTreeSet<(i32, i32)> = extra.clone();
    for (x, y) in keys.iter() {
        queries.insert((*x, *y));
        queries.insert((x - 1, *y));
        queries.insert((x + 1, *y));
        queries.insert((*x, y - 1));
        queries.insert((*x, y + 1));
    }
    let finds: Vec<Value> = queries
        .iter()
        .map(|(x, y)| match net.find(&Coordinate(*x, *y)) {
            Some(node) => json!([x, y, node.coordinate.0, node.coordinate.1]),
            None => json!([x, y]),
        })
        .collect();

    json!({
        "n": rows.into_iter().map(|r| r.2).collect::<Vec<_>>(),
        "size": net.size(),
        "shape": [shape.0.0, shape.0.1, shape.1.0, shape.1.1],
        "mse": net.mse().is_finite() && net.max_unified_distance().is_finite() && state_finite,
        "views": views_agree,
        "find": finds,
    })
}

fn keys_of(net: &Net) -> BTreeSet<(i32, i32)> {
    net.get_coordinates().map(|c| (c.0, c.1)).collect()
}

fn exec_net(case: &Value) -> Value {
    let cfg = &case["cfg"];
    let config = NetworkConfig {
        node_size: cfg["node_size"].as_u64().unwrap() as usize,
        spread_factor: cfg["spread"].as_i64().unwrap() as Float / 1000.,
        distribution_factor: cfg["dist"].as_i64().unwrap() as Float / 1000.,
        learning_rate: cfg["lr"].as_i64().unwrap() as Float / 1000.,
        rebalance_memory: cfg["rebal"].as_u64().unwrap() as usize,
        has_initial_error: cfg["init_err"].as_bool().unwrap(),
    };
    let random = Arc::new(DefaultRandom::new_repeatable());
    // fewer inputs than initial nodes: `Network::new` answers with an error (not a panic)
    let mut net: Net = match Network::new(&(), data_of(&case["init"]), config, random, |size| CapFactory { cap: size }) {
        Ok(net) => net,
        Err(err) => return json!({"err": err.to_string()}),
    };
    let mut states = vec![dump_net(&net, &BTreeSet::new())];
    for op in case["ops"].as_array().unwrap() {
        let before = keys_of(&net);
        match op["op"].as_str().unwrap() {
            "store" => net.store_batch(&(), data_of(&op["pts"]), op["time"].as_u64().unwrap() as usize),
            "smooth" => net.smooth(&(), op["n"].as_u64().unwrap() as usize, |_| ()),
            "compact" => net.compact(&()),
            "contract" => {
                verif_contract_graph(&(), &mut net, (op["dmin"].as_i64().unwrap() as i32, op["dmax"].as_i64().unwrap() as i32))
            }
            other => panic!("unknown op {other}"),
        }
        states.push(dump_net(&net, &before));
    }
    json!({"states": states})
}

fn exec_off(case: &Value) -> Value {
    let min = case["min"].as_i64().unwrap() as i32;
    let max = case["max"].as_i64().unwrap() as i32;
    let decim = case["decim"].as_i64().unwrap() as i32;
    let offs: Vec<Value> = case["vs"]
        .as_array()
        .unwrap()
        .iter()
        .map(|v| {
            let v = v.as_i64().unwrap() as i32;
            // v = 0 is the `unreachable!()` arm of the function: reported as null
            match std::panic::catch_unwind(|| verif_get_offset(v, (min, max), decim)) {
                Ok(o) => json!(o),
                Err(_) => Value::Null,
            }
        })
        .collect();
    json!(offs)
}

type Pop = Rosomaxa<VectorRosomaxaContext, VectorObjective, VectorSolution>;

fn phase_i(p: SelectionPhase) -> i64 {
    match p {
        SelectionPhase::Initial => 0,
        SelectionPhase::Exploration => 1,
        SelectionPhase::Exploitation => 2,
    }
}

/// what `NetworkState::try_from(&population)` shows, canonicalised; null outside the exploration phase
fn dump_pop_net(pop: &Pop) -> Value {
    match NetworkState::try_from(pop) {
        Ok(state) => {
            let mut rows: Vec<(i32, i32, Value)> = state
                .nodes
                .iter()
                .map(|n| {
                    // the storage dump of an elitism population lists one `[fitness],` group per individual
                    let held = n.dump.matches("],").count();
                    let flags = (finite_all(&n.weights) as u8)
                        | ((n.mse.is_finite() as u8) << 2)
                        | ((n.unified_distance.is_finite() as u8) << 3);
                    (n.coordinate.0, n.coordinate.1, json!([n.coordinate.0, n.coordinate.1, held, n.weights.len(), flags, n.total_hits]))
                })
                .collect();
            rows.sort_by_key(|r| (r.0, r.1));
            json!({
                "n": rows.into_iter().map(|r| r.2).collect::<Vec<_>>(),
                "shape": [state.shape.0.start, state.shape.0.end, state.shape.1.start, state.shape.1.end],
                "dim": state.shape.2,
                "mse": state.mse.is_finite(),
            })
        }
        Err(_) => Value::Null,
    }
}

fn exec_pop(case: &Value) -> Value {
    let cfg = &case["cfg"];
    let u = |k: &str| cfg[k].as_u64().unwrap() as usize;
    let config = RosomaxaConfig {
        initial_size: u("initial_size"),
        selection_size: u("selection_size"),
        elite_size: u("elite_size"),
        node_size: u("node_size"),
        spread_factor: cfg["spread"].as_i64().unwrap() as Float / 1000.,
        distribution_factor: cfg["dist"].as_i64().unwrap() as Float / 1000.,
        rebalance_memory: u("rebal"),
        exploration_ratio: cfg["er64"].as_i64().unwrap() as Float / 64.,
    };
    let env = Arc::new(Environment {
        random: Arc::new(DefaultRandom::new_repeatable()),
        logger: Arc::new(|_| {}),
        ..Environment::default()
    });
    let objective = Arc::new(VectorObjective::new(Arc::new(|_| 0.), Arc::new(|_| vec![])));
    let mut pop: Pop = Rosomaxa::new(VectorRosomaxaContext, objective, env, config).expect("cannot create population");
    let mut out = vec![];
    for tick in case["ticks"].as_array().unwrap() {
        let individuals: Vec<VectorSolution> = tick["add"]
            .as_array()
            .unwrap()
            .iter()
            .map(|s| {
                let w: Vec<Float> = s["w"].as_array().unwrap().iter().map(|x| to_f(x.as_i64().unwrap())).collect();
                VectorSolution::new(w.clone(), s["f"].as_i64().unwrap() as Float, w)
            })
            .collect();
        let improved = pop.add_all(individuals);
        let phase_add = phase_i(pop.selection_phase());
        let pre = dump_pop_net(&pop);
        let speed = match &tick["speed"] {
            Value::Null => HeuristicSpeed::Unknown,
            Value::String(_) => HeuristicSpeed::Moderate { average: 1., median: None },
            v => HeuristicSpeed::Slow { ratio: v["slow"].as_i64().unwrap() as Float / 16., average: 1., median: None },
        };
        let statistics = HeuristicStatistics {
            generation: tick["gen"].as_u64().unwrap() as usize,
            speed,
            termination_estimate: tick["te"].as_i64().unwrap() as Float / 1024.,
            ..HeuristicStatistics::default()
        };
        pop.on_generation(&statistics);
        let phase = phase_i(pop.selection_phase());
        let post = dump_pop_net(&pop);
        let ranked: Vec<i64> = pop.ranked().map(|s| s.fitness().next().unwrap() as i64).collect();
        out.push(json!({
            "improved": improved, "phase_add": phase_add, "phase": phase, "pre": pre, "post": post,
            "size": pop.size(), "ranked": ranked, "selected": pop.select().count(), "all": pop.all().count(),
        }));
    }
    json!({"ticks": out})
}

fn exec_wts(case: &Value) -> Value {
    use vrp_core::construction::heuristics::InsertionContext;
    use vrp_core::models::common::Footprint;
    use vrp_core::prelude::*;

    let n_jobs = case["jobs"].as_u64().unwrap() as usize;
    let n_vehicles = case["vehicles"].as_u64().unwrap() as usize;
    let capacity = case["capacity"].as_i64().unwrap() as i32;
    let generations = case["generations"].as_u64().unwrap() as usize;
    let empty = case["empty"].as_bool().unwrap();

    let size = n_jobs + 1;
    let matrix: Vec<Float> = (0..size * size).map(|i| ((i / size) as Float - (i % size) as Float).abs()).collect();
    let transport = Arc::new(SimpleTransportCost::new(matrix.clone(), matrix).unwrap());
    let capacity_feature = CapacityFeatureBuilder::<SingleDimLoad>::new("capacity").build().unwrap();
    let transport_feature = TransportFeatureBuilder::new("min-distance")
        .set_transport_cost(transport.clone())
        .set_time_constrained(false)
        .build_minimize_distance()
        .unwrap();
    let minimize_unassigned = MinimizeUnassignedBuilder::new("min-unassigned").build().unwrap();
    let goal = GoalContextBuilder::with_features(&[minimize_unassigned, transport_feature, capacity_feature])
        .unwrap()
        .build()
        .unwrap();
    let jobs = (0..n_jobs).map(|i| {
        SingleBuilder::default()
            .id(&format!("j{i}"))
            .demand(Demand::delivery(1))
            .location(i + 1)
            .unwrap()
            .build_as_job()
            .unwrap()
    });
    let vehicles = (0..n_vehicles).map(|i| {
        VehicleBuilder::default()
            .id(&format!("v{i}"))
            .add_detail(VehicleDetailBuilder::default().set_start_location(0).set_end_location(0).build().unwrap())
            .capacity(SingleDimLoad::new(capacity))
            .build()
            .unwrap()
    });
    let problem = Arc::new(
        ProblemBuilder::default()
            .add_jobs(jobs)
            .add_vehicles(vehicles)
            .with_goal(goal)
            .with_transport_cost(transport)
            .build()
            .unwrap(),
    );
    let env = Arc::new(Environment { logger: Arc::new(|_| {}), ..Environment::default() });
    let mut ctx = if empty {
        InsertionContext::new(problem.clone(), env)
    } else {
        let config = VrpConfigBuilder::new(problem.clone())
            .set_environment(env.clone())
            .prebuild()
            .unwrap()
            .with_max_generations(Some(generations))
            .build()
            .unwrap();
        let solution = Solver::new(problem.clone(), config).solve().unwrap();
        InsertionContext::new_from_solution(problem.clone(), (solution, None), env)
    };
    ctx.on_init(&Footprint::new(&problem));
    let w = ctx.weights().to_vec();

    // the same individuals in the real default population type of the solver
    let copies = case["copies"].as_u64().unwrap_or(0) as usize;
    let map = if copies > 0 {
        let config = RosomaxaConfig { initial_size: 4, rebalance_memory: 4, ..RosomaxaConfig::new_with_defaults(4) };
        let env = Arc::new(Environment {
            random: Arc::new(DefaultRandom::new_repeatable()),
            logger: Arc::new(|_| {}),
            ..Environment::default()
        });
        let mut pop: vrp_core::solver::RosomaxaPopulation =
            Rosomaxa::new(Footprint::new(&problem), problem.goal.clone(), env, config).expect("cannot create population");
        let mut phases = vec![];
        let mut dumps = vec![];
        for g in 0..4 {
            pop.add_all((0..copies).map(|_| ctx.deep_copy()).collect());
            pop.on_generation(&HeuristicStatistics {
                generation: g,
                termination_estimate: g as Float / 8.,
                ..HeuristicStatistics::default()
            });
            phases.push(phase_i(pop.selection_phase()));
            if let Ok(state) = NetworkState::try_from(&pop) {
                let mut rows: Vec<(i32, i32, usize, bool)> = state
                    .nodes
                    .iter()
                    .map(|n| {
                        (n.coordinate.0, n.coordinate.1, n.weights.len(),
                         finite_all(&n.weights) && n.mse.is_finite() && n.unified_distance.is_finite())
                    })
                    .collect();
                rows.sort();
                dumps.push(json!({"n": rows.iter().map(|r| json!([r.0, r.1, r.2, r.3])).collect::<Vec<_>>(),
                                  "dim": state.shape.2, "mse": state.mse.is_finite()}));
            } else {
                dumps.push(Value::Null);
            }
        }
        json!({"phases": phases, "states": dumps})
    } else {
        Value::Null
    };
    json!({"len": w.len(), "finite": w.iter().map(|x| x.is_finite()).collect::<Vec<_>>(), "routes": ctx.solution.routes.len(),
           "map": map})
}

fn exec(case: &Value) -> Value {
    let case = case.clone();
    // fresh thread: the repository's repeatable RNG is thread-local, so every case starts from the same state
    let res = isolated(1, move || {
        exec_caught(
            &|case: &Value| match case["k"].as_str().unwrap() {
                "off" => exec_off(case),
                "net" => exec_net(case),
                "pop" => exec_pop(case),
                "wts" => exec_wts(case),
                other => panic!("unknown case kind {other}"),
            },
            &case,
        )
    });
    res.unwrap_or_else(|_| json!({"panic": "worker thread died"}))
}

fn main() {
    run_main(gen_cases, exec);
}
