//! C20 — quoted insertion cost vs realised objective change: quote from the real
//! `eval_job_insertion_in_route(Concrete(p))`, insertion carried out by the real `InsertionHeuristic`
//! (`PositionInsertionEvaluator::new(Concrete(p))`), fitness from the real `GoalContext::fitness`.

use serde_json::{Value, json};
use vrp_core::construction::heuristics::*;
use vrp_core::rosomaxa::prelude::HeuristicSolution;
use vrp_verif_harness::evalcase::*;
use vrp_verif_harness::evalgen::*;
use vrp_verif_harness::pragen::quiet_env;
use vrp_verif_harness::*;

fn gen_cases(rng: &mut Rng, tier: Tier) -> Vec<Value> {
    let n = if tier == Tier::Thorough { 40000 } else { 2000 };
    (0..n)
        .map(|i| {
            // every fifth candidate is a multi-task job (pickup then delivery of one shipment), always with a value: the quote of
            // the sequential search against the realised change, per additive layer (oracle only, no model of eval_multi)
            let multi = i % 5 == 4;
            let mut case = gen_case(rng, if multi { "multi" } else { "single" });
            // two cases in three carry job values (maximize-value layer after the transport layer), read per job or per (actor, job)
            if i % 3 != 0 || multi {
                let k = case["tour"].as_array().unwrap().len();
                let tour: Vec<i64> = (0..k).map(|_| rng.range(0, 20)).collect();
                case["values"] = json!({"tour": tour, "job": rng.range(0, 20), "mode": if i % 3 == 1 { "job" } else { "actor" }});
            }
            // one case in four: a goal of eight or nine layers (four constantly-zero layers in front of the usual ones)
            if i % 4 == 2 {
                case["pad_layers"] = json!(4);
            }
            case
        })
        .collect()
}

fn ints(it: impl Iterator<Item = f64>) -> Vec<i64> {
    it.map(|v| {
        assert!(v.fract() == 0. && v.abs() < 9.0e15, "non-integral value {v}");
        v as i64
    })
    .collect()
}

/// goals padded with constantly-zero layers in front (`pad_layers`): the padding must read zero everywhere and is taken off
/// again, so that the rows have the shape the model predicts; a quote that is SHORTER than the goal has layers stays short
fn ints_p(pad: usize, it: impl Iterator<Item = f64>) -> Vec<i64> {
    strip(pad, ints(it))
}

fn strip(pad: usize, v: Vec<i64>) -> Vec<i64> {
    assert!(v.iter().take(pad).all(|x| *x == 0), "a constantly-zero layer reads non-zero: {v:?}");
    v.into_iter().skip(pad).collect()
}

fn exec(case: &Value) -> Value {
    let pad = case["pad_layers"].as_u64().unwrap_or(0) as usize;
    let ec = build_case(case, quiet_env());
    // the candidate job counts as unassigned before the insertion (`InsertionContext::new` lists it there)
    let job = ec.job.clone();
    assert!(ec.ctx.solution.unassigned.contains_key(&job) && ec.ctx.solution.required.is_empty());
    let before = ints_p(pad, ec.problem.goal.fitness(&ec.ctx));

    let route_ctx = match ec.ctx.solution.routes.first() {
        Some(r) => r.deep_copy(),
        None => ec.ctx.solution.registry.next_route().next().expect("a free route").deep_copy(),
    };
    let legs = route_ctx.route().tour.legs().count();
    let leg_selection = LegSelection::Exhaustive;
    let result_selector = BestResultSelector::default();
    if case["k"] == "multi" {
        // one row: the best placement of the whole job (`Any`), carried out by the real construction heuristic
        let eval_ctx = EvaluationContext { goal: &ec.problem.goal, job: &job, leg_selection: &leg_selection, result_selector: &result_selector };
        let quote = eval_job_insertion_in_route(&ec.ctx, &eval_ctx, &route_ctx, InsertionPosition::Any, InsertionResult::make_failure());
        let InsertionResult::Success(success) = quote else { return json!({"rows": [Value::Null]}) };
        let acts: Vec<Value> = success
            .activities
            .iter()
            .map(|(a, idx)| {
                json!({"idx": idx, "place": a.place.idx, "loc": a.place.location, "dur": a.place.duration as i64,
                       "tw": [a.place.time.start as i64, a.place.time.end as i64]})
            })
            .collect();
        let heuristic = InsertionHeuristic::new(Box::new(PositionInsertionEvaluator::default()));
        let result = heuristic.process(ec.ctx.deep_copy(), &AllJobSelector::default(), &AllRouteSelector::default(), &leg_selection, &result_selector);
        let inserted = result.solution.routes.iter().any(|r| r.route().tour.jobs().any(|j| *j == job));
        assert!(inserted, "the construction heuristic did not place the multi-task job the evaluator accepted");
        let after = ints_p(pad, ec.problem.goal.fitness(&result));
        return json!({"rows": [{"cost": ints_p(pad, success.cost.iter()), "acts": acts, "before": before, "after": after}]});
    }
    let rows: Vec<Value> = (0..legs)
        .map(|p| {
            let eval_ctx = EvaluationContext { goal: &ec.problem.goal, job: &job, leg_selection: &leg_selection, result_selector: &result_selector };
            let quote = eval_job_insertion_in_route(&ec.ctx, &eval_ctx, &route_ctx, InsertionPosition::Concrete(p), InsertionResult::make_failure());
            let InsertionResult::Success(success) = quote else { return Value::Null };
            let (act, _) = &success.activities[0];
            // carry the insertion out through the real construction heuristic at the same position
            let heuristic = InsertionHeuristic::new(Box::new(PositionInsertionEvaluator::new(InsertionPosition::Concrete(p))));
            let result = heuristic.process(ec.ctx.deep_copy(), &AllJobSelector::default(), &AllRouteSelector::default(), &leg_selection, &result_selector);
            let inserted = result.solution.routes.iter().any(|r| r.route().tour.jobs().any(|j| *j == job));
            if !inserted {
                let dep = result.solution.routes.first().map(|r| r.route().tour.start().unwrap().schedule.departure);
                panic!("the construction heuristic did not place the job the evaluator accepted: p={p} unassigned={:?} dep={dep:?} routes={}",
                    result.solution.unassigned.get(&job), result.solution.routes.len());
            }
            let after = ints_p(pad, ec.problem.goal.fitness(&result));
            json!({"cost": ints_p(pad, success.cost.iter()), "place": act.place.idx, "tw": [act.place.time.start as i64, act.place.time.end as i64],
                   "before": before, "after": after})
        })
        .collect();
    json!({"rows": rows})
}

fn main() {
    run_main(gen_cases, exec);
}
