use vrp_verif_harness::evalcase::*;
use vrp_verif_harness::pragen::quiet_env;
fn main() {
    let text = std::fs::read_to_string("/tmp/c20_25.json").unwrap();
    let case: serde_json::Value = serde_json::from_str(&text).unwrap();
    let ec = build_case(&case, quiet_env());
    eprintln!("required={} unassigned={} ignored={} routes={} problem_jobs={}", ec.ctx.solution.required.len(), ec.ctx.solution.unassigned.len(),
        ec.ctx.solution.ignored.len(), ec.ctx.solution.routes.len(), ec.problem.jobs.size());
    eprintln!("fitness {:?}", ec.problem.goal.fitness(&ec.ctx).collect::<Vec<_>>());
}
