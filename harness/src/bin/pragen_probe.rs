//! development probe: how many generated problems are valid, solvable, and accepted by the repo checker
use vrp_verif_harness::pragen::*;
use vrp_verif_harness::*;
use vrp_pragmatic::checker::CheckerContext;
use vrp_pragmatic::format::problem::{deserialize_problem, deserialize_matrix};
use vrp_pragmatic::format::solution::deserialize_solution;
use std::io::BufReader;

fn main() {
    quiet_panics();
    let args = parse_args();
    let mut rng = Rng::new(args.seed);
    let n: usize = args.extra.first().and_then(|s| s.parse().ok()).unwrap_or(40);
    let (mut ok, mut invalid, mut checker_fail, mut panics) = (0, 0, 0, 0);
    let mut codes = std::collections::BTreeMap::<String, usize>::new();
    for i in 0..n {
        let cfg = GenCfg::random(&mut rng);
        let sp = gen_problem(&mut rng, &cfg);
        let (pj, mj) = sp.to_pragmatic();
        let r = std::panic::catch_unwind(std::panic::AssertUnwindSafe(|| {
            match sp.read() {
                Err(cs) => Err(cs),
                Ok(problem) => {
                    let (_sol, json) = solve_default(problem.clone(), quiet_env(), 30).unwrap();
                    let api_problem = deserialize_problem(BufReader::new(serde_json::to_string(&pj).unwrap().as_bytes())).unwrap();
                    let ms = mj.iter().map(|m| deserialize_matrix(BufReader::new(serde_json::to_string(m).unwrap().as_bytes())).unwrap()).collect::<Vec<_>>();
                    let sol = deserialize_solution(BufReader::new(serde_json::to_string(&json).unwrap().as_bytes())).unwrap();
                    let chk = CheckerContext::new(problem, api_problem, Some(ms), sol).and_then(|c| c.check());
                    Ok((json, chk.map_err(|e| format!("{e:?}"))))
                }
            }
        }));
        match r {
            Err(_) => { panics += 1; eprintln!("case {i}: PANIC cfg={cfg:?}"); }
            Ok(Err(cs)) => { invalid += 1; for c in cs { *codes.entry(c).or_default() += 1; } }
            Ok(Ok((json, chk))) => {
                if let Err(e) = chk { checker_fail += 1; eprintln!("case {i}: checker: {e}");
                    std::fs::create_dir_all("/tmp/pp").ok();
                    std::fs::write(format!("/tmp/pp/{i}.problem.json"), serde_json::to_string_pretty(&pj).unwrap()).ok();
                    std::fs::write(format!("/tmp/pp/{i}.sproblem.json"), serde_json::to_string(&sp).unwrap()).ok();
                    std::fs::write(format!("/tmp/pp/{i}.matrix.json"), serde_json::to_string(&mj).unwrap()).ok();
                    std::fs::write(format!("/tmp/pp/{i}.solution.json"), serde_json::to_string_pretty(&json).unwrap()).ok();
                } else { ok += 1; }
                if i == 0 { eprintln!("{}", serde_json::to_string(&simplify_solution(&json)).unwrap()); }
            }
        }
    }
    eprintln!("ok={ok} invalid={invalid} {codes:?} checker_fail={checker_fail} panics={panics}");
}
