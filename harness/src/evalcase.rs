//! Builds, from a JSON case, a core problem with ONE vehicle, a tour of single-place jobs in a given
//! order and a candidate job — the common set-up of the evaluator-level checks (C06, C20, C05, C15).
//!
//! Case fields: `n`, `dur`, `dist` (row-major integer matrices), `veh` = {start, earliest, latest|null,
//! dep, end: null|[loc, latest]}, `cap` (per dimension), `costs` = [fixed, per_distance, per_time],
//! `obj` = "distance" | "cost", `tour` = [{loc, s, e, dur, dem: null|[[sp],[dp],[sd],[dd]]}],
//! `job` = {places: [{loc, dur, tws: [[s,e],…]}], dem} (single) or `jobs` for a multi job.

use serde_json::Value;
use std::sync::Arc;
use vrp_core::construction::enablers::update_route_departure;
use vrp_core::construction::features::*;
use vrp_core::construction::heuristics::*;
use vrp_core::models::common::*;
use vrp_core::models::problem::*;
use vrp_core::models::solution::{Activity, Place as ActPlace};
use vrp_core::models::{Feature, GoalContext, GoalContextBuilder, Problem, ViolationCode};
use vrp_core::prelude::{DefaultRandom, Environment, Float, ProblemBuilder, Random};

pub fn i64s(v: &Value) -> Vec<i64> {
    v.as_array().map(|a| a.iter().map(|x| x.as_i64().unwrap()).collect()).unwrap_or_default()
}

fn load_of<T: LoadOps>(make: &dyn Fn(&[i64]) -> T, v: &Value) -> T {
    make(&i64s(v))
}

fn demand_of<T: LoadOps>(make: &dyn Fn(&[i64]) -> T, dem: &Value) -> Option<Demand<T>> {
    if dem.is_null() {
        return None;
    }
    Some(Demand { pickup: (load_of(make, &dem[0]), load_of(make, &dem[1])), delivery: (load_of(make, &dem[2]), load_of(make, &dem[3])) })
}

pub struct EvalCase {
    pub problem: Arc<Problem>,
    pub ctx: InsertionContext,
    /// the candidate job (last job of the problem)
    pub job: Job,
    pub tour_jobs: Vec<Job>,
    pub dims: usize,
}

fn single_from(id: &str, places: &Value, dem: &Value, dims: usize) -> Single {
    let mut builder = SingleBuilder::default().id(id);
    let ps: Vec<Place> = places
        .as_array()
        .unwrap()
        .iter()
        .map(|p| Place {
            location: Some(p["loc"].as_u64().unwrap() as usize),
            duration: p["dur"].as_i64().unwrap() as f64,
            times: p["tws"]
                .as_array()
                .unwrap()
                .iter()
                .map(|w| TimeSpan::Window(TimeWindow::new(w[0].as_i64().unwrap() as f64, w[1].as_i64().unwrap() as f64)))
                .collect(),
        })
        .collect();
    builder = builder.add_places(ps.into_iter());
    if dims <= 1 {
        if let Some(d) = demand_of(&|x: &[i64]| SingleDimLoad::new(x.first().copied().unwrap_or(0) as i32), dem) {
            builder = builder.demand(d);
        }
    } else if let Some(d) = demand_of(&|x: &[i64]| MultiDimLoad::new(x.iter().map(|v| *v as i32).collect()), dem) {
        builder = builder.demand(d);
    }
    builder.build().unwrap()
}

/// an additive objective that is constantly zero: pads a goal with further layers (goals of more than six layers exist:
/// unassigned, priority, value, order, tours, cost, distance, ...)
pub struct ZeroObjective;

impl vrp_core::models::FeatureObjective for ZeroObjective {
    fn fitness(&self, _: &InsertionContext) -> f64 {
        0.
    }
    fn estimate(&self, _: &MoveContext<'_>) -> f64 {
        0.
    }
}

pub fn zero_features(n: usize) -> Vec<Feature> {
    (0..n).map(|i| vrp_core::models::FeatureBuilder::default().with_name(&format!("zero{i}")).with_objective(ZeroObjective).build().unwrap()).collect()
}

pub fn build_goal(transport: Arc<dyn TransportCost>, obj: &str, dims: usize, extra: Vec<Feature>) -> GoalContext {
    build_goal_padded(transport, obj, dims, extra, 0)
}

/// `pad` constantly-zero layers in front of the usual ones
pub fn build_goal_padded(transport: Arc<dyn TransportCost>, obj: &str, dims: usize, extra: Vec<Feature>, pad: usize) -> GoalContext {
    let unassigned = MinimizeUnassignedBuilder::new("min-unassigned").build().unwrap();
    let tours = create_minimize_tours_feature("min-tours").unwrap();
    let tb = TransportFeatureBuilder::new("transport").set_transport_cost(transport).set_violation_code(ViolationCode(1));
    let transport_feature = if obj == "cost" { tb.build_minimize_cost() } else { tb.build_minimize_distance() }.unwrap();
    let capacity = if dims <= 1 {
        CapacityFeatureBuilder::<SingleDimLoad>::new("capacity").set_violation_code(ViolationCode(2)).build().unwrap()
    } else {
        CapacityFeatureBuilder::<MultiDimLoad>::new("capacity").set_violation_code(ViolationCode(2)).build().unwrap()
    };
    let mut features = zero_features(pad);
    features.extend(vec![unassigned, tours, transport_feature, capacity]);
    features.extend(extra);
    GoalContextBuilder::with_features(&features).unwrap().build().unwrap()
}

/// builds problem + insertion context with the tour in place (caches accepted); the candidate job is
/// listed in `unassigned` with an unknown reason, as `InsertionContext::new` leaves it
pub fn build_case(case: &Value, env: Arc<Environment>) -> EvalCase {
    let durations: Vec<f64> = i64s(&case["dur"]).into_iter().map(|x| x as f64).collect();
    let distances: Vec<f64> = i64s(&case["dist"]).into_iter().map(|x| x as f64).collect();
    let transport = create_matrix_transport_cost(vec![MatrixData::new(0, None, durations, distances)]).unwrap();
    let cap = i64s(&case["cap"]);
    let dims = cap.len();

    let mut jobs: Vec<Job> = vec![];
    for (i, a) in case["tour"].as_array().unwrap().iter().enumerate() {
        let places = serde_json::json!([{"loc": a["loc"], "dur": a["dur"], "tws": [[a["s"], a["e"]]]}]);
        jobs.push(Job::Single(Arc::new(single_from(&format!("t{i}"), &places, &a["dem"], dims))));
    }
    let tour_jobs = jobs.clone();
    let job = if let Some(j) = case.get("job") {
        Job::Single(Arc::new(single_from("x", &j["places"], &j["dem"], dims)))
    } else {
        let mut mb = MultiBuilder::default().id("x");
        for (k, j) in case["jobs"].as_array().unwrap().iter().enumerate() {
            mb = mb.add_job(single_from(&format!("x{k}"), &j["places"], &j["dem"], dims));
        }
        mb.build_as_job().unwrap()
    };
    jobs.push(job.clone());

    let veh = &case["veh"];
    let mut detail = VehicleDetailBuilder::default()
        .set_start_location(veh["start"].as_u64().unwrap() as usize)
        .set_start_time(veh["earliest"].as_i64().unwrap() as f64);
    if let Some(l) = veh["latest"].as_i64() {
        detail = detail.set_start_time_latest(l as f64);
    } else {
        // no latest departure: unbounded
        detail = detail.set_start_time_latest(f64::MAX);
    }
    if let Some(end) = veh["end"].as_array() {
        detail = detail.set_end_location(end[0].as_u64().unwrap() as usize).set_end_time(end[1].as_i64().unwrap() as f64);
    }
    let costs = i64s(&case["costs"]);
    let mut vb = VehicleBuilder::default().id("v1").add_detail(detail.build().unwrap()).set_distance_cost(costs[1] as f64).set_duration_cost(costs[2] as f64);
    vb = if dims <= 1 { vb.capacity(SingleDimLoad::new(cap[0] as i32)) } else { vb.capacity(MultiDimLoad::new(cap.iter().map(|v| *v as i32).collect())) };
    let mut vehicle = vb.build().unwrap();
    vehicle.costs.fixed = costs[0] as f64;

    // optional maximize-value layer (C20): values by job id, read per job or per (actor, job)
    let mut extra = vec![];
    if let Some(vals) = case.get("values") {
        let mut map: std::collections::HashMap<String, f64> = i64s(&vals["tour"]).into_iter().enumerate().map(|(i, v)| (format!("t{i}"), v as f64)).collect();
        map.insert("x".to_string(), vals["job"].as_i64().unwrap() as f64);
        let map = Arc::new(map);
        let lookup = move |job: &Job| job.dimens().get_job_id().and_then(|id| map.get(id)).copied().unwrap_or(0.);
        let read: JobReadValueFn = if vals["mode"].as_str() == Some("actor") {
            JobReadValueFn::Right(Arc::new(move |_, job| lookup(job)))
        } else {
            JobReadValueFn::Left(Arc::new(move |job| lookup(job)))
        };
        extra.push(create_maximize_total_job_value_feature("value", read, Arc::new(|job, _| job), ViolationCode(3)).unwrap());
    }
    let pad = case["pad_layers"].as_u64().unwrap_or(0) as usize;
    let goal = build_goal_padded(transport.clone(), case["obj"].as_str().unwrap_or("distance"), dims, extra, pad);
    let problem = Arc::new(
        ProblemBuilder::default()
            .add_jobs(jobs.into_iter())
            .add_vehicles(std::iter::once(vehicle))
            .with_goal(goal)
            .with_transport_cost(transport)
            .build()
            .unwrap(),
    );

    let mut ctx = InsertionContext::new(problem.clone(), env);
    let actor = problem.fleet.actors.first().unwrap().clone();
    let mut route_ctx = ctx.solution.registry.get_route(&actor).expect("route for the only actor");
    for (a, job) in case["tour"].as_array().unwrap().iter().zip(tour_jobs.iter()) {
        let single = job.to_single().clone();
        let mut act = Activity::new_with_job(single);
        act.place = ActPlace {
            idx: 0,
            location: a["loc"].as_u64().unwrap() as usize,
            duration: a["dur"].as_i64().unwrap() as f64,
            time: TimeWindow::new(a["s"].as_i64().unwrap() as f64, a["e"].as_i64().unwrap() as f64),
        };
        route_ctx.route_mut().tour.insert_last(act);
    }
    let dep = veh["dep"].as_i64().unwrap() as f64;
    problem.goal.accept_route_state(&mut route_ctx);
    update_route_departure(&mut route_ctx, problem.activity.as_ref(), problem.transport.as_ref(), dep);
    problem.goal.accept_route_state(&mut route_ctx);
    // the start activity keeps the departure set above only if accept_route_state does not reset it
    if !tour_jobs.is_empty() {
        ctx.solution.routes.push(route_ctx);
        // NOTE `InsertionContext::new` lists every job as unassigned (unknown reason)
        ctx.solution.required.retain(|j| !tour_jobs.contains(j));
        ctx.solution.unassigned.retain(|j, _| !tour_jobs.contains(j));
        problem.goal.accept_solution_state(&mut ctx.solution);
    } else {
        // empty tour: the route stays in the registry, as for a fresh vehicle
        ctx.solution.registry.free_route(route_ctx);
    }

    EvalCase { problem, ctx, job, tour_jobs, dims }
}

/// a random source that always selects the alternative goal in `GoalContext::maybe_new`
pub struct AlwaysHit(pub DefaultRandom);

impl Random for AlwaysHit {
    fn uniform_int(&self, min: i32, max: i32) -> i32 {
        self.0.uniform_int(min, max)
    }
    fn uniform_real(&self, min: Float, max: Float) -> Float {
        self.0.uniform_real(min, max)
    }
    fn is_head_not_tails(&self) -> bool {
        self.0.is_head_not_tails()
    }
    fn is_hit(&self, _: Float) -> bool {
        true
    }
    fn weighted(&self, weights: &[usize]) -> usize {
        self.0.weighted(weights)
    }
    fn get_rng(&self) -> vrp_core::rosomaxa::utils::RandomGen {
        self.0.get_rng()
    }
}

pub struct MultiCase {
    pub problem: Arc<Problem>,
    pub ctx: InsertionContext,
    /// candidate jobs, listed in `unassigned` with an unknown reason
    pub cands: Vec<Job>,
}

fn vehicle_from(id: &str, veh: &Value, cap: &[i64], costs: &[i64]) -> Vehicle {
    let dims = cap.len();
    let mut detail = VehicleDetailBuilder::default()
        .set_start_location(veh["start"].as_u64().unwrap() as usize)
        .set_start_time(veh["earliest"].as_i64().unwrap() as f64);
    detail = match veh["latest"].as_i64() {
        Some(l) => detail.set_start_time_latest(l as f64),
        None => detail.set_start_time_latest(f64::MAX),
    };
    if let Some(end) = veh["end"].as_array() {
        detail = detail.set_end_location(end[0].as_u64().unwrap() as usize).set_end_time(end[1].as_i64().unwrap() as f64);
    }
    let mut vb = VehicleBuilder::default().id(id).add_detail(detail.build().unwrap()).set_distance_cost(costs[1] as f64).set_duration_cost(costs[2] as f64);
    vb = if dims <= 1 { vb.capacity(SingleDimLoad::new(cap[0] as i32)) } else { vb.capacity(MultiDimLoad::new(cap.iter().map(|v| *v as i32).collect())) };
    let mut vehicle = vb.build().unwrap();
    vehicle.costs.fixed = costs[0] as f64;
    vehicle
}

/// several vehicles with their tours (`routes`: [{veh, tour, cap, costs}]) and several unassigned
/// candidate jobs (`cands`); routes with an empty tour stay in the registry
pub fn build_multi_case(case: &Value, env: Arc<Environment>) -> MultiCase {
    let durations: Vec<f64> = i64s(&case["dur"]).into_iter().map(|x| x as f64).collect();
    let distances: Vec<f64> = i64s(&case["dist"]).into_iter().map(|x| x as f64).collect();
    let transport = create_matrix_transport_cost(vec![MatrixData::new(0, None, durations, distances)]).unwrap();
    let routes = case["routes"].as_array().unwrap();
    let dims = i64s(&routes[0]["cap"]).len();

    let mut jobs: Vec<Job> = vec![];
    let mut tour_jobs: Vec<Vec<Job>> = vec![];
    for (ri, r) in routes.iter().enumerate() {
        let mut tj = vec![];
        for (i, a) in r["tour"].as_array().unwrap().iter().enumerate() {
            let places = serde_json::json!([{"loc": a["loc"], "dur": a["dur"], "tws": [[a["s"], a["e"]]]}]);
            let job = Job::Single(Arc::new(single_from(&format!("r{ri}t{i}"), &places, &a["dem"], dims)));
            tj.push(job.clone());
            jobs.push(job);
        }
        tour_jobs.push(tj);
    }
    let cands: Vec<Job> = case["cands"]
        .as_array()
        .unwrap()
        .iter()
        .enumerate()
        .map(|(k, j)| match j.get("multi").and_then(|m| m.as_array()) {
            // a multi-task candidate (pickup, then delivery of the same shipment)
            Some(parts) => {
                let mut mb = MultiBuilder::default().id(&format!("x{k}"));
                for (q, part) in parts.iter().enumerate() {
                    mb = mb.add_job(single_from(&format!("x{k}p{q}"), &part["places"], &part["dem"], dims));
                }
                mb.build_as_job().unwrap()
            }
            None => Job::Single(Arc::new(single_from(&format!("x{k}"), &j["places"], &j["dem"], dims))),
        })
        .collect();
    jobs.extend(cands.iter().cloned());

    let vehicles: Vec<Vehicle> = routes
        .iter()
        .enumerate()
        .map(|(ri, r)| vehicle_from(&format!("v{ri}"), &r["veh"], &i64s(&r["cap"]), &i64s(&r["costs"])))
        .collect();
    let goal = build_goal(transport.clone(), case["obj"].as_str().unwrap_or("distance"), dims, vec![]);
    // `heuristic_goal`: the alternative goal every `GoalContextBuilder::with_features` goal carries (the `known_edge` objective
    // ranked second), as `RecreateWithGoal` / `InfeasibleSearch` / `Elitism::maybe_new` select it
    let goal = if case["heuristic_goal"].as_bool().unwrap_or(false) {
        use vrp_core::rosomaxa::population::Alternative;
        goal.maybe_new(&AlwaysHit(DefaultRandom::default()))
    } else {
        goal
    };
    let problem = Arc::new(
        ProblemBuilder::default()
            .add_jobs(jobs.into_iter())
            .add_vehicles(vehicles.into_iter())
            .with_goal(goal)
            .with_transport_cost(transport)
            .build()
            .unwrap(),
    );

    let mut ctx = InsertionContext::new(problem.clone(), env);
    for (ri, r) in routes.iter().enumerate() {
        if tour_jobs[ri].is_empty() {
            continue;
        }
        let actor = problem
            .fleet
            .actors
            .iter()
            .find(|a| a.vehicle.dimens.get_vehicle_id().map(|s| s.as_str()) == Some(format!("v{ri}").as_str()))
            .unwrap()
            .clone();
        let mut route_ctx = ctx.solution.registry.get_route(&actor).expect("route for actor");
        for (a, job) in r["tour"].as_array().unwrap().iter().zip(tour_jobs[ri].iter()) {
            let mut act = Activity::new_with_job(job.to_single().clone());
            act.place = ActPlace {
                idx: 0,
                location: a["loc"].as_u64().unwrap() as usize,
                duration: a["dur"].as_i64().unwrap() as f64,
                time: TimeWindow::new(a["s"].as_i64().unwrap() as f64, a["e"].as_i64().unwrap() as f64),
            };
            route_ctx.route_mut().tour.insert_last(act);
        }
        let dep = r["veh"]["dep"].as_i64().unwrap() as f64;
        problem.goal.accept_route_state(&mut route_ctx);
        update_route_departure(&mut route_ctx, problem.activity.as_ref(), problem.transport.as_ref(), dep);
        problem.goal.accept_route_state(&mut route_ctx);
        ctx.solution.routes.push(route_ctx);
    }
    let all_tour_jobs: Vec<Job> = tour_jobs.into_iter().flatten().collect();
    ctx.solution.required.retain(|j| !all_tour_jobs.contains(j));
    ctx.solution.unassigned.retain(|j, _| !all_tour_jobs.contains(j));
    problem.goal.accept_solution_state(&mut ctx.solution);

    MultiCase { problem, ctx, cands }
}
