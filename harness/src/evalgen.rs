//! Generator of evaluator-level cases (see `evalcase.rs` for the case format): tours feasible by
//! construction with boundary equalities, candidate single- or multi-task job.

use crate::Rng;
use crate::evalcase::i64s;
use serde_json::{Value, json};

pub fn gen_matrix(rng: &mut Rng, n: usize, max: i64, metric: bool) -> Vec<i64> {
    let mut m = vec![0i64; n * n];
    for i in 0..n {
        for j in 0..n {
            if i != j {
                m[i * n + j] = rng.range(1, max);
            }
        }
    }
    if metric {
        for k in 0..n {
            for i in 0..n {
                for j in 0..n {
                    let via = m[i * n + k] + m[k * n + j];
                    if via < m[i * n + j] {
                        m[i * n + j] = via;
                    }
                }
            }
        }
    }
    m
}

fn zero(dims: usize) -> Vec<i64> {
    vec![0; dims]
}

fn rnd_load(rng: &mut Rng, dims: usize, max: i64) -> Vec<i64> {
    let mut v: Vec<i64> = (0..dims).map(|_| rng.range(0, max)).collect();
    if v.iter().all(|x| *x == 0) {
        v[0] = 1;
    }
    v
}

/// a vehicle with a tour that is feasible by construction (windows placed around the simulated arrival,
/// capacity = max load + slack); returns (veh, tour, cap, time after the last activity)
pub fn gen_route(rng: &mut Rng, n: usize, dur: &[i64], dims: usize) -> (Value, Vec<Value>, Vec<i64>, i64) {
    let earliest = rng.range(0, 50);
    let k = rng.usize(0, 6);
    let can_shift = rng.chance(1, 3);
    let dep = if can_shift && k > 0 { earliest + rng.range(0, 20) } else { earliest };
    let latest = if can_shift { if rng.chance(1, 2) { Value::Null } else { json!(dep + rng.range(0, 30)) } } else { json!(earliest) };

    let mut tour = vec![];
    let (mut loc, mut t) = (0usize, dep);
    // pending dynamic deliveries (pickup-delivery pairs modelled as two single jobs with dynamic demand)
    let mut pending: Vec<Vec<i64>> = vec![];
    for _ in 0..k {
        let l = rng.usize(0, n - 1);
        let d = rng.range(0, 10);
        let arr = t + dur[loc * n + l];
        let s = if rng.chance(1, 3) { arr + rng.range(0, 15) } else { arr - rng.range(0, 20) }.max(0);
        let slack = *rng.pick(&[0i64, 0, 1, 3, 10, 100, 1000]);
        let e = s.max(arr) + slack;
        let dem = match rng.below(7) {
            0 => Value::Null,
            1 | 2 => json!([rnd_load(rng, dims, 3), zero(dims), zero(dims), zero(dims)]), // static pickup
            3 | 4 => json!([zero(dims), zero(dims), rnd_load(rng, dims, 3), zero(dims)]), // static delivery
            5 => {
                // dynamic: deliver a pending shipment if any, else pick one up
                if let Some(p) = pending.pop() {
                    json!([zero(dims), zero(dims), zero(dims), p])
                } else {
                    let p = rnd_load(rng, dims, 3);
                    pending.push(p.clone());
                    json!([zero(dims), p, zero(dims), zero(dims)])
                }
            }
            _ => {
                let x = rnd_load(rng, dims, 2);
                json!([x.clone(), zero(dims), x, zero(dims)]) // replacement
            }
        };
        tour.push(json!({"loc": l, "s": s, "e": e, "dur": d, "dem": dem}));
        t = arr.max(s) + d;
        loc = l;
    }
    let end = if rng.chance(1, 3) {
        Value::Null
    } else {
        let el = if rng.chance(2, 3) { 0 } else { rng.usize(0, n - 1) };
        let arr = t + dur[loc * n + el];
        json!([el, arr + *rng.pick(&[0i64, 0, 2, 5, 20, 100, 1000])])
    };

    // capacity: max load of the profile + slack
    let mut cap = vec![0i64; dims];
    {
        let dem_of = |a: &Value, i: usize| -> Vec<i64> { if a["dem"].is_null() { zero(dims) } else { i64s(&a["dem"][i]) } };
        let mut cur: Vec<i64> = zero(dims);
        for a in tour.iter() {
            let sd = dem_of(a, 2);
            for k in 0..dims {
                cur[k] += sd[k];
            }
        }
        let mut mx = cur.clone();
        for a in tour.iter() {
            let (sp, dp, sd, dd) = (dem_of(a, 0), dem_of(a, 1), dem_of(a, 2), dem_of(a, 3));
            for k in 0..dims {
                cur[k] += sp[k] + dp[k] - sd[k] - dd[k];
                mx[k] = mx[k].max(cur[k]);
            }
        }
        for k in 0..dims {
            cap[k] = mx[k] + *rng.pick(&[0i64, 0, 1, 2, 3, 5]);
        }
    }
    (json!({"start": 0, "earliest": earliest, "latest": latest, "dep": dep, "end": end}), tour, cap, t)
}

/// 1-2 places with 1-3 windows each (sorted or not) somewhere in `[0, horizon]`
pub fn gen_places(rng: &mut Rng, n: usize, horizon: i64) -> Value {
    let np = if rng.chance(1, 4) { 2 } else { 1 };
    let places: Vec<Value> = (0..np)
        .map(|_| {
            let nw = *rng.pick(&[1usize, 1, 1, 2, 3]);
            let mut tws: Vec<(i64, i64)> = (0..nw)
                .map(|_| {
                    let s = rng.range(0, horizon.max(1));
                    (s, s + *rng.pick(&[0i64, 1, 5, 20, 60, 500]))
                })
                .collect();
            if rng.chance(1, 2) {
                tws.sort();
            }
            if rng.chance(1, 5) {
                tws[0] = (0, 100000);
            }
            json!({"loc": rng.usize(0, n - 1), "dur": rng.range(0, 10), "tws": tws})
        })
        .collect();
    json!(places)
}

/// demand of a single-task candidate job; `mixed` allows the core-API-only shape (static delivery + dynamic pickup)
pub fn gen_single_dem(rng: &mut Rng, dims: usize, mixed: bool) -> Value {
    match rng.below(if mixed { 7 } else { 6 }) {
        0 => Value::Null,
        6 => json!([zero(dims), rnd_load(rng, dims, 3), rnd_load(rng, dims, 3), zero(dims)]),
        1 | 2 => json!([rnd_load(rng, dims, 3), zero(dims), zero(dims), zero(dims)]),
        3 | 4 => json!([zero(dims), zero(dims), rnd_load(rng, dims, 3), zero(dims)]),
        _ => {
            let x = rnd_load(rng, dims, 2);
            json!([x.clone(), zero(dims), x, zero(dims)])
        }
    }
}

/// one generated case; `kind` = "single" | "multi"
pub fn gen_case(rng: &mut Rng, kind: &str) -> Value {
    let n = rng.usize(3, 6);
    let metric = rng.chance(1, 2);
    let dur = gen_matrix(rng, n, 30, metric);
    let dist = if rng.chance(1, 3) { dur.clone() } else { gen_matrix(rng, n, 40, metric) };
    let dims = if rng.chance(1, 3) { 2 } else { 1 };
    let (veh, tour, cap, t) = gen_route(rng, n, &dur, dims);
    let horizon = t + 60;
    let costs = json!([rng.range(0, 20), rng.range(1, 3), rng.range(0, 2)]);
    let obj = if rng.chance(1, 2) { "cost" } else { "distance" };
    let mut case = json!({
        "k": kind, "n": n, "dur": dur, "dist": dist, "veh": veh,
        "cap": cap, "costs": costs, "obj": obj, "tour": tour,
    });
    if kind == "single" {
        case["job"] = json!({"places": gen_places(rng, n, horizon), "dem": gen_single_dem(rng, dims, true)});
    } else {
        // pickup then delivery of the same shipment (dynamic demand); every third job has THREE tasks (two pickups and the
        // delivery of both, or one pickup delivered in two parts): the sequential search then writes more than once into its
        // working copy of the tour
        let p = rnd_load(rng, dims, 3);
        let q = rnd_load(rng, dims, 2);
        let sum: Vec<i64> = p.iter().zip(q.iter()).map(|(a, b)| a + b).collect();
        case["jobs"] = match rng.below(6) {
            0 => json!([
                {"places": gen_places(rng, n, horizon), "dem": [zero(dims), p.clone(), zero(dims), zero(dims)]},
                {"places": gen_places(rng, n, horizon), "dem": [zero(dims), q.clone(), zero(dims), zero(dims)]},
                {"places": gen_places(rng, n, horizon), "dem": [zero(dims), zero(dims), zero(dims), sum]},
            ]),
            1 => json!([
                {"places": gen_places(rng, n, horizon), "dem": [zero(dims), sum, zero(dims), zero(dims)]},
                {"places": gen_places(rng, n, horizon), "dem": [zero(dims), zero(dims), zero(dims), p.clone()]},
                {"places": gen_places(rng, n, horizon), "dem": [zero(dims), zero(dims), zero(dims), q.clone()]},
            ]),
            _ => json!([
                {"places": gen_places(rng, n, horizon), "dem": [zero(dims), p.clone(), zero(dims), zero(dims)]},
                {"places": gen_places(rng, n, horizon), "dem": [zero(dims), zero(dims), zero(dims), p]},
            ]),
        };
    }
    case
}

/// several vehicles (each with its own tour, capacity, costs) over one matrix and several unassigned
/// single-task candidate jobs: the work list of `evaluate_all`
pub fn gen_multi_route_case(rng: &mut Rng, metric: bool) -> Value {
    let n = rng.usize(3, 7);
    let dur = gen_matrix(rng, n, 30, metric);
    let dist = if rng.chance(1, 3) { dur.clone() } else { gen_matrix(rng, n, 40, metric) };
    let dims = if rng.chance(1, 4) { 2 } else { 1 };
    let n_routes = rng.usize(1, 5);
    let mut routes = vec![];
    let mut horizon = 0;
    for _ in 0..n_routes {
        let (veh, tour, cap, t) = gen_route(rng, n, &dur, dims);
        horizon = horizon.max(t + 60);
        routes.push(json!({"veh": veh, "tour": tour, "cap": cap, "costs": [rng.range(0, 20), rng.range(1, 3), rng.range(0, 2)]}));
    }
    let n_jobs = rng.usize(1, 6);
    let jobs: Vec<Value> =
        (0..n_jobs).map(|_| json!({"places": gen_places(rng, n, horizon), "dem": gen_single_dem(rng, dims, false)})).collect();
    json!({"k": "evalall", "n": n, "dur": dur, "dist": dist, "obj": "distance", "routes": routes, "cands": jobs})
}

/// as `gen_multi_route_case`, with some candidates being multi-task jobs (pickup then delivery of one shipment): their
/// sequences are evaluated by `eval_multi`, whose alternatives must not leak between work items either
pub fn gen_multi_route_case_with_multi_jobs(rng: &mut Rng, metric: bool) -> Value {
    let mut case = gen_multi_route_case(rng, metric);
    let n = case["n"].as_u64().unwrap() as usize;
    let dims = case["routes"][0]["cap"].as_array().unwrap().len();
    let horizon = case["routes"].as_array().unwrap().iter().flat_map(|r| r["tour"].as_array().unwrap().iter()).map(|a| a["e"].as_i64().unwrap_or(0)).max().unwrap_or(0).min(2000) + 60;
    let extra = rng.usize(2, 5);
    let cands = case["cands"].as_array_mut().unwrap();
    for _ in 0..extra {
        let p = rnd_load(rng, dims, 2);
        cands.push(json!({"multi": [
            {"places": gen_places(rng, n, horizon), "dem": [zero(dims), p.clone(), zero(dims), zero(dims)]},
            {"places": gen_places(rng, n, horizon), "dem": [zero(dims), zero(dims), zero(dims), p]},
        ]}));
    }
    // mixed order: multi-task and single-task candidates interleaved
    rng.shuffle(cands);
    case["k"] = json!("evalall_multi");
    case
}
