//! Shared plumbing of the correspondence harness: deterministic PRNG, argument handling, case
//! execution under `catch_unwind`, JSON-lines output. Every property has its own binary under
//! `src/bin/`, structured as `gen` (seed, tier -> case inputs) and `exec` (case input -> what the
//! real code returned), so that a replay is just `exec` on a stored input.

pub mod evalcase;
pub mod evalgen;
pub mod pragen;

use serde_json::{Value, json};
use std::io::Write;
use std::panic::{AssertUnwindSafe, catch_unwind};

/// SplitMix64: every random choice of a run derives from one state seeded by VERIF_SEED.
#[derive(Clone)]
pub struct Rng(pub u64);

impl Rng {
    pub fn new(seed: u64) -> Self {
        // NOTE the state advances by the same constant the seed is multiplied with: without the mixing term the stream of
        // seed s + 1 is the stream of seed s shifted by one draw, and generators re-synchronise after a few cases (seeds 1, 2,
        // 3 gave almost the same case sets). The mixing term is 0 for seed 1, whose stream is unchanged.
        let mut z = seed.wrapping_sub(1);
        z = (z ^ (z >> 30)).wrapping_mul(0xBF58_476D_1CE4_E5B9);
        z = (z ^ (z >> 27)).wrapping_mul(0x94D0_49BB_1331_11EB);
        z ^= z >> 31;
        Rng(seed.wrapping_mul(0x9E37_79B9_7F4A_7C15).wrapping_add(0x1234_5678_9ABC_DEF1) ^ z)
    }
    /// stream for a seed that was itself drawn from another stream (stored inside cases: keeps recorded cases stable)
    pub fn derived(seed: u64) -> Self {
        Rng(seed.wrapping_mul(0x9E37_79B9_7F4A_7C15).wrapping_add(0x1234_5678_9ABC_DEF1))
    }
    pub fn next(&mut self) -> u64 {
        self.0 = self.0.wrapping_add(0x9E37_79B9_7F4A_7C15);
        let mut z = self.0;
        z = (z ^ (z >> 30)).wrapping_mul(0xBF58_476D_1CE4_E5B9);
        z = (z ^ (z >> 27)).wrapping_mul(0x94D0_49BB_1331_11EB);
        z ^ (z >> 31)
    }
    /// uniform in [0, n)
    pub fn below(&mut self, n: u64) -> u64 {
        if n == 0 { 0 } else { self.next() % n }
    }
    /// uniform in [lo, hi] (inclusive)
    pub fn range(&mut self, lo: i64, hi: i64) -> i64 {
        lo + self.below((hi - lo + 1) as u64) as i64
    }
    pub fn usize(&mut self, lo: usize, hi: usize) -> usize {
        self.range(lo as i64, hi as i64) as usize
    }
    pub fn chance(&mut self, num: u64, den: u64) -> bool {
        self.below(den) < num
    }
    pub fn pick<'a, T>(&mut self, xs: &'a [T]) -> &'a T {
        &xs[self.below(xs.len() as u64) as usize]
    }
    pub fn shuffle<T>(&mut self, xs: &mut [T]) {
        for i in (1..xs.len()).rev() {
            let j = self.below(i as u64 + 1) as usize;
            xs.swap(i, j);
        }
    }
    pub fn fork(&mut self) -> Rng {
        Rng(self.next())
    }
}

#[derive(Clone, Copy, PartialEq, Eq, Debug)]
pub enum Tier {
    Quick,
    Thorough,
}

pub struct Args {
    pub seed: u64,
    pub tier: Tier,
    pub out: Option<String>,
    pub replay: Option<String>,
    pub corpus: Vec<String>,
    pub extra: Vec<String>,
}

pub fn parse_args() -> Args {
    let mut args = Args { seed: 1, tier: Tier::Quick, out: None, replay: None, corpus: vec![], extra: vec![] };
    let mut it = std::env::args().skip(1);
    while let Some(a) = it.next() {
        match a.as_str() {
            "--seed" => args.seed = it.next().and_then(|s| s.parse().ok()).unwrap_or(1),
            "--tier" => {
                args.tier = if it.next().as_deref() == Some("thorough") { Tier::Thorough } else { Tier::Quick }
            }
            "--out" => args.out = it.next(),
            "--replay" => args.replay = it.next(),
            "--corpus" => {
                if let Some(p) = it.next() {
                    args.corpus.push(p)
                }
            }
            other => args.extra.push(other.to_string()),
        }
    }
    args
}

/// Silences the default panic message (panics are caught per case and reported in the case output).
pub fn quiet_panics() {
    std::panic::set_hook(Box::new(|info| {
        // keep the last panic (message and source location) so that a replay names what failed
        let msg = info
            .payload()
            .downcast_ref::<String>()
            .cloned()
            .or_else(|| info.payload().downcast_ref::<&str>().map(|s| s.to_string()))
            .unwrap_or_else(|| "non-string panic".to_string());
        let loc = info.location().map(|l| format!("{}:{}", l.file(), l.line())).unwrap_or_default();
        if let Ok(mut last) = LAST_PANIC.lock() {
            *last = format!("{msg} at {loc}");
        }
        // development aid: VERIF_BT=1 prints the backtrace of every panic
        if std::env::var("VERIF_BT").is_ok() {
            eprintln!("PANIC {msg} at {loc}\n{}", std::backtrace::Backtrace::force_capture());
        }
    }));
}

static LAST_PANIC: std::sync::Mutex<String> = std::sync::Mutex::new(String::new());

/// message and location of the most recent panic of the process (any thread)
pub fn last_panic() -> String {
    LAST_PANIC.lock().map(|s| s.clone()).unwrap_or_default()
}

/// Runs `exec` on one case input; a panic of the real code becomes `{"panic": "<message>"}`.
pub fn exec_caught<F: Fn(&Value) -> Value>(exec: &F, input: &Value) -> Value {
    match catch_unwind(AssertUnwindSafe(|| exec(input))) {
        Ok(v) => v,
        Err(e) => {
            let msg = e
                .downcast_ref::<String>()
                .cloned()
                .or_else(|| e.downcast_ref::<&str>().map(|s| s.to_string()))
                .unwrap_or_else(|| "non-string panic".to_string());
            json!({ "panic": msg })
        }
    }
}

/// Standard main: corpus cases first, then generated ones; or a single replay.
/// `gen_cases` returns case inputs (objects without "id"/"impl"); `exec` runs the real code.
pub fn run_main<G, F>(gen_cases: G, exec: F)
where
    G: Fn(&mut Rng, Tier) -> Vec<Value>,
    F: Fn(&Value) -> Value,
{
    quiet_panics();
    let args = parse_args();
    let out: Box<dyn Write + Send> = match &args.out {
        Some(p) => Box::new(std::io::BufWriter::new(std::fs::File::create(p).expect("cannot create out file"))),
        None => Box::new(std::io::BufWriter::new(std::io::stdout())),
    };

    let mut inputs: Vec<Value> = vec![];
    if let Some(path) = &args.replay {
        let text = std::fs::read_to_string(path).expect("cannot read replay file");
        let v: Value = serde_json::from_str(&text).expect("replay file is not JSON");
        // a replay file is either a bare case or {"case": {...}, ...}
        let case = v.get("case").cloned().unwrap_or(v);
        inputs.push(case);
    } else {
        for path in &args.corpus {
            if let Ok(text) = std::fs::read_to_string(path) {
                for line in text.lines().filter(|l| !l.trim().is_empty()) {
                    if let Ok(mut v) = serde_json::from_str::<Value>(line) {
                        v["corpus"] = json!(true);
                        inputs.push(v);
                    }
                }
            }
        }
        let mut rng = Rng::new(args.seed);
        inputs.extend(gen_cases(&mut rng, args.tier));
    }

    // watchdog: a case that does not finish within the limit (non-termination of the real code) is written with
    // `impl.panic`, the output is flushed and the process ends - the cases after it are not run, the one that hangs is the
    // replay. Cases run on the main thread as before; the limit is far above what any case needs (seconds)
    let limit = std::env::var("VERIF_CASE_TIMEOUT_S").ok().and_then(|v| v.parse::<u64>().ok()).unwrap_or(900);
    let out = std::sync::Arc::new(std::sync::Mutex::new(out));
    let current: std::sync::Arc<std::sync::Mutex<Option<(std::time::Instant, Value)>>> = Default::default();
    {
        let (out, current) = (out.clone(), current.clone());
        std::thread::spawn(move || {
            loop {
                std::thread::sleep(std::time::Duration::from_millis(500));
                let overdue = current.lock().unwrap().as_ref().filter(|(t, _)| t.elapsed().as_secs() >= limit).map(|(_, c)| c.clone());
                if let Some(mut case) = overdue {
                    let mut out = out.lock().unwrap();
                    case["impl"] = json!({"panic": format!("the case did not finish within {limit} s (non-termination?)")});
                    let _ = writeln!(out, "{}", serde_json::to_string(&case).unwrap());
                    let _ = out.flush();
                    eprintln!("[harness] case {} did not finish within {limit} s: stopping", case["id"]);
                    std::process::exit(0);
                }
            }
        });
    }

    for (idx, mut case) in inputs.into_iter().enumerate() {
        if let Some(obj) = case.as_object_mut() {
            obj.remove("impl");
            obj.remove("id");
        }
        {
            let mut pending = case.clone();
            pending["id"] = json!(idx);
            *current.lock().unwrap() = Some((std::time::Instant::now(), pending));
        }
        let impl_out = exec_caught(&exec, &case);
        *current.lock().unwrap() = None;
        case["id"] = json!(idx);
        case["impl"] = impl_out;
        writeln!(out.lock().unwrap(), "{}", serde_json::to_string(&case).unwrap()).unwrap();
    }
    out.lock().unwrap().flush().unwrap();
}

/// Runs a closure on a fresh OS thread inside a fresh single-thread rayon pool: the repository's
/// repeatable RNG is thread-local, so this makes a solver-level case reproducible.
pub fn isolated<T: Send + 'static, F: FnOnce() -> T + Send + 'static>(threads: usize, f: F) -> std::thread::Result<T> {
    std::thread::Builder::new()
        .stack_size(64 * 1024 * 1024)
        .spawn(move || {
            let pool = rayon::ThreadPoolBuilder::new().num_threads(threads).build().unwrap();
            pool.install(f)
        })
        .unwrap()
        .join()
}

pub fn ord_to_i(o: std::cmp::Ordering) -> i64 {
    match o {
        std::cmp::Ordering::Less => -1,
        std::cmp::Ordering::Equal => 0,
        std::cmp::Ordering::Greater => 1,
    }
}
