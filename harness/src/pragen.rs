//! Generator of pragmatic problems in a *simplified integer form* (`SProblem`) that is rendered to the
//! pragmatic JSON for the real reader/solver and sent as-is to the Lean side; solver runner; conversion
//! of the pragmatic solution JSON to integer form.
//!
//! All times are integer seconds since 1970-01-01T00:00:00Z (kept below 31 days), all matrix entries,
//! durations, demands and cost coefficients are integers, so every quantity the solver reports is an
//! integer that `f64` represents exactly.

use crate::Rng;
use serde::{Deserialize, Serialize};
use serde_json::{Value, json};
use std::io::BufWriter;
use std::sync::Arc;
use vrp_core::models::Problem as CoreProblem;
use vrp_core::models::Solution as CoreSolution;
use vrp_core::prelude::*;
use vrp_core::rosomaxa::evolution::TelemetryMode;
use vrp_pragmatic::format::problem::PragmaticProblem;
use vrp_pragmatic::format::solution::{PragmaticOutputType, write_pragmatic};

#[derive(Serialize, Deserialize, Clone, Debug, Default)]
pub struct SProfile {
    pub name: String,
    pub dur: Vec<i64>,
    pub dist: Vec<i64>,
    /// `errorCodes` of the routing matrix (empty = none): an entry > 0 marks the pair as unreachable
    #[serde(default)]
    pub errors: Vec<i64>,
}

#[derive(Serialize, Deserialize, Clone, Debug, Default)]
pub struct SPlace {
    pub loc: usize,
    pub dur: i64,
    /// empty = no time restriction
    pub tws: Vec<(i64, i64)>,
    pub tag: Option<String>,
    /// shared reload resource (reload places only)
    #[serde(default)]
    pub resource: Option<String>,
}

#[derive(Serialize, Deserialize, Clone, Debug, Default)]
pub struct STask {
    /// pickup | delivery | service | replacement
    pub kind: String,
    pub places: Vec<SPlace>,
    /// empty = no demand
    pub demand: Vec<i64>,
    pub order: Option<i64>,
}

#[derive(Serialize, Deserialize, Clone, Debug, Default)]
pub struct SJob {
    pub id: String,
    pub tasks: Vec<STask>,
    pub skills_all: Vec<String>,
    pub skills_one: Vec<String>,
    pub skills_none: Vec<String>,
    pub group: Option<String>,
    pub compat: Option<String>,
    pub value: Option<i64>,
}

#[derive(Serialize, Deserialize, Clone, Debug, Default)]
pub struct SBreakPlace {
    pub dur: i64,
    pub loc: Option<usize>,
    pub tag: Option<String>,
}

/// optional break only (required breaks produce transit stops, outside the proof-backed stream)
#[derive(Serialize, Deserialize, Clone, Debug, Default)]
pub struct SBreak {
    /// true: `time` is an offset range from departure; false: absolute window
    pub offset: bool,
    pub time: (i64, i64),
    pub places: Vec<SBreakPlace>,
    /// none | skip-if-no-intersection | skip-if-arrival-before-end
    pub policy: Option<String>,
}

#[derive(Serialize, Deserialize, Clone, Debug, Default)]
pub struct SShiftEnd {
    pub earliest: Option<i64>,
    pub latest: i64,
    pub loc: usize,
}

#[derive(Serialize, Deserialize, Clone, Debug, Default)]
pub struct SShift {
    pub start_earliest: i64,
    pub start_latest: Option<i64>,
    pub start_loc: usize,
    pub end: Option<SShiftEnd>,
    pub breaks: Vec<SBreak>,
    pub reloads: Vec<SPlace>,
}

#[derive(Serialize, Deserialize, Clone, Debug, Default)]
pub struct SVehicleType {
    pub type_id: String,
    pub ids: Vec<String>,
    /// index into SProblem.profiles
    pub profile: usize,
    /// duration scale as a fraction (num, den), den a power of two
    pub scale: Option<(i64, i64)>,
    pub fixed: i64,
    pub cd: i64,
    pub ct: i64,
    pub shifts: Vec<SShift>,
    pub capacity: Vec<i64>,
    pub skills: Vec<String>,
    pub max_distance: Option<i64>,
    pub max_duration: Option<i64>,
    pub tour_size: Option<usize>,
}

#[derive(Serialize, Deserialize, Clone, Debug, Default)]
pub struct SRelation {
    /// any | sequence | strict
    pub kind: String,
    pub jobs: Vec<String>,
    pub vehicle_id: String,
    pub shift_index: Option<usize>,
}

#[derive(Serialize, Deserialize, Clone, Debug, Default)]
pub struct SProblem {
    /// number of locations (index locations 0..n)
    pub n: usize,
    pub profiles: Vec<SProfile>,
    pub jobs: Vec<SJob>,
    pub vehicles: Vec<SVehicleType>,
    pub relations: Vec<SRelation>,
    /// pragmatic objectives (raw JSON, list of objective objects); empty = reader default
    pub objectives: Vec<Value>,
    /// `plan.clustering` (raw JSON) or nothing
    #[serde(default)]
    pub clustering: Option<Value>,
    /// shared reload resources: (id, capacity)
    #[serde(default)]
    pub resources: Vec<(String, Vec<i64>)>,
}

/// seconds since epoch -> RFC3339 (January 1970 only)
pub fn ts(t: i64) -> String {
    assert!((0..31 * 86400).contains(&t), "time out of the supported range: {t}");
    let (d, r) = (t / 86400, t % 86400);
    format!("1970-01-{:02}T{:02}:{:02}:{:02}Z", d + 1, r / 3600, (r % 3600) / 60, r % 60)
}

/// RFC3339 (January 1970, Z) -> seconds since epoch
pub fn parse_ts(s: &str) -> Option<i64> {
    let b = s.as_bytes();
    if b.len() != 20 || &s[0..8] != "1970-01-" || b[10] != b'T' || b[19] != b'Z' {
        return None;
    }
    let num = |a: usize, z: usize| s[a..z].parse::<i64>().ok();
    Some((num(8, 10)? - 1) * 86400 + num(11, 13)? * 3600 + num(14, 16)? * 60 + num(17, 19)?)
}

fn tws_json(tws: &[(i64, i64)]) -> Value {
    json!(tws.iter().map(|(s, e)| vec![ts(*s), ts(*e)]).collect::<Vec<_>>())
}

fn place_json(p: &SPlace) -> Value {
    let mut v = json!({"location": {"index": p.loc}, "duration": p.dur as f64});
    if !p.tws.is_empty() {
        v["times"] = tws_json(&p.tws);
    }
    if let Some(tag) = &p.tag {
        v["tag"] = json!(tag);
    }
    if let Some(resource) = &p.resource {
        v["resourceId"] = json!(resource);
    }
    v
}

impl SProblem {
    /// renders the pragmatic problem document and its routing matrices
    pub fn to_pragmatic(&self) -> (Value, Vec<Value>) {
        let jobs: Vec<Value> = self
            .jobs
            .iter()
            .map(|j| {
                let mut v = json!({"id": j.id});
                for (kind, field) in
                    [("pickup", "pickups"), ("delivery", "deliveries"), ("service", "services"), ("replacement", "replacements")]
                {
                    let tasks: Vec<Value> = j
                        .tasks
                        .iter()
                        .filter(|t| t.kind == kind)
                        .map(|t| {
                            let mut tv = json!({"places": t.places.iter().map(place_json).collect::<Vec<_>>()});
                            if !t.demand.is_empty() {
                                tv["demand"] = json!(t.demand);
                            }
                            if let Some(o) = t.order {
                                tv["order"] = json!(o);
                            }
                            tv
                        })
                        .collect();
                    if !tasks.is_empty() {
                        v[field] = json!(tasks);
                    }
                }
                if !(j.skills_all.is_empty() && j.skills_one.is_empty() && j.skills_none.is_empty()) {
                    let mut s = json!({});
                    if !j.skills_all.is_empty() {
                        s["allOf"] = json!(j.skills_all);
                    }
                    if !j.skills_one.is_empty() {
                        s["oneOf"] = json!(j.skills_one);
                    }
                    if !j.skills_none.is_empty() {
                        s["noneOf"] = json!(j.skills_none);
                    }
                    v["skills"] = s;
                }
                if let Some(g) = &j.group {
                    v["group"] = json!(g);
                }
                if let Some(c) = &j.compat {
                    v["compatibility"] = json!(c);
                }
                if let Some(val) = j.value {
                    v["value"] = json!(val as f64);
                }
                v
            })
            .collect();

        let vehicles: Vec<Value> = self
            .vehicles
            .iter()
            .map(|vt| {
                let shifts: Vec<Value> = vt
                    .shifts
                    .iter()
                    .map(|s| {
                        let mut start = json!({"earliest": ts(s.start_earliest), "location": {"index": s.start_loc}});
                        if let Some(l) = s.start_latest {
                            start["latest"] = json!(ts(l));
                        }
                        let mut sv = json!({"start": start});
                        if let Some(e) = &s.end {
                            let mut end = json!({"latest": ts(e.latest), "location": {"index": e.loc}});
                            if let Some(ee) = e.earliest {
                                end["earliest"] = json!(ts(ee));
                            }
                            sv["end"] = end;
                        }
                        if !s.breaks.is_empty() {
                            sv["breaks"] = json!(
                                s.breaks
                                    .iter()
                                    .map(|b| {
                                        let time = if b.offset {
                                            json!([b.time.0 as f64, b.time.1 as f64])
                                        } else {
                                            json!([ts(b.time.0), ts(b.time.1)])
                                        };
                                        let places: Vec<Value> = b
                                            .places
                                            .iter()
                                            .map(|p| {
                                                let mut pv = json!({"duration": p.dur as f64});
                                                if let Some(l) = p.loc {
                                                    pv["location"] = json!({"index": l});
                                                }
                                                if let Some(t) = &p.tag {
                                                    pv["tag"] = json!(t);
                                                }
                                                pv
                                            })
                                            .collect();
                                        let mut bv = json!({"time": time, "places": places});
                                        if let Some(p) = &b.policy {
                                            bv["policy"] = json!(p);
                                        }
                                        bv
                                    })
                                    .collect::<Vec<_>>()
                            );
                        }
                        if !s.reloads.is_empty() {
                            sv["reloads"] = json!(s.reloads.iter().map(place_json).collect::<Vec<_>>());
                        }
                        sv
                    })
                    .collect();
                let mut profile = json!({"matrix": self.profiles[vt.profile].name});
                if let Some((n, d)) = vt.scale {
                    profile["scale"] = json!(n as f64 / d as f64);
                }
                let mut v = json!({
                    "typeId": vt.type_id, "vehicleIds": vt.ids, "profile": profile,
                    "costs": {"fixed": vt.fixed as f64, "distance": vt.cd as f64, "time": vt.ct as f64},
                    "shifts": shifts, "capacity": vt.capacity,
                });
                if !vt.skills.is_empty() {
                    v["skills"] = json!(vt.skills);
                }
                if vt.max_distance.is_some() || vt.max_duration.is_some() || vt.tour_size.is_some() {
                    let mut l = json!({});
                    if let Some(x) = vt.max_distance {
                        l["maxDistance"] = json!(x as f64);
                    }
                    if let Some(x) = vt.max_duration {
                        l["maxDuration"] = json!(x as f64);
                    }
                    if let Some(x) = vt.tour_size {
                        l["tourSize"] = json!(x);
                    }
                    v["limits"] = l;
                }
                v
            })
            .collect();

        let mut plan = json!({"jobs": jobs});
        if !self.relations.is_empty() {
            plan["relations"] = json!(
                self.relations
                    .iter()
                    .map(|r| {
                        let mut v = json!({"type": r.kind, "jobs": r.jobs, "vehicleId": r.vehicle_id});
                        if let Some(s) = r.shift_index {
                            v["shiftIndex"] = json!(s);
                        }
                        v
                    })
                    .collect::<Vec<_>>()
            );
        }
        if let Some(clustering) = &self.clustering {
            plan["clustering"] = clustering.clone();
        }
        let mut problem = json!({
            "plan": plan,
            "fleet": {"vehicles": vehicles, "profiles": self.profiles.iter().map(|p| json!({"name": p.name})).collect::<Vec<_>>()},
        });
        if !self.resources.is_empty() {
            problem["fleet"]["resources"] =
                json!(self.resources.iter().map(|(id, cap)| json!({"type": "reload", "id": id, "capacity": cap})).collect::<Vec<_>>());
        }
        if !self.objectives.is_empty() {
            problem["objectives"] = json!(self.objectives);
        }
        let matrices = self
            .profiles
            .iter()
            .map(|p| {
                let mut m = json!({"profile": p.name, "travelTimes": p.dur, "distances": p.dist});
                if !p.errors.is_empty() {
                    m["errorCodes"] = json!(p.errors);
                }
                m
            })
            .collect();
        (problem, matrices)
    }

    /// reads the problem through the real pragmatic reader
    pub fn read(&self) -> Result<Arc<CoreProblem>, Vec<String>> {
        let (p, ms) = self.to_pragmatic();
        read_pragmatic_json(&p, &ms)
    }
}

pub fn read_pragmatic_json(problem: &Value, matrices: &[Value]) -> Result<Arc<CoreProblem>, Vec<String>> {
    let p = serde_json::to_string(problem).unwrap();
    let ms: Vec<String> = matrices.iter().map(|m| serde_json::to_string(m).unwrap()).collect();
    (p, ms).read_pragmatic().map(Arc::new).map_err(|e| e.errors.iter().map(|e| e.code.clone()).collect())
}

// ---------------------------------------------------------------------------------------------------
// generation

#[derive(Clone, Debug)]
pub struct GenCfg {
    pub jobs: (usize, usize),
    pub types: (usize, usize),
    pub vehicles_per_type: (usize, usize),
    /// metric matrices (closed under shortest paths): the triangle inequality holds
    pub metric: bool,
    pub asymmetric: bool,
    pub two_profiles: bool,
    pub multi_dim: bool,
    pub multi_jobs: bool,
    pub time_windows: bool,
    pub skills: bool,
    pub groups: bool,
    pub compat: bool,
    pub order: bool,
    pub limits: bool,
    pub reloads: bool,
    pub breaks: bool,
    pub tags: bool,
    pub values: bool,
    pub open_shifts: bool,
    pub multi_shift: bool,
    pub scale: bool,
    pub alt_places: bool,
    /// reloads draw on a shared resource of limited capacity
    pub shared_resources: bool,
}

impl GenCfg {
    pub fn basic() -> Self {
        GenCfg {
            jobs: (4, 14),
            types: (1, 3),
            vehicles_per_type: (1, 3),
            metric: true,
            asymmetric: true,
            two_profiles: false,
            multi_dim: false,
            multi_jobs: false,
            time_windows: true,
            skills: false,
            groups: false,
            compat: false,
            order: false,
            limits: false,
            reloads: false,
            breaks: false,
            tags: false,
            values: false,
            open_shifts: true,
            multi_shift: false,
            scale: false,
            alt_places: false,
            shared_resources: false,
        }
    }

    /// random feature mix for campaign runs
    pub fn random(rng: &mut Rng) -> Self {
        let mut c = Self::basic();
        c.two_profiles = rng.chance(1, 4);
        c.multi_dim = rng.chance(1, 3);
        c.multi_jobs = rng.chance(1, 2);
        c.skills = rng.chance(1, 3);
        c.groups = rng.chance(1, 5);
        c.compat = rng.chance(1, 5);
        c.order = rng.chance(1, 5);
        c.limits = rng.chance(1, 3);
        c.reloads = rng.chance(1, 4);
        c.breaks = rng.chance(1, 5);
        c.tags = rng.chance(1, 2);
        c.values = rng.chance(1, 6);
        c.multi_shift = rng.chance(1, 6);
        c.scale = rng.chance(1, 5);
        c.alt_places = rng.chance(1, 4);
        c.shared_resources = c.reloads && rng.chance(1, 2);
        // multi-task jobs and alternative places are only identifiable in a solution through tags
        c.tags = c.tags || c.multi_jobs || c.alt_places;
        c
    }
}

impl GenCfg {
    /// few vehicles, many jobs, nothing that keeps tours short: tours of 30+ activities (leg sampling of the insertion
    /// heuristic only starts at such sizes), a third of the jobs pickup-and-delivery
    pub fn long_tours() -> Self {
        let mut c = Self::basic();
        c.jobs = (30, 44);
        c.types = (1, 1);
        c.vehicles_per_type = (1, 2);
        c.multi_jobs = true;
        c.reloads = true;
        c.time_windows = false;
        c.tags = true;
        c
    }
}

/// random integer matrix over `n` points; metric ones are closed under shortest paths
pub fn gen_matrix(rng: &mut Rng, n: usize, metric: bool, asymmetric: bool, max: i64) -> Vec<i64> {
    let mut m = vec![0i64; n * n];
    // points on a grid give a plausible geometry; noise makes it asymmetric
    let pts: Vec<(i64, i64)> = (0..n).map(|_| (rng.range(0, max), rng.range(0, max))).collect();
    for i in 0..n {
        for j in 0..n {
            if i != j {
                let base = (pts[i].0 - pts[j].0).abs() + (pts[i].1 - pts[j].1).abs();
                let noise = if asymmetric { rng.range(0, max / 4 + 1) } else { 0 };
                m[i * n + j] = (base + noise).max(1);
            }
        }
    }
    if !asymmetric {
        for i in 0..n {
            for j in 0..i {
                m[i * n + j] = m[j * n + i];
            }
        }
    }
    if metric {
        for k in 0..n {
            for i in 0..n {
                for j in 0..n {
                    let via = m[i * n + k] + m[k * n + j];
                    if via < m[i * n + j] {
                        m[i * n + j] = via;
                    }
                }
            }
        }
    } else {
        // break the triangle inequality on purpose on a few entries
        for _ in 0..n {
            let (i, j) = (rng.usize(0, n - 1), rng.usize(0, n - 1));
            if i != j {
                m[i * n + j] *= rng.range(2, 5);
            }
        }
    }
    m
}

const SKILLS: &[&str] = &["fridge", "lift", "crane"];

pub fn gen_problem(rng: &mut Rng, cfg: &GenCfg) -> SProblem {
    let n_jobs = rng.usize(cfg.jobs.0, cfg.jobs.1);
    let n_depots = rng.usize(1, 2);
    // locations: depots first, then up to one per job place (shared locations are likely)
    let n_locs = n_depots + rng.usize((n_jobs / 2).max(1), n_jobs + 1);
    let horizon: i64 = 2000;
    let dims = if cfg.multi_dim { 2 } else { 1 };


    let gen_tws = |rng: &mut Rng| -> Vec<(i64, i64)> {
        if !cfg.time_windows || rng.chance(1, 3) {
            return vec![];
        }
        let k = if rng.chance(1, 4) { 2 } else { 1 };
        let mut tws = vec![];
        let mut t = rng.range(0, horizon / 2);
        for _ in 0..k {
            let len = rng.range(20, horizon / 2);
            tws.push((t, t + len));
            t += len + rng.range(10, 200);
        }
        tws
    };
    let gen_place = |rng: &mut Rng, tag: Option<String>| -> SPlace {
        // one place in ten lies at a depot: such a job can be served inside the departure (or arrival) stop
        let lo = if rng.chance(1, 10) { 0 } else { n_depots.min(n_locs - 1) };
        SPlace { loc: rng.usize(lo, n_locs - 1), dur: rng.range(0, 30), tws: gen_tws(rng), tag, resource: None }
    };
    let gen_demand = |rng: &mut Rng| -> Vec<i64> { (0..dims).map(|_| rng.range(0, 4)).collect() };

    let mut jobs = vec![];
    for i in 0..n_jobs {
        let id = format!("job{i}");
        let mut tasks = vec![];
        let multi = cfg.multi_jobs && rng.chance(1, 3);
        if multi {
            // pickup(s) and delivery(ies) with balanced demand
            let d = {
                let mut d = gen_demand(rng);
                d[0] = d[0].max(1);
                d
            };
            let two_pickups = rng.chance(1, 4);
            if two_pickups {
                let d1: Vec<i64> = d.iter().map(|x| x / 2).collect();
                let d2: Vec<i64> = d.iter().zip(d1.iter()).map(|(a, b)| a - b).collect();
                for (k, dd) in [d1, d2].into_iter().enumerate() {
                    let tag = cfg.tags.then(|| format!("p{k}"));
                    tasks.push(STask { kind: "pickup".into(), places: vec![gen_place(rng, tag)], demand: dd, order: None });
                }
            } else {
                let tag = cfg.tags.then(|| "p0".to_string());
                tasks.push(STask { kind: "pickup".into(), places: vec![gen_place(rng, tag)], demand: d.clone(), order: None });
            }
            let tag = cfg.tags.then(|| "d0".to_string());
            tasks.push(STask { kind: "delivery".into(), places: vec![gen_place(rng, tag)], demand: d, order: None });
        } else {
            let kind = *rng.pick(&["delivery", "delivery", "pickup", "service"]);
            let mut places = vec![gen_place(rng, cfg.tags.then(|| "a".to_string()))];
            if cfg.alt_places && rng.chance(1, 3) {
                places.push(gen_place(rng, cfg.tags.then(|| "b".to_string())));
                // partly tagged alternatives (told apart by their locations): the tag index must be the place index
                if places[0].loc != places[1].loc && rng.chance(1, 6) {
                    // tags are free text: two places of one task may carry the same one (told apart by location)
                    places[0].tag = Some("same".to_string());
                    places[1].tag = Some("same".to_string());
                } else if places[0].loc != places[1].loc && rng.chance(1, 2) {
                    if rng.chance(1, 2) {
                        places[0].tag = None;
                        places[1].tag = Some("b".to_string());
                    } else {
                        places[0].tag = Some("a".to_string());
                        places[1].tag = None;
                    }
                }
            }
            let demand = if kind == "service" { vec![] } else { gen_demand(rng) };
            let order = (cfg.order && rng.chance(1, 2)).then(|| rng.range(1, 3));
            tasks.push(STask { kind: kind.into(), places, demand, order });
        }
        let mut job = SJob { id, tasks, ..SJob::default() };
        if cfg.skills && rng.chance(1, 3) {
            match rng.below(3) {
                0 => job.skills_all = vec![rng.pick(SKILLS).to_string()],
                1 => job.skills_one = vec![rng.pick(SKILLS).to_string(), rng.pick(SKILLS).to_string()],
                _ => job.skills_none = vec![rng.pick(SKILLS).to_string()],
            }
        }
        if cfg.groups && rng.chance(1, 3) {
            job.group = Some(format!("g{}", rng.below(2)));
        }
        if cfg.compat && rng.chance(1, 3) {
            job.compat = Some(format!("c{}", rng.below(2)));
        }
        if cfg.values && rng.chance(1, 2) {
            job.value = Some(rng.range(1, 9));
        }
        jobs.push(job);
    }

    let n_types = rng.usize(cfg.types.0, cfg.types.1);
    let mut vehicles = vec![];
    for t in 0..n_types {
        let k = rng.usize(cfg.vehicles_per_type.0, cfg.vehicles_per_type.1);
        let depot = rng.usize(0, n_depots - 1);
        let n_shifts = if cfg.multi_shift && rng.chance(1, 2) { 2 } else { 1 };
        let mut shifts = vec![];
        for s in 0..n_shifts {
            let base = s as i64 * (horizon + 500);
            let start_earliest = base + rng.range(0, 100);
            let start_latest = match rng.below(3) {
                0 => None,
                1 => Some(start_earliest),
                _ => Some(start_earliest + rng.range(0, 300)),
            };
            let end = if cfg.open_shifts && rng.chance(1, 3) {
                None
            } else {
                let latest = base + rng.range(horizon / 2, horizon + 400);
                Some(SShiftEnd {
                    // one closed shift in five may not end before a given time (the vehicle waits at its end location)
                    earliest: rng.chance(1, 5).then(|| rng.range(start_earliest, latest)),
                    latest,
                    loc: if rng.chance(3, 4) { depot } else { rng.usize(0, n_depots - 1) },
                })
            };
            let mut breaks = vec![];
            if cfg.breaks && rng.chance(1, 2) {
                let offset = rng.chance(1, 2) && start_latest == Some(start_earliest);
                let s0 = rng.range(100, 600);
                let time = if offset { (s0, s0 + rng.range(50, 400)) } else { (base + s0, base + s0 + rng.range(50, 400)) };
                breaks.push(SBreak {
                    offset,
                    time,
                    places: vec![SBreakPlace {
                        dur: rng.range(5, 40),
                        loc: rng.chance(1, 3).then(|| rng.usize(0, n_locs - 1)),
                        tag: cfg.tags.then(|| "brk".to_string()),
                    }],
                    policy: match rng.below(3) {
                        0 => None,
                        1 => Some("skip-if-no-intersection".into()),
                        _ => Some("skip-if-arrival-before-end".into()),
                    },
                });
            }
            let mut reloads = vec![];
            if cfg.reloads && rng.chance(2, 3) {
                for k in 0..rng.usize(1, 2) {
                    reloads.push(SPlace {
                        loc: depot,
                        dur: rng.range(0, 20),
                        tws: vec![],
                        // with shared resources the reload places are told apart by their tags
                        tag: (cfg.tags || cfg.shared_resources).then(|| if cfg.shared_resources { format!("rl{k}") } else { "rl".to_string() }),
                        resource: (cfg.shared_resources && rng.chance(2, 3)).then(|| "res0".to_string()),
                    });
                }
            }
            shifts.push(SShift { start_earliest, start_latest, start_loc: depot, end, breaks, reloads });
        }
        let cap_base = if cfg.reloads { rng.range(3, 8) } else { rng.range(4, 16) };
        vehicles.push(SVehicleType {
            type_id: format!("type{t}"),
            ids: (0..k).map(|i| format!("v{t}_{i}")).collect(),
            profile: if cfg.two_profiles { rng.usize(0, 1) } else { 0 },
            scale: (cfg.scale && rng.chance(1, 2)).then(|| (*rng.pick(&[1i64, 3, 5, 2]), *rng.pick(&[2i64, 4, 1]))),
            fixed: rng.range(0, 50),
            cd: rng.range(1, 3),
            ct: rng.range(0, 3),
            shifts,
            capacity: (0..dims).map(|_| cap_base + rng.range(0, 2)).collect(),
            skills: if cfg.skills { SKILLS.iter().filter(|_| rng.chance(1, 2)).map(|s| s.to_string()).collect() } else { vec![] },
            max_distance: (cfg.limits && rng.chance(1, 3)).then(|| rng.range(150, 600)),
            max_duration: (cfg.limits && rng.chance(1, 3)).then(|| rng.range(300, 1500)),
            tour_size: (cfg.limits && rng.chance(1, 3)).then(|| rng.usize(2, 6)),
        });
    }

    // the reader requires max used location index + 1 == matrix size (E1504)
    let mut max_loc = 0;
    for j in jobs.iter() {
        for t in j.tasks.iter() {
            for p in t.places.iter() {
                max_loc = max_loc.max(p.loc);
            }
        }
    }
    for v in vehicles.iter() {
        for s in v.shifts.iter() {
            max_loc = max_loc.max(s.start_loc).max(s.end.as_ref().map_or(0, |e| e.loc));
            for b in s.breaks.iter() {
                for p in b.places.iter() {
                    max_loc = max_loc.max(p.loc.unwrap_or(0));
                }
            }
            for r in s.reloads.iter() {
                max_loc = max_loc.max(r.loc);
            }
        }
    }
    let n_locs = max_loc + 1;
    let mut profiles = vec![SProfile {
        name: "car".into(),
        dur: gen_matrix(rng, n_locs, cfg.metric, cfg.asymmetric, 60),
        dist: vec![],
        errors: vec![],
    }];
    profiles[0].dist = if rng.chance(1, 2) { profiles[0].dur.clone() } else { gen_matrix(rng, n_locs, cfg.metric, cfg.asymmetric, 80) };
    if cfg.two_profiles {
        let dur = gen_matrix(rng, n_locs, cfg.metric, cfg.asymmetric, 90);
        let dist = gen_matrix(rng, n_locs, cfg.metric, cfg.asymmetric, 70);
        profiles.push(SProfile { name: "truck".into(), dur, dist, errors: vec![] });
    }

    // keep scaled durations integral: a profile used with a fractional scale gets durations that are multiples of 4
    for (pi, profile) in profiles.iter_mut().enumerate() {
        if vehicles.iter().any(|v| v.profile == pi && v.scale.is_some_and(|(_, den)| den > 1)) {
            profile.dur.iter_mut().for_each(|d| *d *= 4);
        }
    }

    // a shared reload resource holds between one and three vehicle loads
    let resources = if cfg.shared_resources && vehicles.iter().any(|v| v.shifts.iter().any(|s| s.reloads.iter().any(|r| r.resource.is_some()))) {
        let cap: Vec<i64> = vehicles[0].capacity.iter().map(|c| c * rng.range(1, 3)).collect();
        vec![("res0".to_string(), cap)]
    } else {
        vec![]
    };
    SProblem { n: n_locs, profiles, jobs, vehicles, relations: vec![], objectives: vec![], clustering: None, resources }
}

// ---------------------------------------------------------------------------------------------------
// solving

pub fn quiet_env() -> Arc<Environment> {
    Arc::new(Environment { logger: Arc::new(|_: &str| {}), ..Environment::default() })
}

/// solves with the default configuration and a generation limit; returns the core solution and
/// the pragmatic solution JSON exactly as `write_pragmatic` renders it
pub fn solve_default(problem: Arc<CoreProblem>, env: Arc<Environment>, generations: usize) -> Result<(CoreSolution, Value), String> {
    let config = VrpConfigBuilder::new(problem.clone())
        .set_environment(env)
        .set_telemetry_mode(TelemetryMode::None)
        .prebuild()
        .map_err(|e| e.to_string())?
        .with_max_generations(Some(generations))
        .build()
        .map_err(|e| e.to_string())?;
    let solution = Solver::new(problem.clone(), config).solve().map_err(|e| e.to_string())?;
    let json = solution_json(&problem, &solution)?;
    Ok((solution, json))
}

pub fn solution_json(problem: &CoreProblem, solution: &CoreSolution) -> Result<Value, String> {
    let mut buf = BufWriter::new(Vec::new());
    write_pragmatic(problem, solution, PragmaticOutputType::OnlyPragmatic, &mut buf).map_err(|e| e.to_string())?;
    let bytes = buf.into_inner().map_err(|e| e.to_string())?;
    serde_json::from_slice(&bytes).map_err(|e| e.to_string())
}

fn int_of(v: &Value) -> Option<i64> {
    if let Some(i) = v.as_i64() {
        return Some(i);
    }
    let f = v.as_f64()?;
    if f.fract() == 0. && f.abs() < 9.0e15 { Some(f as i64) } else { None }
}

/// Converts a pragmatic solution JSON into integer form: times as seconds, numbers as integers.
/// Non-integral numbers are kept as `{"f": <float>}` so that the consumer can count them as inexact.
pub fn simplify_solution(sol: &Value) -> Value {
    fn num(v: &Value) -> Value {
        match int_of(v) {
            Some(i) => json!(i),
            None => json!({"f": v}),
        }
    }
    fn stat(s: &Value) -> Value {
        json!({
            "cost": num(&s["cost"]), "distance": num(&s["distance"]), "duration": num(&s["duration"]),
            "driving": num(&s["times"]["driving"]), "serving": num(&s["times"]["serving"]),
            "waiting": num(&s["times"]["waiting"]), "break": num(&s["times"]["break"]),
            "commuting": num(&s["times"]["commuting"]), "parking": num(&s["times"]["parking"]),
        })
    }
    let time = |v: &Value| -> Value { v.as_str().and_then(parse_ts).map(|t| json!(t)).unwrap_or(json!({"bad_time": v})) };
    let tours: Vec<Value> = sol["tours"]
        .as_array()
        .map(|ts| {
            ts.iter()
                .map(|t| {
                    let stops: Vec<Value> = t["stops"]
                        .as_array()
                        .unwrap()
                        .iter()
                        .map(|s| {
                            let acts: Vec<Value> = s["activities"]
                                .as_array()
                                .unwrap()
                                .iter()
                                .map(|a| {
                                    let mut av = json!({"jobId": a["jobId"], "type": a["type"]});
                                    if let Some(tag) = a.get("jobTag") {
                                        av["tag"] = tag.clone();
                                    }
                                    if let Some(loc) = a.get("location") {
                                        av["loc"] = loc["index"].clone();
                                    }
                                    if let Some(tm) = a.get("time") {
                                        av["start"] = time(&tm["start"]);
                                        av["end"] = time(&tm["end"]);
                                    }
                                    if let Some(c) = a.get("commute") {
                                        // the commute legs as reported: where from / to, how far, from when to when
                                        let leg = |l: &Value| -> Value {
                                            if l.is_null() {
                                                Value::Null
                                            } else {
                                                json!({"loc": l["location"]["index"], "dist": num(&l["distance"]),
                                                       "start": time(&l["time"]["start"]), "end": time(&l["time"]["end"])})
                                            }
                                        };
                                        av["commute"] = json!({"fwd": leg(&c["forward"]), "bwd": leg(&c["backward"])});
                                    }
                                    av
                                })
                                .collect();
                            let mut sv = json!({
                                "arrival": time(&s["time"]["arrival"]), "departure": time(&s["time"]["departure"]),
                                "distance": num(&s["distance"]), "load": s["load"], "activities": acts,
                            });
                            match s.get("location") {
                                Some(loc) => sv["loc"] = loc["index"].clone(),
                                None => sv["transit"] = json!(true),
                            }
                            if let Some(pk) = s.get("parking") {
                                sv["parking"] = json!(true);
                                sv["parkingTime"] = json!([time(&pk["start"]), time(&pk["end"])]);
                            }
                            sv
                        })
                        .collect();
                    json!({"vehicleId": t["vehicleId"], "typeId": t["typeId"], "shiftIndex": t["shiftIndex"],
                           "stops": stops, "statistic": stat(&t["statistic"])})
                })
                .collect()
        })
        .unwrap_or_default();
    let unassigned: Vec<Value> = sol["unassigned"]
        .as_array()
        .map(|us| {
            us.iter()
                .map(|u| {
                    json!({"jobId": u["jobId"],
                           "reasons": u["reasons"].as_array().map(|r| r.iter().map(|x| x["code"].clone()).collect::<Vec<_>>()).unwrap_or_default()})
                })
                .collect()
        })
        .unwrap_or_default();
    let violations: Vec<Value> = sol["violations"].as_array().cloned().unwrap_or_default();
    json!({"statistic": stat(&sol["statistic"]), "tours": tours, "unassigned": unassigned, "violations": violations})
}

/// derives consistent relations from a solved tour (as the documentation requires)
pub fn derive_relations(sp: &SProblem, sol: &Value, rseed: u64) -> Vec<SRelation> {
    derive_relations_opts(sp, sol, rseed, false)
}

/// `full`: every tour gets a sequence / strict relation that repeats its whole supported prefix (all its reloads included)
pub fn derive_relations_opts(sp: &SProblem, sol: &Value, rseed: u64, full: bool) -> Vec<SRelation> {
    let mut rng = Rng::derived(rseed);
    let mut rels = vec![];
    let single_place = |id: &str| {
        sp.jobs.iter().find(|j| j.id == id).is_some_and(|j| j.tasks.iter().all(|t| t.places.len() == 1 && t.places[0].tws.len() <= 1) && j.tasks.len() == 1)
    };
    for t in sol["tours"].as_array().unwrap().iter() {
        if !full && !rng.chance(1, 2) {
            continue;
        }
        let ids: Vec<String> = t["stops"]
            .as_array()
            .unwrap()
            .iter()
            .flat_map(|s| s["activities"].as_array().unwrap().iter())
            .map(|a| a["jobId"].as_str().unwrap().to_string())
            .collect();
        let kind = if full { *rng.pick(&["sequence", "strict"]) } else { *rng.pick(&["any", "sequence", "strict"]) };
        // NOTE jobs of a relation are not checked for constraint violations (documented): a consistent relation
        // repeats a prefix of a feasible tour, in tour order, from the departure on, up to the first break or job
        // that relations do not support; reloads are listed for sequence/strict, `any` stops before the first reload
        let mut prefix: Vec<String> = vec![];
        for id in ids.iter() {
            let ok = match id.as_str() {
                "departure" => true,
                "reload" => kind != "any",
                "break" | "arrival" => false,
                other => single_place(other),
            };
            if !ok {
                break;
            }
            prefix.push(id.clone());
        }
        let keep = if full { prefix.len() } else { rng.usize(1, prefix.len().max(1)) };
        prefix.truncate(keep.max(2).min(prefix.len()));
        while prefix.last().is_some_and(|id| id == "reload") {
            prefix.pop();
        }
        let jobs: Vec<String> = if kind == "any" { prefix.into_iter().filter(|id| id != "departure").collect() } else { prefix };
        if jobs.iter().filter(|j| *j != "departure").count() == 0 {
            continue;
        }
        rels.push(SRelation {
            kind: kind.to_string(),
            jobs,
            vehicle_id: t["vehicleId"].as_str().unwrap().to_string(),
            shift_index: Some(t["shiftIndex"].as_u64().unwrap() as usize),
        });
    }
    rels
}


/// a random vicinity clustering definition (`plan.clustering`) for a generated problem: thresholds wide enough to
/// cluster neighbouring jobs of the integer matrices, both visiting policies, all serving policies, and - in two of
/// three cases - an explicit filtering list (possibly empty) next to the jobs which relations exclude implicitly
pub fn gen_clustering(rng: &mut Rng, sp: &SProblem) -> Value {
    let serving = match rng.below(3) {
        0 => json!({"type": "original", "parking": rng.range(0, 20)}),
        1 => json!({"type": "multiplier", "value": 1, "parking": rng.range(0, 20)}),
        _ => json!({"type": "fixed", "value": rng.range(1, 20), "parking": rng.range(0, 20)}),
    };
    let mut c = json!({
        "type": "vicinity",
        "profile": {"matrix": sp.profiles[0].name},
        "threshold": {"duration": rng.range(20, 120), "distance": rng.range(20, 120), "maxJobsPerCluster": rng.range(2, 5)},
        "visiting": *rng.pick(&["continue", "return"]),
        "serving": serving,
    });
    if rng.chance(2, 3) {
        let ids: Vec<String> = sp.jobs.iter().filter(|_| rng.chance(1, 5)).map(|j| j.id.clone()).collect();
        c["filtering"] = json!({"excludeJobIds": ids});
    }
    c
}

/// explicit objectives for a generated problem (valid by the rules E1600-E1607): the default hierarchy with zero to two
/// objectives that keep per-solution aggregates (work balance, compact tours) and - when jobs carry an order - the soft
/// tour order, which makes the order a matter of cost instead of a hard rule
pub fn gen_objectives(rng: &mut Rng, sp: &SProblem) -> Vec<Value> {
    let mut os: Vec<Value> = vec![];
    if sp.jobs.iter().any(|j| j.value.is_some()) {
        os.push(json!({"type": "maximize-value"}));
    }
    os.push(json!({"type": "minimize-unassigned"}));
    if rng.chance(2, 3) {
        os.push(json!({"type": "minimize-tours"}));
    }
    if sp.jobs.iter().any(|j| j.tasks.iter().any(|t| t.order.is_some())) && rng.chance(1, 2) {
        os.push(json!({"type": "tour-order"}));
    }
    let mut extras = vec![
        "balance-max-load",
        "balance-activities",
        "balance-distance",
        "balance-duration",
        "compact-tour",
        "minimize-arrival-time",
        "fast-service",
    ];
    rng.shuffle(&mut extras);
    for k in extras.into_iter().take(rng.usize(1, 2)) {
        os.push(match k {
            "compact-tour" => json!({"type": k, "job_radius": rng.usize(1, 3)}),
            _ => json!({"type": k}),
        });
    }
    // exactly one cost objective (E1602 / E1606)
    os.push(json!({"type": *rng.pick(&["minimize-cost", "minimize-cost", "minimize-distance", "minimize-duration"])}));
    if rng.chance(1, 5) {
        // maximize instead of minimize the number of tours
        for o in os.iter_mut() {
            if o["type"] == "minimize-tours" {
                *o = json!({"type": "maximize-tours"});
            }
        }
    }
    // one time in four serving every job is NOT the most important goal (the documentation names minimize-tours as an
    // objective that competes with minimize-unassigned): fewer tours rank above fewer unassigned jobs, or - one time in
    // twelve - the number of unassigned jobs is no objective at all. A solution with more unassigned jobs can then be the
    // better one, in the whole and in every part a decomposing operator compares
    if rng.chance(1, 4) {
        os.retain(|o| o["type"] != "minimize-unassigned");
        if !os.iter().any(|o| o["type"] == "minimize-tours" || o["type"] == "maximize-tours") {
            os.insert(0, json!({"type": "minimize-tours"}));
        }
        if !rng.chance(1, 3) {
            let at = os.iter().position(|o| o["type"] == "minimize-tours" || o["type"] == "maximize-tours").unwrap() + 1;
            os.insert(at, json!({"type": "minimize-unassigned"}));
        }
    }
    os
}
