import Drv.PragParse
open Lean Drv Prag Drv.PragParse

namespace Drv.C01

/-- solver-level cases (shared by C01, C02, C03, C07): the oracle groups are reported separately; each
    property's check looks at its own group -/
def handle (j : Json) : R (List (String × Json)) := do
  let impl ← fld j "impl"
  -- the problem actually solved (relations may have been derived from a first solve)
  let spJ := match impl.getObjVal? "sp_final" with
    | .ok v => if v.isNull then fldD j "sp" Json.null else v
    | .error _ => fldD j "sp" Json.null
  let p ← parseProblem spJ
  match impl.getObjVal? "error" with
  | .ok e =>
    return [("model", Json.null), ("oracle", Json.mkObj [("solver_returned_a_solution", Json.bool false)]),
            ("info", Json.mkObj [("error", e)])]
  | .error _ => pure ()
  let solJ ← fld impl "solution"
  match parseSolution solJ with
  | .error e =>
    -- non-integral numbers: counted as inexact, never as agreement or violation
    return [("model", Json.null), ("oracle", Json.mkObj []), ("info", Json.mkObj [("inexact", Json.str e)])]
  | .ok s =>
    let f := Spec.feasible p s
    let pa := Spec.partition p s
    let rp := Spec.replay p s
    let strs (l : List String) := Json.arr (l.map Json.str).toArray
    -- vicinity clustering: activities of a cluster are reached by commuting from a parking place, which the feasibility
    -- and replay specifications do not model; the partition specification (ids, counts, places) applies unchanged
    let clustered := match spJ.getObjVal? "clustering" with | .ok v => !v.isNull | .error _ => false
    -- what an operator history ends in: partition only (pins and relation exemptions of histories are judged by C04)
    -- solves seeded with an initial solution that leaves a relation job unassigned: partition only as well
    if (fldD j "k" Json.null) == Json.str "init" then
      return [("model", Json.null),
              ("oracle", Json.mkObj [("partition", Json.bool pa.isEmpty)]),
              ("info", Json.mkObj [("operator_history", Json.bool true), ("seeded_with_initial_solution", Json.bool true), ("partition", strs pa),
                                   ("tours", jNat s.tours.length), ("unassigned", jNat s.unassigned.length)])]
    let ophist := (fldD j "k" Json.null) == Json.str "ophist"
    if ophist then
      -- every solution of the history (one per step), not only the last one
      let stepsJ := match impl.getObjVal? "step_solutions" with | .ok (Json.arr a) => a.toList | _ => []
      let mut bad : List String := []
      let mut judged := 0
      for st in stepsJ do
        match parseSolution (fldD st "solution" Json.null) with
        | .ok s2 =>
          judged := judged + 1
          let e := Spec.partition p s2
          if !e.isEmpty && bad.isEmpty then
            bad := e.map (fun m => s!"after {(fldD st "op" Json.null).compress}: {m}")
        | .error _ => pure ()
      let all := if bad.isEmpty then pa else bad
      return [("model", Json.null),
              ("oracle", Json.mkObj [("partition", Json.bool all.isEmpty)]),
              ("info", Json.mkObj [("operator_history", Json.bool true), ("partition", strs all), ("steps_judged", jNat judged),
                                   ("tours", jNat s.tours.length), ("unassigned", jNat s.unassigned.length)])]
    if clustered then
      -- the commute legs are judged against the routing data of the clustering profile (the generator names the first one)
      let cr := Spec.commuteReplay p 0 s
      return [("model", Json.null),
              ("oracle", Json.mkObj [("partition", Json.bool pa.isEmpty), ("commute", Json.bool cr.isEmpty)]),
              ("info", Json.mkObj [("clustered", Json.bool true), ("partition", strs pa), ("commute", strs cr),
                                   ("commute_legs", jNat ((s.tours.flatMap (fun t => t.stops.flatMap (·.activities))).filter (fun a => a.fwd.isSome || a.bwd.isSome)).length),
                                   ("tours", jNat s.tours.length), ("unassigned", jNat s.unassigned.length)])]
    return [("model", Json.null),
            ("oracle", Json.mkObj [("feasible", Json.bool f.isEmpty), ("partition", Json.bool pa.isEmpty),
                                   ("replay", Json.bool rp.isEmpty)]),
            ("info", Json.mkObj [("feasible", strs f), ("partition", strs pa), ("replay", strs rp),
                                 ("tours", jNat s.tours.length), ("unassigned", jNat s.unassigned.length)])]

end Drv.C01

def main : IO Unit := Drv.run Drv.C01.handle
