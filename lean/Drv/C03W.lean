import Drv.Common
import VrpModel.C03W
import VrpModel.C03U
open Lean Drv C03W

namespace Drv.C03W

def optStr (j : Json) (k : String) : R (Option String) := optF asStr j k

def parseLoad (j : Json) : R Load := listOf asInt j

def parseDem (j : Json) : R Dem := do
  match j.getObjVal? "single" with
  | .ok sj =>
    match (← listOf asInt sj) with
    | [a, b, c, d] => return Dem.ofSingle a b c d
    | _ => throw "single demand: four values expected"
  | .error _ => pure ()
  pure ⟨← parseLoad (← fld j "d0"), ← parseLoad (← fld j "d1"), ← parseLoad (← fld j "p0"), ← parseLoad (← fld j "p1")⟩

def parseTag (j : Json) : R (Nat × String) := do
  let a ← asArr j
  match a.toList with
  | [i, t] => pure (← asNat i, ← asStr t)
  | _ => throw "tag pair expected"

def parseActRaw (j : Json) : R RAct := do
  pure { loc := ← natF j "loc", arr := ← intF j "arr", dep := ← intF j "dep", tws := ← intF j "tws", dur := ← intF j "dur",
         placeIdx := ← natF j "placeIdx", type := ← optStr j "type", jobId := ← optStr j "jobId", rootId := ← optStr j "rootId",
         tags := ← listF parseTag j "tags", dem := ← optF parseDem j "dem", legDur := ← intF j "legDur", legDist := ← intF j "legDist" }

def parseAct (j : Json) : R RAct := do
  if (← boolF j "commute") then throw "commute"
  parseActRaw j

def parseCAct (j : Json) : R CAct := do
  let a ← parseActRaw j
  let info (l : Json) : R CInfo := do pure ⟨← natF l "loc", ← intF l "dist", ← intF l "dur"⟩
  let c ← match j.getObjVal? "commuteLegs" with
    | .ok cl => if cl.isNull then pure none else do pure (some (← info (← fld cl "fwd"), ← info (← fld cl "bwd")))
    | .error _ => pure none
  let legs ← match j.getObjVal? "legsFrom" with
    | .ok l => listOf (fun x => do
        let t ← asArr x
        pure ((← asNat t[0]!), (← asInt t[1]!), (← asInt t[2]!))) l
    | .error _ => pure []
  pure { a := a, commute := c, legsFrom := legs }

def parseVeh (j : Json) : R Veh := do
  pure ⟨← intF j "fixed", ← intF j "cd", ← intF j "ct", ← intF j "cw", ← intF j "cs"⟩

def parseWAct (j : Json) : R WActivity := do
  let time ← match j.getObjVal? "start", j.getObjVal? "end" with
    | .ok s, .ok e => do pure (some (← asInt s, ← asInt e))
    | _, _ => pure none
  pure { jobId := ← strF j "jobId", type := ← strF j "type", tag := ← optStr j "tag", loc := ← optF asNat j "loc", time := time }

def parseWStop (j : Json) : R WStop := do
  pure { loc := ← natF j "loc", arrival := ← intF j "arrival", departure := ← intF j "departure", distance := ← intF j "distance",
         load := ← listF asInt j "load", activities := ← listF parseWAct j "activities" }

def parseWTour (j : Json) : R WTour := do
  let st ← fld j "statistic"
  if (← intF st "commuting") != 0 || (← intF st "parking") != 0 then throw "commute"
  pure { stops := ← listF parseWStop j "stops",
         stat := ⟨← intF st "cost", ← intF st "distance", ← intF st "duration", ← intF st "driving", ← intF st "serving",
                  ← intF st "waiting", ← intF st "break"⟩ }

def jAct (a : WActivity) : Json :=
  Json.mkObj ([("jobId", Json.str a.jobId), ("type", Json.str a.type)]
    ++ (match a.tag with | some t => [("tag", Json.str t)] | none => [])
    ++ (match a.loc with | some l => [("loc", jNat l)] | none => [])
    ++ (match a.time with | some (s, e) => [("start", jInt s), ("end", jInt e)] | none => []))

def jStop (s : WStop) : Json :=
  Json.mkObj [("loc", jNat s.loc), ("arrival", jInt s.arrival), ("departure", jInt s.departure), ("distance", jInt s.distance),
              ("load", jList jInt s.load), ("activities", jList jAct s.activities)]

def jStat (s : WStat) : Json :=
  Json.mkObj [("cost", jInt s.cost), ("distance", jInt s.distance), ("duration", jInt s.duration), ("driving", jInt s.driving),
              ("serving", jInt s.serving), ("waiting", jInt s.waiting), ("break", jInt s.breakT)]

def jTour (t : WTour) : Json := Json.mkObj [("stops", jList jStop t.stops), ("statistic", jStat t.stat)]

def jLeg (l : Option (Nat × Int × Int × Int)) : Json :=
  match l with
  | some (loc, d, s, e) => Json.mkObj [("loc", jNat loc), ("dist", jInt d), ("start", jInt s), ("end", jInt e)]
  | none => Json.null

def jCAct (c : CActivity) : Json :=
  let a := c.act
  Json.mkObj ([("jobId", Json.str a.jobId), ("type", Json.str a.type)]
    ++ (match a.tag with | some t => [("tag", Json.str t)] | none => [])
    ++ (match a.loc with | some l => [("loc", jNat l)] | none => [])
    ++ (match a.time with | some (s, e) => [("start", jInt s), ("end", jInt e)] | none => [])
    ++ (if c.hasCommute then [("commute", Json.mkObj [("fwd", jLeg c.fwd), ("bwd", jLeg c.bwd)])] else []))

def jCStop (s : CStop) : Json :=
  Json.mkObj ([("loc", jNat s.loc), ("arrival", jInt s.arrival), ("departure", jInt s.departure), ("distance", jInt s.distance),
               ("load", jList jInt s.load), ("activities", jList jCAct s.activities)]
    ++ (match s.parking with | some (a, b) => [("parking", Json.bool true), ("parkingTime", Json.arr #[jInt a, jInt b])] | none => []))

/-- clustered problems: the commute-aware model of the writer must render the same tour (stops with parking, activities with
    commute legs, statistic with commuting and parking time) -/
def handleCluster (j impl : Json) : R (List (String × Json)) := do
  let routes ← arrF impl "routes"
  let tours ← arrF impl "tours"
  let pk := match ((fldD (fldD (fldD j "sp" Json.null) "clustering" Json.null) "serving" Json.null).getObjVal? "parking") with
    | .ok v => (v.getInt?).toOption.getD 0
    | .error _ => 0
  let mut models : List Json := []
  let mut nCommute := 0
  let mut nParking := 0
  -- the timing entries of the WRITTEN tours (with commuting and parking) add up to the duration
  let mut bad : List Json := []
  for tj in tours do
    let st := fldD tj "statistic" Json.null
    let g (k : String) : Int := ((st.getObjVal? k).toOption.bind (fun v => v.getInt?.toOption)).getD 0
    let cs : CStat := ⟨⟨g "cost", g "distance", g "duration", g "driving", g "serving", g "waiting", g "break"⟩, g "commuting", g "parking"⟩
    let gap := clusterSplitGap cs
    if gap != 0 then
      let stops := ((fldD tj "stops" Json.null).getArr?.toOption.getD #[]).toList
      let parkings := (stops.filter (fun s => (s.getObjVal? "parking").isOk)).length
      bad := Json.mkObj [("vehicleId", fldD tj "vehicleId" Json.null), ("gap", jInt gap), ("parking_time", jInt pk),
                         ("parking_stops", jNat parkings), ("waiting", jInt (g "waiting"))] :: bad
  for rj in routes do
    let parsed : R (Veh × List CAct) := do pure (← parseVeh (← fld rj "veh"), ← listF parseCAct rj "acts")
    match parsed with
    | .error _ => models := Json.null :: models
    | .ok (v, acts) =>
      nCommute := nCommute + (acts.filter (fun c => c.commute.isSome)).length
      match writeTourC v pk acts with
      | some (stops, st) =>
        nParking := nParking + (stops.filter (fun s => s.parking.isSome)).length
        models := Json.mkObj [("stops", jList jCStop stops),
          ("statistic", Json.mkObj [("cost", jInt st.s.cost), ("distance", jInt st.s.distance), ("duration", jInt st.s.duration),
             ("driving", jInt st.s.driving), ("serving", jInt st.s.serving), ("waiting", jInt st.s.waiting), ("break", jInt st.s.breakT),
             ("commuting", jInt st.commuting), ("parking", jInt st.parking)])] :: models
      | none => models := Json.null :: models
  return [("model", Json.mkObj [("tours", Json.arr models.reverse.toArray)]),
          ("oracle", Json.mkObj [("one_tour_per_route", Json.bool (routes.length == tours.length)),
                                 ("timing_entries_with_commuting_and_parking_add_up_to_the_duration", Json.bool bad.isEmpty)]),
          ("info", Json.mkObj [("bad", Json.arr bad.reverse.toArray), ("routes", jNat routes.length), ("cluster_routes", jNat routes.length),
                               ("commute_activities", jNat nCommute), ("parking_stops", jNat nParking), ("activities", jNat 4)])]

def parseBAct (j : Json) : R BAct := do
  let time ← match j.getObjVal? "start", j.getObjVal? "end" with
    | .ok s, .ok e => do pure (some (← asInt s, ← asInt e))
    | _, _ => pure none
  pure { type := ← strF j "type", time := time }

def parseBTour (j : Json) : R BTour := do
  let st ← fld j "statistic"
  if (← intF st "commuting") != 0 || (← intF st "parking") != 0 then throw "commute"
  let stops ← listF (fun s => do
    pure ({ arrival := ← intF s "arrival", departure := ← intF s "departure", acts := ← listF parseBAct s "activities" } : BStop)) j "stops"
  pure { stops := stops,
         stat := ⟨← intF st "cost", ← intF st "distance", ← intF st "duration", ← intF st "driving", ← intF st "serving",
                  ← intF st "waiting", ← intF st "break"⟩ }

def jXStop (s : XStop) : Json :=
  Json.mkObj ([("arrival", jInt s.arrival), ("departure", jInt s.departure),
               ("distance", match s.distance with | some d => jInt d | none => Json.mkObj [("f", Json.null)]),
               ("load", jList jInt s.load), ("activities", jList jAct s.activities)]
    ++ (match s.loc with | some l => [("loc", jNat l)] | none => [("transit", Json.bool true)]))

def jXTour (t : XTour) : Json := Json.mkObj [("stops", jList jXStop t.stops), ("statistic", jStat t.stat)]

def parseReserved (j : Json) : R Reserved := do
  pure { offset := ← boolF j "offset", start := ← intF j "start", stop := ← intF j "stop", dur := ← intF j "dur" }

/-- tours of vehicles with required breaks: the model of the break writer must render the same tour; the break clauses are
    evaluated on the written tour -/
def handleBreaks (impl : Json) : R (List (String × Json)) := do
  let routes ← arrF impl "routes"
  let tours ← arrF impl "tours"
  let mut models : List Json := []
  for rj in routes do
    let parsed : R (Veh × List RAct × Bool × List Reserved) := do
      pure (← parseVeh (← fld rj "veh"), ← listF parseAct rj "acts", ← boolF rj "openEnd", ← listF parseReserved rj "reserved")
    match parsed with
    | .error _ => models := Json.null :: models
    | .ok (v, acts, openEnd, rs) =>
      models := (match writeTourX v acts openEnd rs with | some m => jXTour m | none => Json.null) :: models
  let mut bad : List Json := []
  let mut skipped := 0
  let mut withBreak := 0
  let mut transit := 0
  for (rj, tj) in routes.zip tours do
    let parsed : R (Veh × BTour) := do pure (← parseVeh (← fld rj "veh"), ← parseBTour tj)
    match parsed with
    | .error _ => skipped := skipped + 1
    | .ok (v, t) =>
      if !t.breaks.isEmpty then withBreak := withBreak + 1
      if ((fldD tj "stops" Json.null).getArr?.toOption.getD #[]).any (fun s => (s.getObjVal? "transit").isOk) then transit := transit + 1
      let errs := specBreakTour v t
      if !errs.isEmpty then
        bad := Json.mkObj [("vehicleId", fldD rj "vehicleId" Json.null), ("rules", Json.arr (errs.map Json.str).toArray)] :: bad
  return [("model", Json.mkObj [("tours", Json.arr models.reverse.toArray)]),
          ("oracle", Json.mkObj [("one_tour_per_route", Json.bool (routes.length == tours.length)),
                                 ("tours_with_required_breaks_meet_the_break_clauses", Json.bool bad.isEmpty)]),
          ("info", Json.mkObj [("bad", Json.arr bad.reverse.toArray), ("routes", jNat routes.length), ("skipped", jNat skipped),
                               ("break_tours", jNat withBreak), ("transit_tours", jNat transit), ("activities", jNat 4)])]

def parseUJob (j : Json) : R C03U.UJob := do
  let infoJ ← fld j "info"
  let info : C03U.UInfo ← match infoJ.getObjVal? "simple", infoJ.getObjVal? "detailed" with
    | .ok c, _ => do pure (C03U.UInfo.simple (← asInt c).toNat)
    | _, .ok d => do
        let l ← listOf (fun x => do
          let t ← asArr x
          pure ((← asStr t[0]!), (← asNat t[1]!), (← asInt t[2]!).toNat)) d
        pure (C03U.UInfo.detailed l)
    | _, _ => pure C03U.UInfo.unknown
  pure { jobId := (← optF asStr j "jobId").getD "", vehicleId := ← optF asStr j "vehicleId", shiftIndex := ← optF asNat j "shiftIndex",
         type := ← optF asStr j "type", info := info }

def jUEntry (e : C03U.UEntry) : Json :=
  Json.mkObj [("jobId", Json.str e.jobId), ("reasons", jList (fun (r : C03U.UReason) =>
    Json.mkObj [("code", Json.str r.code), ("description", Json.str r.description),
                ("details", match r.details with
                  | some d => jList (fun (x : String × Nat) => Json.arr #[Json.str x.1, jNat x.2]) d
                  | none => Json.null)]) e.reasons)]

/-- the model of `create_unassigned` / `create_violations` on the dump of the core solution's unassigned list -/
def unassignedModel (impl : Json) : List (String × Json) :=
  match (do listF parseUJob impl "unassigned_dump" : R (List C03U.UJob)) with
  | .ok us =>
    [("unassigned", jList jUEntry (C03U.createUnassigned us)),
     ("violations", jList (fun (x : String × Nat) => Json.arr #[Json.str x.1, jNat x.2]) (C03U.createViolations us))]
  | .error _ => []

def addToModel (extra : List (String × Json)) (res : List (String × Json)) : List (String × Json) :=
  res.map (fun kv => if kv.1 == "model" then
      (match kv.2 with
       | Json.obj _ => ("model", extra.foldl (fun m e => m.setObjVal! e.1 e.2) kv.2)
       | _ => kv)
    else kv)

/-- one solved problem: every route of the core solution against the tour the real writer rendered for it -/
def handleTours (j : Json) : R (List (String × Json)) := do
  let impl ← fld j "impl"
  match impl.getObjVal? "error" with
  | .ok e => return [("model", Json.null), ("oracle", Json.mkObj []), ("info", Json.mkObj [("error", e)])]
  | .error _ => pure ()
  match impl.getObjVal? "panic" with
  | .ok e => return [("model", Json.null), ("oracle", Json.mkObj [("solver_and_writer_returned", Json.bool false)]), ("info", Json.mkObj [("panic", e)])]
  | .error _ => pure ()
  if (fldD j "k" Json.null) == Json.str "wbreak" then return (← handleBreaks impl)
  if (fldD j "k" Json.null) == Json.str "wcluster" then return (← handleCluster j impl)
  let routes ← arrF impl "routes"
  let tours ← arrF impl "tours"
  if routes.length != tours.length then
    return [("model", Json.null), ("oracle", Json.mkObj [("one_tour_per_route", Json.bool false)]), ("info", Json.mkObj [])]
  let mut models : List Json := []
  let mut bad : List Json := []
  let mut skipped := 0
  let mut nSched := 0
  let mut nReload := 0
  let mut nBreak := 0
  let mut nActs := 0
  for (rj, tj) in routes.zip tours do
    let parsed : R (Veh × List RAct × WTour) := do
      pure (← parseVeh (← fld rj "veh"), ← listF parseAct rj "acts", ← parseWTour tj)
    match parsed with
    | .error _ =>
      -- commute (clustering) or non-integral numbers: outside the model, counted, never judged
      skipped := skipped + 1
      models := Json.null :: models
    | .ok (v, acts, t) =>
      nActs := nActs + acts.length
      if schedOk acts then nSched := nSched + 1
      if acts.any isReload then nReload := nReload + 1
      if acts.any (fun a => actType a == "break") then nBreak := nBreak + 1
      models := (match writeTour v acts with | some m => jTour m | none => Json.null) :: models
      let errs := specTour v acts t
      if !errs.isEmpty then
        bad := Json.mkObj [("vehicleId", fldD rj "vehicleId" Json.null), ("rules", Json.arr (errs.map Json.str).toArray)] :: bad
  return [("model", Json.mkObj [("tours", Json.arr models.reverse.toArray)]),
          ("oracle", Json.mkObj [("one_tour_per_route", Json.bool true), ("written_tours_meet_the_specification", Json.bool bad.isEmpty)]),
          ("info", Json.mkObj [("bad", Json.arr bad.reverse.toArray), ("routes", jNat routes.length), ("skipped", jNat skipped),
                               ("sched_ok", jNat nSched), ("with_reload", jNat nReload), ("with_break", jNat nBreak), ("activities", jNat nActs)])]

def handle (j : Json) : R (List (String × Json)) := do
  let res ← handleTours j
  let impl ← fld j "impl"
  return addToModel (unassignedModel impl) res

end Drv.C03W

def main : IO Unit := Drv.run Drv.C03W.handle
