import Drv.PragParse
import VrpModel.C04
open Lean Drv Prag Drv.PragParse Machine C04

namespace Drv.C04

structure Book where
  ctx : Machine.Ctx
  tours : List TourObs
  actors : List String       -- actor of each route, in route order
  stale : List Bool

def parseBook (actorIdx : String → Nat) (j : Json) : R Book := do
  let routes ← arrF j "routes"
  let mut rs : List Machine.Route := []
  let mut ts : List TourObs := []
  let mut as : List String := []
  let mut st : List Bool := []
  for r in routes do
    let acts ← listF (fun a => do
      let p ← listOf asInt a
      let job := (p.getD 0 0).toNat
      let sub := p.getD 1 (-1)
      pure (job, if sub < 0 then none else some sub.toNat)) r "acts"
    let set ← listF asInt r "job_set"
    let actor ← strF r "actor"
    rs := rs ++ [{ actor := actorIdx actor, jobs := set.map (·.toNat) }]
    ts := ts ++ [{ acts := acts, jobSet := set.map (·.toNat), jobCount := ← natF r "job_count" }]
    as := as ++ [actor]
    st := st ++ [← boolF r "stale"]
  let ids (k : String) : R (List Nat) := do
    let l ← listF asInt j k
    -- a negative id is a job that is not part of the problem: keep it visible as an out-of-range index
    pure (l.map (fun x => if x < 0 then 1000000 else x.toNat))
  let available ← listF asStr j "available"
  pure { ctx := { required := ← ids "required", ignored := ← ids "ignored", unassigned := ← ids "unassigned",
                  locked := ← ids "locked", routes := rs, available := available.map actorIdx },
         tours := ts, actors := as, stale := st }


/-! ## elementary-step traces: the real bookkeeping against the machine -/

def insertPair (x : Nat × List Nat) : List (Nat × List Nat) → List (Nat × List Nat)
  | [] => [x]
  | y :: ys => if x.1 ≤ y.1 then x :: y :: ys else y :: insertPair x ys

/-- canonical form of a context: every collection sorted, routes by actor -/
def canon (c : Machine.Ctx) : List Nat × List Nat × List Nat × List (Nat × List Nat) × List Nat :=
  (isort c.required, isort c.ignored, isort c.unassigned,
   (c.routes.map (fun r => (r.actor, isort r.jobs))).foldr insertPair [], isort c.available)

/-- the abstraction of a real context: during `process` a pending job stays listed as unassigned too
    (`prepare_insertion_ctx` copies, it does not move), the machine lists it as required only -/
def absCtx (c : Machine.Ctx) : Machine.Ctx :=
  { c with unassigned := c.unassigned.filter (fun j => !c.required.contains j) }

def showCanon (c : Machine.Ctx) : String := toString (repr (canon c))

def handleMachine (impl : Json) : R (List (String × Json)) := do
  let n ← natF impl "jobs"
  let sizes ← listF asNat impl "job_sizes"
  let actors ← listF asStr impl "actors"
  let actorIdx (a : String) : Nat := (actors.findIdx? (· == a)).getD 1000000
  let fleet := List.range actors.length
  let events ← arrF impl "events"
  let mut m : Machine.Ctx := { required := [], ignored := [], unassigned := [], locked := [], routes := [], available := [] }
  let mut tr : Tracker := ⟨0, 0⟩
  let mut mism : Array Json := #[]
  let mut okInv := true
  let mut steps := 0
  let note (k : Nat) (ev what : String) : Json := Json.mkObj [("event", jNat k), ("ev", Json.str ev), ("what", Json.str what)]
  let mut k := 0
  for e in events do
    let ev ← strF e "ev"
    let real : Option Machine.Ctx ← (match e.getObjVal? "state" with
      | .ok st => do let b ← parseBook actorIdx st; pure (some (absCtx b.ctx))
      | .error _ => pure none)
    if ev == "init" then
      match real with
      | some c => m := c
      | none => pure ()
    else if ev == "new_tracker" then
      tr := ⟨← natF e "acts", ← natF e "routes"⟩
    else if ev == "remove_job" then
      let a := actorIdx (← strF e "actor")
      let jb := (← asInt (← fld e "job"))
      let res ← boolF e "result"
      let lim ← boolF e "limit"
      match routeIdx m a with
      | none => mism := mism.push (note k ev "the model knows no route of this actor")
      | some r =>
        let (t', c', ok) := tryRemoveJob sizes tr m r (if jb < 0 then 1000000 else jb.toNat)
        if ok != res then mism := mism.push (note k ev s!"result: model {ok}, real {res}")
        if t'.isLimit != lim then mism := mism.push (note k ev s!"limit reached: model {t'.isLimit}, real {lim}")
        tr := t'; m := c'; steps := steps + 1
    else if ev == "remove_route" then
      let a := actorIdx (← strF e "actor")
      let res ← boolF e "result"
      let lim ← boolF e "limit"
      match routeIdx m a, real with
      | some r, some post =>
        let before := (m.routes[r]?.map (·.jobs)).getD []
        let whole := !(post.routes.any (fun rt => rt.actor == a))
        let after := ((post.routes.find? (fun rt => rt.actor == a)).map (·.jobs)).getD []
        let removed := if whole then before else before.filter (fun x => !after.contains x)
        match tryRemoveRoute sizes tr m r whole removed with
        | none => mism := mism.push (note k ev s!"no behaviour of the model: whole={whole} removed={removed} budget={tr.acts}/{tr.routes}")
        | some (t', c', ok) =>
          if ok != res then mism := mism.push (note k ev s!"result: model {ok}, real {res}")
          if t'.isLimit != lim then mism := mism.push (note k ev s!"limit reached: model {t'.isLimit}, real {lim}")
          tr := t'; m := c'; steps := steps + 1
      | _, _ => mism := mism.push (note k ev "the model knows no route of this actor")
    else if ev == "restore" then
      m := dropEmpty m
      steps := steps + 1
    else if ev == "process" then
      let evals ← arrF e "evals"
      let mut results : List EvalResult := []
      -- state before every evaluation = machine state after the results applied so far
      let mut cur : Option Machine.Ctx := Machine.step m .prepare
      let mut i := 0
      for x in evals do
        let stJ ← fld x "state"
        let seen := absCtx (← parseBook actorIdx stJ).ctx
        match cur with
        | some c => if canon c != canon seen then
                      mism := mism.push (note k ev s!"before evaluation {i}: model {showCanon c}, real {showCanon seen}")
        | none => pure ()
        let rJ ← fld x "result"
        let r : EvalResult ← (match rJ.getObjVal? "success" with
          | .ok (.arr #[jj, aa]) => do pure (EvalResult.success (← asNat jj) (actorIdx (← asStr aa)))
          | _ => pure EvalResult.failure)
        results := results ++ [r]
        match cur with
        | some c =>
          match applyResult c r with
          | some c' => cur := some c'
          | none =>
            mism := mism.push (note k ev s!"result {i} is no step of the model")
            cur := none
        | none => pure ()
        i := i + 1
      match processWith m results with
      | some c' => m := c'
      | none => mism := mism.push (note k ev "the results are no behaviour of the model")
      steps := steps + results.length + 2
    -- after every event the machine state is the (abstracted) real state
    match real with
    | some c =>
      if ev != "init" && canon m != canon c then
        mism := mism.push (note k ev s!"state after the call: model {showCanon m}, real {showCanon c}")
        m := c      -- resynchronise so that one divergence is reported once
      if !(partB n c) || !(regB fleet c) then okInv := false
    | none => pure ()
    k := k + 1
  return [("model", Json.mkObj [("agree", Json.bool mism.isEmpty), ("mismatches", Json.arr (mism.extract 0 5))]),
          ("oracle", Json.mkObj [("machine_states_consistent", Json.bool okInv)]),
          ("info", Json.mkObj [("machine_steps", jNat steps), ("events", jNat events.length)])]

def handle (j : Json) : R (List (String × Json)) := do
  let impl ← fld j "impl"
  match impl.getObjVal? "error" with
  | .ok e => return [("model", Json.null), ("oracle", Json.mkObj []), ("info", Json.mkObj [("skipped", e)])]
  | .error _ => pure ()
  match impl.getObjVal? "panic" with
  | .ok e => return [("model", Json.null), ("oracle", Json.mkObj [("operators_do_not_panic", Json.bool false)]),
                     ("info", Json.mkObj [("panic", e)])]
  | .error _ => pure ()
  match impl.getObjVal? "events" with
  | .ok _ => return (← handleMachine impl)
  | .error _ => pure ()
  let spJ := match impl.getObjVal? "sp_final" with
    | .ok v => if v.isNull then fldD j "sp" Json.null else v
    | .error _ => fldD j "sp" Json.null
  let p ← parseProblem spJ
  let n ← natF impl "jobs"
  let sizes ← listF asNat impl "job_sizes"
  let pickups ← listF asNat impl "job_pickups"
  let actors ← listF asStr impl "actors"
  let actorIdx (a : String) : Nat := (actors.findIdx? (· == a)).getD 1000000
  let fleet := List.range actors.length
  let pinsJ := match impl.getObjVal? "pins" with | .ok (.arr a) => a.toList | _ => []
  let pins ← pinsJ.mapM (fun pj => do
    let as ← listF asStr pj "actors"
    let js ← listF asInt pj "jobs"
    pure ({ actors := as.map actorIdx, order := ← strF pj "order",
            jobs := js.map (fun x => if x < 0 then 1000000 else x.toNat) } : Pin))
  let steps ← arrF impl "steps"
  let mut bad : Array Json := #[]
  let mut okPart := true
  let mut okReg := true
  let mut okTours := true
  let mut okLocked := true
  let mut okParent := true
  let mut okCaches := true
  let mut okStale := true
  let mut okFeasible := true
  let mut okSolPartition := true
  let mut okReplay := true
  let mut first := true
  let mut tainted := false
  for st in steps do
    -- a step applied to an inconsistent solution proves nothing (the property's premise fails): judging of a history stops at
    -- the first step that breaks something, and that step is what is reported
    if tainted then continue
    let badBefore := bad.size
    let op ← strF st "op"
    let b ← parseBook actorIdx (← fld st "book")
    let note (what : String) : Json := Json.mkObj [("op", Json.str op), ("what", Json.str what)]
    if !partB n b.ctx then
      okPart := false
      bad := bad.push (note "jobs are not partitioned over routes/required/ignored/unassigned")
    if !regB fleet b.ctx then
      okReg := false
      bad := bad.push (note "registry does not match the routes")
    if !(b.tours.all (tourB sizes pickups)) then
      okTours := false
      bad := bad.push (note "a tour's job set / multi job parts are inconsistent")
    if b.stale.any id then
      okStale := false
      bad := bad.push (note "a route is handed over stale")
    -- pinned jobs stay on their vehicle, in their order (every step, the initial construction included)
    let tourJobs := (b.tours.zip b.actors).map (fun x => (actorIdx x.2, x.1.acts.map (·.1)))
    if !(pins.all (fun pin => pinB pin tourJobs)) then
      okLocked := false
      -- told apart: the pins hold once marker jobs (reloads, breaks: indices behind the plan's jobs) are left out
      let planN := p.jobs.length
      let pinsPlan := pins.map (fun pin => { pin with jobs := pin.jobs.filter (· < planN) })
      let toursPlan := tourJobs.map (fun t => (t.1, t.2.filter (· < planN)))
      if pinsPlan.all (fun pin => pinB pin toursPlan) then
        bad := bad.push (note "a pinned marker (reload/break) left its place")
      else
        bad := bad.push (note "a pinned job left its vehicle or its order")
    if first then
      first := false
    else
      match st.getObjVal? "parent_before", st.getObjVal? "parent_after" with
      | .ok x, .ok y => if x != y then
                          okParent := false
                          bad := bad.push (note "the parent solution was changed by the step")
      | _, _ => pure ()
      match st.getObjVal? "caches" with
      | .ok (.arr cs) =>
        for c in cs do
          match c with
          | .arr #[x, y] => if x != y then
                              okCaches := false
                              bad := bad.push (note "cached route state differs from recomputation")
          | _ => pure ()
      | _ => pure ()
    -- the pragmatic rendering of the context against the solver-level specifications
    match parseSolution (← fld st "solution") with
    | .error e =>
      okSolPartition := false
      bad := bad.push (note ("the solution cannot be rendered: " ++ e))
    | .ok s =>
      -- jobs of a relation are placed unchecked (documented), with the departure not yet rescheduled: the duration limit
      -- of a tour a relation targets is not a consequence of any search step, so it is not judged here
      let relTours := p.relations.map (fun r => s!"{r.vehicleId}/{r.shiftIndex.getD 0}: duration ")
      let f := (Spec.feasible p s).filter (fun m => !(relTours.any (fun pre => m.startsWith pre)))
      -- between two search steps a job-less route may exist (its bookkeeping is consistent); everything else of the
      -- partition specification applies
      let pa := (Spec.partition p s).filter (fun m => !(m.splitOn "serves no job").length > 1)
      let rp := Spec.replay p s
      if !f.isEmpty then
        okFeasible := false
        bad := bad.push (note ("infeasible: " ++ "; ".intercalate (f.take 2)))
      if !pa.isEmpty then
        okSolPartition := false
        bad := bad.push (note ("partition: " ++ "; ".intercalate (pa.take 2)))
      if !rp.isEmpty then
        okReplay := false
        bad := bad.push (note ("replay: " ++ "; ".intercalate (rp.take 2)))
    if bad.size > badBefore then tainted := true
  -- the same problem usually persists over the following steps: it is listed once, with the step that showed it first
  let distinct : Array Json := bad.foldl (fun acc nt =>
    if acc.any (fun x => (x.getObjVal? "what").toOption == (nt.getObjVal? "what").toOption) then acc else acc.push nt) #[]
  return [("model", Json.null),
          ("oracle", Json.mkObj [("jobs_partitioned", Json.bool okPart), ("registry_matches_routes", Json.bool okReg),
                                 ("tours_and_multi_jobs_consistent", Json.bool okTours), ("locked_jobs_stay", Json.bool okLocked),
                                 ("parent_unchanged", Json.bool okParent), ("caches_equal_recomputation", Json.bool okCaches),
                                 ("not_stale_at_handover", Json.bool okStale), ("assigned_part_feasible", Json.bool okFeasible),
                                 ("rendered_solution_partition", Json.bool okSolPartition), ("rendered_solution_replay", Json.bool okReplay)]),
          ("info", Json.mkObj [("steps", jNat steps.length), ("bad", Json.arr (distinct.extract 0 6)), ("distinct_problems", jNat distinct.size),
                               ("stopped_at_first_failing_step", Json.bool tainted),
                               ("ops", Json.arr (steps.filterMap (fun s => (s.getObjVal? "op").toOption)).toArray)])]

end Drv.C04

def main : IO Unit := Drv.run Drv.C04.handle
