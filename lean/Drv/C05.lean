import Drv.EvalCase
import Drv.C15Parse
import VrpModel.C05
open Lean Drv Route C06 C05 Drv.EvalCase

namespace Drv.C05

def fl (i : Int) : String := if i < 0 then s!"-{-i}.0" else s!"{i}.0"
def flList (l : List Int) : String := "[" ++ ", ".intercalate (l.map fl) ++ "]"
/-- `SingleDimLoad` / `MultiDimLoad` Display, inside a Debug-printed Vec<String> -/
def loadStr (dims : Nat) (v : List Int) : String :=
  if dims ≤ 1 then s!"\"{v.headD 0}\""
  else
    let padded := v ++ List.replicate (8 - v.length) 0
    "\"[" ++ ", ".intercalate (padded.map toString) ++ "]\""
def loadList (dims : Nat) (l : List (List Int)) : String := "[" ++ ", ".intercalate (l.map (loadStr dims)) ++ "]"

def lookupDem (dims : Nat) (case : Json) (id : String) : R (Option Dem) := do
  -- ids: r<ri>t<i> (tour job) or x<k> (candidate)
  let rest := String.ofList (id.toList.drop 1)
  if id.startsWith "x" then
    let k := rest.toNat!
    let cands ← arrF case "cands"
    parseDem dims (fldD (cands.getD k Json.null) "dem" Json.null)
  else
    let parts := rest.splitOn "t"
    let ri := (parts.getD 0 "0").toNat!
    let i := (parts.getD 1 "0").toNat!
    let routes ← arrF case "routes"
    let tour ← arrF (routes.getD ri Json.null) "tour"
    parseDem dims (fldD (tour.getD i Json.null) "dem" Json.null)

/-- operator histories (every shipped search operator; shared with the C04 harness): at every hand-over every cached
    value - per route with its schedule, per solution, and the fitness - equals strip-and-recompute, and no route is stale -/
def handleHistory (impl : Json) : R (List (String × Json)) := do
  match impl.getObjVal? "error" with
  | .ok e => return [("model", Json.null), ("oracle", Json.mkObj []), ("info", Json.mkObj [("skipped", e)])]
  | .error _ => pure ()
  match impl.getObjVal? "panic" with
  | .ok e => return [("model", Json.null), ("oracle", Json.mkObj [("operators_do_not_panic", Json.bool false)]),
                     ("info", Json.mkObj [("panic", e)])]
  | .error _ => pure ()
  let steps ← arrF impl "history"
  let mut okCaches := true
  let mut okStale := true
  let mut bad : Array Json := #[]
  let mut pairs := 0
  for st in steps do
    let op ← strF st "op"
    match st.getObjVal? "caches" with
    | .ok (.arr cs) =>
      for c in cs do
        pairs := pairs + 1
        match c with
        | .arr #[x, y] => if x != y then
                            okCaches := false
                            bad := bad.push (Json.str op)
        | _ => pure ()
    | _ => pure ()
    match st.getObjVal? "stale" with
    | .ok (.bool true) => okStale := false
    | _ => pure ()
  return [("model", Json.null),
          ("oracle", Json.mkObj [("operator_outputs_equal_recomputation", Json.bool okCaches),
                                 ("operator_outputs_not_stale", Json.bool okStale)]),
          ("info", Json.mkObj [("history_steps", jNat steps.length), ("cache_pairs", jNat pairs), ("bad", Json.arr (bad.extract 0 6))])]

def handle (j : Json) : R (List (String × Json)) := do
  if (fldD j "k" Json.null) == Json.str "group_refresh" then
    -- S61: the group tag of a tour is a function of the tour; it must read the same before and after a refresh of the tour's state
    let impl ← fld j "impl"
    let b ← boolF impl "refused_before_refresh"
    let a ← boolF impl "refused_after_refresh"
    return [("model", Json.mkObj [("snaps", Json.arr #[])]),
            ("oracle", Json.mkObj [("group_of_a_tour_survives_a_refresh_of_its_state", Json.bool (b && a))]),
            ("info", Json.mkObj [])]
  if (fldD j "k" Json.null) == Json.str "history" then
    return (← handleHistory (← fld j "impl"))
  let m : Mat := { n := ← natF j "n", dur := ← listF asInt j "dur", dist := ← listF asInt j "dist" }
  let obj := if (← strF j "obj") == "cost" then Objective.cost else Objective.distance
  let routes ← listF (Drv.C15Parse.parseRouteCtx m obj) j "routes"
  let impl ← fld j "impl"
  let snaps ← arrF impl "snaps"
  let mut modelSnaps : Array Json := #[]
  let mut cachesEqualRecompute := true
  let mut handoverNotStale := true
  let mut fitnessFunctionOfTours := true
  for sn in snaps do
    let sroutes ← arrF sn "routes"
    let mut mroutes : Array Json := #[]
    for sr in sroutes do
      let vid ← natF sr "vid"
      let base := routes.getD vid { m := m, veh := ⟨0, 0, 0, none⟩, cap := [], costs := ⟨0, 0, 0⟩, obj := obj, tour := [] }
      let dims := base.cap.length
      let acts ← arrF sr "acts"
      let tour ← acts.mapM (fun a => do
        let act : Act := { loc := ← natF a "loc", s := ← intF a "s", e := ← intF a "e", dur := ← intF a "dur" }
        let dem ← lookupDem dims j (← strF a "id")
        pure ({ act := act, dem := dem } : TAct))
      let c : Ctx := { base with veh := { base.veh with dep := ← intF sr "dep" }, tour := tour }
      let rcv := recompute c
      -- keys the model does not predict (a float ratio) are echoed from the implementation
      let implDigest ← arrF sr "digest"
      let echo (name : String) : String :=
        match implDigest.find? (fun p => (p.getArrVal? 0).toOption == some (Json.str name)) with
        | some p => ((p.getArrVal? 1).toOption.bind (·.getStr?.toOption)).getD ""
        | none => ""
      let digest : List (String × String) := [
        ("CurrentCapacityActivityStateKey", loadList dims rcv.cur),
        ("LatestArrivalActivityStateKey", flList rcv.latest),
        ("MaxFutureCapacityActivityStateKey", loadList dims rcv.fut),
        ("MaxPastCapacityActivityStateKey", loadList dims rcv.past),
        ("MaxVehicleLoadTourStateKey", echo "MaxVehicleLoadTourStateKey"),
        ("TotalDistanceTourStateKey", fl rcv.totalDist),
        ("TotalDurationTourStateKey", fl rcv.totalDur),
        ("WaitingTimeActivityStateKey", flList rcv.waiting)]
      mroutes := mroutes.push (Json.mkObj [("vid", jNat vid),
        ("sched", Json.arr (rcv.sched.map (fun p => Json.arr #[jInt p.1, jInt p.2])).toArray),
        ("digest", Json.arr (digest.map (fun p => Json.arr #[Json.str p.1, Json.str p.2])).toArray)])
      -- ORACLE (metamorphic, on the implementation's own values): cache == strip + recompute
      let rec_ ← fld sr "recomputed"
      if (← fld sr "digest") != (← fld rec_ "digest") || (← fld sr "sched") != (← fld rec_ "sched") then
        cachesEqualRecompute := false
      if (← strF sn "at") == "hand-over" && (← boolF sr "stale") then handoverNotStale := false
    let rec_ ← fld sn "recomputed"
    if (← fld sn "solution_digest") != (← fld rec_ "solution_digest") then cachesEqualRecompute := false
    if (← fld sn "fitness") != (← fld rec_ "fitness") then fitnessFunctionOfTours := false
    modelSnaps := modelSnaps.push (Json.mkObj [("at", ← fld sn "at"), ("routes", Json.arr mroutes)])
  return [("model", Json.mkObj [("snaps", Json.arr modelSnaps)]),
          ("oracle", Json.mkObj [("caches_equal_strip_and_recompute", Json.bool cachesEqualRecompute),
                                 ("handover_routes_not_stale", Json.bool handoverNotStale),
                                 ("fitness_function_of_tours", Json.bool fitnessFunctionOfTours)])]

end Drv.C05

def main : IO Unit := Drv.run Drv.C05.handle
