import Drv.EvalCase
import VrpModel.C06Multi
import Drv.C06Iv
open Lean Drv Route C06 Drv.EvalCase

namespace Drv.C06

def handle (j : Json) : R (List (String × Json)) := do
  let k ← strF j "k"
  if k == "iv" then return ← Drv.C06Iv.handle j
  let c ← parseCtx j
  let dims := c.cap.length
  let impl ← fld j "impl"
  let implAny ← parseImplRes (fldD impl "any" Json.null)
  let implConcrete ← listF parseImplRes impl "concrete"
  let baseOk := baseFeasible c
  if k == "single" then
    let job ← parseJob dims (← fld j "job")
    let legs := legCount c
    let sc := sched c.m.t (c.veh.full c.acts) c.veh.startLoc c.veh.dep
    let model := Json.mkObj [
      ("legs", jNat legs),
      ("any", jFound job (evalJob c job .any)),
      ("concrete", jList (fun i => jFound job (evalJob c job (.concrete i))) (List.range legs)),
      ("sched", Json.arr (#[Json.arr #[jInt c.veh.earliest, jInt c.veh.dep]] ++
                  (sc.map (fun p => Json.arr #[jInt p.1, jInt p.2])).toArray))]
    let soundOf (r : Option (List ImplAct × List Int)) : Bool := match r with
      | none => true
      | some (acts, _) => appliedFeasible c [job.dem] acts && acts.all (placeMatches job)
    let exists_ := existsFeasible c job
    let soundConcrete := (implConcrete.zipIdx).all (fun (r, i) => soundOf r && (match r with
      | some (a :: _, _) => a.idx == i
      | _ => true))
    let oracle := if baseOk then Json.mkObj [
        ("sound_any", Json.bool (soundOf implAny)),
        ("sound_concrete", Json.bool soundConcrete),
        ("complete_any", Json.bool (!exists_ || implAny.isSome))]
      else Json.mkObj []
    return [("model", model), ("oracle", oracle),
            ("info", Json.mkObj [("base_ok", Json.bool baseOk), ("exists_feasible", Json.bool exists_),
                                 ("impl_any_ok", Json.bool implAny.isSome),
                                 -- the case satisfies the hypotheses of `C06Complete.evalJob_any_complete_hyps`
                                 ("in_completeness_theorem", Json.bool (completeHyps c job))])]
  else if k == "multi" then
    let jobs ← listF (parseJob dims) j "jobs"
    let dems := jobs.map (·.dem)
    let soundOf (r : Option (List ImplAct × List Int)) : Bool := match r with
      | none => true
      | some (acts, _) =>
        appliedFeasible c dems acts &&
          ((acts.zip jobs).all (fun (a, jb) => placeMatches jb a)) &&
          -- sub-jobs in their order: insertion indices never decrease
          (acts.zip (acts.drop 1)).all (fun (a, b) => a.idx < b.idx)
    -- every step of the implementation's sequence is accepted by the MODEL's activity-level evaluation on the tour that
    -- already holds the previous steps (`C06.acceptedSeq`; `C06Multi.acceptedSeq_sound_hyps` then gives feasibility)
    let stepsOf (acts : List ImplAct) : List Step :=
      (acts.zip dems).map (fun (a, d) => { i := a.idx, x := { loc := a.loc, s := a.tw.1, e := a.tw.2, dur := a.dur }, dem := d })
    let acceptedOf (r : Option (List ImplAct × List Int)) : Bool := match r with
      | none => true
      | some (acts, _) => acceptedSeq c (stepsOf acts)
    let wfOf (r : Option (List ImplAct × List Int)) : Bool := match r with
      | none => true
      | some (acts, _) => seqWF c (stepsOf acts)
    let oracle := if baseOk then Json.mkObj [
        ("sound_any", Json.bool (soundOf implAny)),
        ("sound_concrete", Json.bool (implConcrete.all soundOf)),
        ("model_accepts_every_step", Json.bool (acceptedOf implAny && implConcrete.all acceptedOf))]
      else Json.mkObj []
    return [("model", Json.null), ("oracle", oracle),
            ("info", Json.mkObj [("base_ok", Json.bool baseOk), ("impl_any_ok", Json.bool implAny.isSome),
                                 ("in_sequence_theorem", Json.bool (baseOk && wfOf implAny && implConcrete.all wfOf))])]
  else throw s!"unknown case kind {k}"

end Drv.C06

def main : IO Unit := Drv.run Drv.C06.handle
