import Drv.EvalCase
import VrpModel.C06Iv
/-! Driver handler of the case kind `"iv"` (C06 on tours with reload markers): model results in the canonical form
    of the harness (`legs`, `any`, `concrete`, `sched`, `intervals`, `caches`, `tour_kept`) + oracles on the
    implementation's own results against the step-by-step SPEC with reload events. -/
open Lean Drv Route C06 C06Iv Drv.EvalCase

namespace Drv.C06Iv

def parseMarkers (j : Json) : R (List Bool) := do
  let items ← arrF j "tour"
  items.mapM (fun a => match a.getObjVal? "reload" with
    | .ok v => asBool v
    | .error _ => pure false)

def jLoads (ls : List (List Int)) : Json := jList (jList jInt) ls

/-- the implementation's single activity applied to the tagged tour, checked with the SPEC -/
def appliedFeasibleIv (c : CtxIv) (dem : Option Dem) (acts : List ImplAct) : Bool :=
  match acts with
  | [a] =>
    tourFeas c.base.m.t c.base.veh (insertAt c.base.acts a.idx { loc := a.loc, s := a.tw.1, e := a.tw.2, dur := a.dur }) &&
      capOkIv c.base.cap (insertAt c.tagged a.idx (false, demOr c.base.zero dem)) &&
      decide (a.idx < legCount c.base)
  | _ => false

def handle (j : Json) : R (List (String × Json)) := do
  let k ← strF j "k"
  if k != "iv" then throw s!"unknown case kind {k}"
  let base ← parseCtx j
  let markers ← parseMarkers j
  if markers.length != base.tour.length then throw "markers not aligned with the tour"
  let c : CtxIv := { base := base, markers := markers }
  let dims := base.cap.length
  let impl ← fld j "impl"
  let implAny ← parseImplRes (fldD impl "any" Json.null)
  let implConcrete ← listF parseImplRes impl "concrete"
  let job ← parseJob dims (← fld j "job")
  let legs := legCount base
  let sc := sched base.m.t (base.veh.full base.acts) base.veh.startLoc base.veh.dep
  let caches := c.caches
  let modelConcrete := (List.range legs).map (fun i => evalJobIv c job (.concrete i))
  let model := Json.mkObj [
    ("legs", jNat legs),
    ("any", jFound job (evalJobIv c job .any)),
    ("concrete", jList (jFound job) modelConcrete),
    ("sched", Json.arr (#[Json.arr #[jInt base.veh.earliest, jInt base.veh.dep]] ++
                (sc.map (fun p => Json.arr #[jInt p.1, jInt p.2])).toArray)),
    ("intervals", jList (fun (p : Nat × Nat) => Json.arr #[jNat p.1, jNat p.2]) c.intervals),
    ("caches", Json.mkObj [("cur", jLoads caches.cur), ("fut", jLoads caches.fut), ("past", jLoads caches.past)]),
    ("tour_kept", Json.bool true)]
  let baseOk := baseFeasibleIv c
  let soundOf (r : Option (List ImplAct × List Int)) : Bool := match r with
    | none => true
    | some (acts, _) => appliedFeasibleIv c job.dem acts && acts.all (placeMatches job)
  let exists_ := existsFeasibleIv c job
  let soundConcrete := (implConcrete.zipIdx).all (fun (r, i) => soundOf r && (match r with
    | some (a :: _, _) => a.idx == i
    | _ => true))
  -- per position: the SPEC allows some place/window at leg `i`
  let specAt (i : Nat) : Bool := (List.range job.places.length).any (fun pi =>
    match job.places[pi]? with
    | none => false
    | some p => p.tws.any (fun w => insertedFeasibleIv c job i pi w))
  let completeConcrete := (implConcrete.zipIdx).all (fun (r, i) => !specAt i || r.isSome)
  let oracle := if baseOk then Json.mkObj [
      ("sound_any", Json.bool (soundOf implAny)),
      ("sound_concrete", Json.bool soundConcrete),
      ("complete_any", Json.bool (!exists_ || implAny.isSome)),
      ("complete_concrete", Json.bool completeConcrete)]
    else Json.mkObj []
  -- carried load: some interval after the first one starts with a non-zero carried load
  let carried := (c.segs.drop 1).length > 0 &&
    ((List.range c.segs.length).drop 1).any (fun q =>
      -- load at the marker minus the static deliveries of its interval
      match c.intervals[q]?, c.segs[q]? with
      | some (s, _), some seg => vNotEmpty (vsub (caches.cur.getD s c.zero) (startLoad c.zero seg))
      | _, _ => false)
  let accepted := (modelConcrete.filter (·.isSome)).length
  -- capacity verdict of every leg on its own (whatever the time windows say)
  let capOkLegs := ((List.range legs).filter (fun i => (capViolationAtIv c i job.dem false).isNone)).length
  return [("model", model), ("oracle", oracle),
          ("info", Json.mkObj [("base_ok", Json.bool baseOk), ("exists_feasible", Json.bool exists_),
                               ("impl_any_ok", Json.bool implAny.isSome),
                               ("intervals", jNat c.intervals.length),
                               ("carried", Json.bool carried),
                               ("route_ok", Json.bool (evalRouteIv c job)),
                               -- the case satisfies the hypotheses of `C06Iv.evalJobIv_sound`
                               ("in_soundness_theorem", Json.bool (soundHyps c job)),
                               ("accepted", jNat accepted), ("refused", jNat (legs - accepted)),
                               ("cap_ok_legs", jNat capOkLegs), ("cap_refused_legs", jNat (legs - capOkLegs)),
                               ("spec_positions", jNat ((List.range legs).filter specAt).length)])]

end Drv.C06Iv
