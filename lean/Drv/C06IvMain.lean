import Drv.C06Iv
/-! stand-alone entry point of the `"iv"` driver: `lake env lean --run Drv/C06IvMain.lean < cases.jsonl` -/
def main : IO Unit := Drv.run Drv.C06Iv.handle
