import Drv.PragParse
open Lean Drv Prag Drv.PragParse

namespace Drv.C07

def handle (j : Json) : R (List (String × Json)) := do
  let p ← parseProblem (← fld j "sp")
  let maxGens ← natF j "max_gens"
  let impl ← fld j "impl"
  match impl.getObjVal? "error" with
  | .ok e =>
    let es := (e.getStr?.toOption).getD ""
    if es.startsWith "generated problem is invalid" then
      return [("model", Json.null), ("oracle", Json.mkObj []), ("info", Json.mkObj [("skipped", e)])]
    else
      return [("model", Json.null), ("oracle", Json.mkObj [("uninterrupted_run_returns", Json.bool false)]), ("info", Json.mkObj [("error", e)])]
  | .error _ => pure ()
  let runs ← arrF impl "runs"
  let mut bad : Array Json := #[]
  let clustered := match (fldD j "sp" Json.null).getObjVal? "clustering" with | .ok v => !v.isNull | .error _ => false
  let mut returned := true
  let mut valid := true
  let mut gensOk := true
  let mut inexact := 0
  for r in runs do
    let k ← natF r "k"
    match r.getObjVal? "error" with
    | .ok e =>
      returned := false
      bad := bad.push (Json.mkObj [("k", jNat k), ("error", e)])
    | .error _ =>
      match (optF asNat r "gens") with
      | .ok (some g) => if g > maxGens then
                          gensOk := false
                          bad := bad.push (Json.mkObj [("k", jNat k), ("generations", jNat g)])
      | _ => pure ()
      match parseSolution (← fld r "solution") with
      | .error _ => inexact := inexact + 1
      | .ok s =>
        -- vicinity clustering (commute, parking) is outside the feasibility / replay specifications: partition only
        let errs := if clustered then Spec.partition p s else Spec.feasible p s ++ Spec.partition p s ++ Spec.replay p s
        if !errs.isEmpty then
          valid := false
          bad := bad.push (Json.mkObj [("k", jNat k), ("violations", Json.arr (errs.take 4 |>.map Json.str).toArray)])
  return [("model", Json.null),
          ("oracle", Json.mkObj [("every_interruption_returns_ok", Json.bool returned),
                                 ("every_returned_solution_is_valid", Json.bool valid),
                                 ("generations_within_maximum", Json.bool gensOk)]),
          ("info", Json.mkObj [("runs", jNat runs.length), ("bad", Json.arr (bad.extract 0 5)), ("inexact", jNat inexact),
                               ("total_polls", fldD impl "total_polls" Json.null), ("exhaustive", fldD impl "exhaustive" Json.null)])]

end Drv.C07

def main : IO Unit := Drv.run Drv.C07.handle
