import Drv.Common
import VrpModel.C08
open Lean Drv C08

namespace Drv.C08

/-! JSON glue for C08: a case is a population configuration and an operation sequence; `impl` is what the
    real population showed after each operation. The model's trace has the same shape; the oracle is the
    specification `traceOK` (and its components) evaluated on the implementation's trace. -/

def parseInd (j : Json) : R Ind := do
  match (← asArr j).toList with
  | [i, f, w] => return ⟨← asNat i, ← asInt f, ← asInt w⟩
  | _ => throw "bad individual"

def jInd (x : Ind) : Json := Json.arr #[jNat x.id, jInt x.fit, jInt x.w]

def parseSpeed (j : Json) : R Speed := do
  match (← asArr j).toList with
  | [k] =>
    let s ← asStr k
    if s == "u" then pure .unknown else if s == "m" then pure .moderate else throw s!"bad speed {s}"
  | [_, r] => return .slow (← asNat r)
  | _ => throw "bad speed"

def emptyTape : Tape Ind := ⟨[], 1, []⟩

def parseOp (j : Json) : R (Op Ind) := do
  let o ← strF j "o"
  if o == "add" then return .add (← parseInd (← fld j "x"))
  else if o == "add_all" then return .addAll (← listF parseInd j "xs")
  else if o == "gen" then return .gen ⟨← parseSpeed (← fld j "sp"), ← natF j "te"⟩
  else if o == "select" then return .select emptyTape
  else throw s!"unknown op {o}"

def phaseOfNat : Nat → Phase
  | 0 => .initial
  | 1 => .exploration
  | _ => .exploitation

def cfgOf (le fitEq same : Ind → Ind → Bool) (cap sel : Nat) : Cfg Ind := ⟨le, fitEq, same, cap, sel⟩

def dedupOf (name : String) : R (Ind → Ind → Bool) :=
  if name == "default" then pure Ind.sameDefault
  else if name == "never" then pure (fun _ _ => false)
  else if name == "fit" then pure Ind.fitEq
  else if name == "w" then pure (fun a b => a.w == b.w)
  else if name == "ros10" then pure (Ind.sameRosomaxa 10)
  else throw s!"unknown dedup {name}"

/-- which part of the model's answer to `select()` is determined without the random tape -/
inductive SelMask where
  | exact      -- the returned list itself
  | firstCount -- first element and length
  | firstOnly  -- first element

structure Pop (σ : Type) where
  m : Machine σ Ind
  init : σ
  /-- the (full-strength) specification: every element of a batch counts as offered -/
  spec : Spec Ind
  offered0 : List Ind
  /-- a tape with which the model's `select` has the deterministic length -/
  tape : σ → Tape Ind
  mask : σ → SelMask

def greedyPop (cfg : Json) : R (Pop (Option Ind)) := do
  let sel ← natF cfg "sel"
  let init ← optF parseInd cfg "init"
  let c := cfgOf Ind.le Ind.fitEq (fun _ _ => false) 1 sel
  let sc := Greedy.repoShortCircuits
  return { m := greedyM sc c, init := init,
           spec := greedySpec false c,
           offered0 := init.toList, tape := fun _ => emptyTape, mask := fun _ => .exact }

def elitismPop (cfg : Json) : R (Pop (ElState Ind)) := do
  let sel ← natF cfg "sel"
  let cap ← natF cfg "max"
  let same ← dedupOf (← strF cfg "dedup")
  let c := cfgOf Ind.le Ind.fitEq same cap sel
  return { m := elitismM c, init := ElState.empty,
           spec := elitismSpec c, offered0 := [],
           tape := fun s => ⟨List.replicate (Elitism.selectionSize c s) 0, 1, []⟩, mask := fun _ => .firstCount }

def rosomaxaPop (cfg : Json) : R (Pop (RState Ind)) := do
  let sel ← natF cfg "sel"
  let cap ← natF cfg "elite"
  let c := cfgOf Ind.le Ind.fitEq (Ind.sameRosomaxa 50) cap sel
  let rc : RCfg := ⟨← natF cfg "initial", ← natF cfg "er"⟩
  return { m := rosomaxaM c rc, init := RState.empty,
           spec := rosomaxaSpec c, offered0 := [],
           tape := fun _ => ⟨List.replicate sel 0, 1, []⟩,
           mask := fun s => match s.phase with
             | .initial => .exact
             | .exploration => .firstOnly
             | .exploitation => .firstCount }

def jSel (mask : SelMask) (l : List Ind) : Json :=
  let first := jOpt (fun (x : Ind) => jNat x.id) l.head?
  match mask with
  | .exact => Json.mkObj [("first", first), ("n", jNat l.length), ("ids", jList (fun (x : Ind) => jNat x.id) l)]
  | .firstCount => Json.mkObj [("first", first), ("n", jNat l.length), ("ids", Json.null)]
  | .firstOnly => Json.mkObj [("first", first), ("n", Json.null), ("ids", Json.null)]

def jObs (o : Obs Ind) (mask : SelMask) : Json :=
  Json.mkObj [("ret", jOpt Json.bool o.ret), ("ranked", jList jInd o.ranked), ("size", jNat o.size),
              ("phase", jNat o.phase.rank), ("sel", jOpt (jSel mask) o.sel)]

/-- the model's trace as JSON (select operations get the population's deterministic tape) -/
def modelTrace {σ : Type} (p : Pop σ) : σ → List (Op Ind) → List Json
  | _, [] => []
  | s, op :: ops =>
    let op' := match op with
      | .select _ => Op.select (p.tape s)
      | o => o
    let r := p.m.step s op'
    jObs r.2 (p.mask s) :: modelTrace p r.1 ops

/-- an individual returned by `select()` is reported by id; it is looked up among the offered ones
    (an unknown id becomes an individual nobody offered) -/
def lookup (offered : List Ind) (id : Nat) : Ind :=
  match offered.find? (fun x => x.id == id) with
  | some x => x
  | none => ⟨id, 0, 0⟩

def parseObs (offered : List Ind) (j : Json) : R (Obs Ind) := do
  let ret ← optF asBool j "ret"
  let ranked ← listF parseInd j "ranked"
  let size ← natF j "size"
  let phase ← natF j "phase"
  let selJ := fldD j "sel" Json.null
  let sel ← if selJ.isNull then pure none else do
    let ids ← listF asNat selJ "ids"
    pure (some (ids.map (lookup offered)))
  return ⟨ret, ranked, size, phaseOfNat phase, sel⟩

def opInds : Op Ind → List Ind
  | .add x => [x]
  | .addAll xs => xs
  | _ => []

/-- per-component verdicts over a trace (same threading as `traceOK`) -/
def components (sp : Spec Ind) : List Ind → List Ind → Phase → List (Op Ind × Obs Ind) → List (String × Bool)
    → List (String × Bool)
  | _, _, _, [], acc => acc
  | offered, prevRanked, prevPhase, (op, o) :: rest, acc =>
    let offered' := offered ++ sp.offeredBy prevRanked.head? op
    let now : List (String × Bool) :=
      [("head_is_best_of_offered", headBest sp.le offered' o.ranked), ("ranked_sorted", pairwiseB sp.le o.ranked),
       ("size_within_bound", sizeOK sp o), ("ranked_are_offered", rankedOffered offered' o),
       ("return_value_iff_improved", retOK sp prevRanked op o), ("tick_and_select_keep_ranking", frameOK prevRanked op o),
       ("select_offered_nonempty_best_first", selOK sp offered' op o), ("phase_forward", phaseOK prevPhase o)]
    components sp offered' o.ranked o.phase rest (List.zipWith (fun a b => (a.1, a.2 && b.2)) acc now)

def componentNames : List String :=
  ["head_is_best_of_offered", "ranked_sorted", "size_within_bound", "ranked_are_offered", "return_value_iff_improved",
   "tick_and_select_keep_ranking", "select_offered_nonempty_best_first", "phase_forward"]

def runPop {σ : Type} (p : Pop σ) (j : Json) : R (List (String × Json)) := do
  let ops ← listF parseOp j "ops"
  let implJ ← fld j "impl"
  let model := Json.arr (modelTrace p p.init ops).toArray
  -- the implementation's trace, parsed for the specification
  let allOffered := p.offered0 ++ ops.flatMap opInds
  let implObs ← match implJ with
    | Json.arr a => a.toList.mapM (parseObs allOffered)
    | _ => pure []   -- a panic object: no trace (the comparator reports the panic)
  let trace := List.zip ops implObs
  let complete := decide (trace.length = ops.length)
  let prevPhase := p.m.phase p.init
  -- ORACLE: the full-strength specification on the implementation's trace (for Greedy too: the best known is no
  -- worse than EVERY element of every batch — a short-circuiting `add_all` fails here)
  let whole := traceOK p.spec p.offered0 p.offered0 prevPhase trace
  let comps := components p.spec p.offered0 p.offered0 prevPhase trace (componentNames.map (fun n => (n, true)))
  return [("model", model),
          ("oracle", Json.mkObj ((("trace_complete", Json.bool complete) :: ("spec_trace_ok", Json.bool whole)
            :: comps.map (fun c => (c.1, Json.bool c.2)))))]

/-! whole runs of the evolution loop: the tape (what was handed to the population) comes from the run -/

def runSolve {σ : Type} (p : Pop σ) (j : Json) : R (List (String × Json)) := do
  let implJ ← fld j "impl"
  match implJ.getObjVal? "tape" with
  | .error _ => return [("model", Json.null), ("oracle", Json.mkObj [("trace_complete", Json.bool false)])]
  | .ok tapeJ =>
    let singles ← listF parseInd tapeJ "singles"
    let batches ← listF (listOf parseInd) tapeJ "batches"
    let heads ← listF (optOf parseInd) implJ "heads"
    let res ← listF parseInd implJ "res"
    -- MODEL: on_initial = add, on_generation = add_all + on_generation(statistics)
    let s0 := p.m.run p.init (singles.map Op.add)
    let dummy : Stats := ⟨.unknown, 0⟩
    let rec go (s : σ) : List (List Ind) → List Json × σ
      | [] => ([], s)
      | b :: bs =>
        let h := jOpt jInd (p.m.ranked s).head?
        let s' := p.m.run s [Op.addAll b, Op.gen dummy]
        let r := go s' bs
        (h :: r.1, r.2)
    let r := go s0 batches
    let model := Json.mkObj [("heads", Json.arr r.1.toArray), ("res", jList jInd ((p.m.ranked r.2).take 1))]
    -- SPEC on the implementation's observations (full strength: whole batches count as offered)
    let offered0 := p.offered0 ++ singles
    let rec chk (offered : List Ind) : List (Option Ind) → List (List Ind) → Bool × List Ind
      | h :: hs, b :: bs =>
        let ok := headBest p.spec.le offered h.toList
        let r := chk (offered ++ p.spec.eff h b) hs bs
        (ok && r.1, r.2)
      | _, _ => (true, offered)
    let c := chk offered0 heads batches
    let resOK := headBest p.spec.le c.2 res && pairwiseB p.spec.le res
    return [("model", model),
            ("oracle", Json.mkObj [("trace_complete", Json.bool (heads.length == batches.length)),
                                   ("best_known_before_each_generation", Json.bool c.1),
                                   ("result_is_best_of_everything_offered", Json.bool resOK)])]

/-- the VRP solver seeded with a feasible initial solution (trace only: nothing for the model to predict);
    `cmp` = `goal.total_order(result, initial)` computed by the real objective -/
def runVrp (j : Json) : R (List (String × Json)) := do
  let implJ ← fld j "impl"
  match implJ.getObjVal? "cmp" with
  | .error _ => return [("model", Json.null), ("oracle", Json.mkObj [("trace_complete", Json.bool false)])]
  | .ok c =>
    let cmp ← asInt c
    -- against the solution as it was written by the first solve (the file the user seeds with) and as it was read back
    let cmpW ← match implJ.getObjVal? "cmp_written" with | .ok v => asInt v | .error _ => pure cmp
    let rw ← match implJ.getObjVal? "read_vs_written" with | .ok v => asInt v | .error _ => pure 0
    return [("model", Json.null),
            ("oracle", Json.mkObj [("trace_complete", Json.bool true),
                                   ("seeded_result_not_worse_than_initial", Json.bool (decide (cmp ≤ 0))),
                                   ("seeded_result_not_worse_than_the_written_solution", Json.bool (decide (cmpW ≤ 0))),
                                   ("solution_read_back_not_worse_than_written", Json.bool (decide (rw ≤ 0)))])]

def handle (j : Json) : R (List (String × Json)) := do
  let k ← strF j "k"
  if k == "vrp" then return ← runVrp j
  let cfg ← fld j "cfg"
  if k == "greedy" then runPop (← greedyPop cfg) j
  else if k == "elitism" then runPop (← elitismPop cfg) j
  else if k == "rosomaxa" then runPop (← rosomaxaPop cfg) j
  else if k == "solve" then
    let pop ← strF j "pop"
    if pop == "greedy" then runSolve (← greedyPop cfg) j
    else if pop == "elitism" then runSolve (← elitismPop cfg) j
    else if pop == "rosomaxa" then runSolve (← rosomaxaPop cfg) j
    else throw s!"unknown population {pop}"
  else throw s!"unknown case kind {k}"

end Drv.C08

def main : IO Unit := Drv.run Drv.C08.handle
