import Drv.Common
import VrpModel.C09
open Lean Drv C09

namespace Drv.C09

def parseKind (j : Json) : R LayerKind := do
  let s ← asStr j
  if s == "s" then pure .single else if s == "m" then pure .multi else throw s!"bad layer kind {s}"

/-- pairwise comparison matrix of the given vectors under `cmp` -/
def matrix (cmp : α → α → Ordering) (vs : List α) : Json :=
  jList (fun a => jList (fun b => jOrd (cmp a b)) vs) vs

def parseMatrix (j : Json) : R (List (List Ordering)) := listOf (listOf ordOf) j

def isLe (o : Ordering) : Bool := o != .gt

def get2 (m : List (List Ordering)) (i k : Nat) : Ordering := (m.getD i []).getD k .eq

/-- order laws evaluated on the IMPLEMENTATION's own comparison matrix -/
def lawsOn (m : List (List Ordering)) (needTrans : Bool) : List (String × Json) :=
  let n := m.length
  let idx := List.range n
  let refl := idx.all (fun i => get2 m i i == .eq)
  let anti := idx.all (fun i => idx.all (fun k => get2 m k i == (get2 m i k).swap))
  let trans := !needTrans || idx.all (fun i => idx.all (fun k => idx.all (fun l =>
    !(isLe (get2 m i k) && isLe (get2 m k l)) || isLe (get2 m i l))))
  [("refl", Json.bool refl), ("antisymm", Json.bool anti), ("trans", Json.bool trans)]

def handle (j : Json) : R (List (String × Json)) := do
  let k ← strF j "k"
  if k == "goal" then
    -- kinds: per layer "s" | "m"; vecs: per solution, per layer, the fitness bit patterns
    let kinds ← listF parseKind j "kinds"
    let vecs ← listF (listOf (listOf asU64)) j "vecs"
    let cmp (a b : List (List UInt64)) : Ordering :=
      goalCmp (List.zipWith (fun kd (p : List UInt64 × List UInt64) => ⟨kd, p.1, p.2⟩) kinds (List.zip a b))
    let allSingle := kinds.all (· == .single)
    let impl ← parseMatrix (← fld j "impl")
    -- for single-layer goals also evaluate the vector form used by the theorems
    let flat (a : List (List UInt64)) : List UInt64 := a.map (fun l => l.headD 0)
    let lexAgree := !allSingle ||
      vecs.all (fun a => vecs.all (fun b => cmp a b == singleGoalCmp (flat a) (flat b)))
    -- SPEC on the implementation's matrix: single-layer goals = lexicographic order, ±0 identified
    let idx := List.range vecs.length
    let specOk := !allSingle || idx.all (fun i => idx.all (fun k2 =>
      get2 impl i k2 == goalSpec (flat (vecs.getD i [])) (flat (vecs.getD k2 []))))
    return [("model", matrix cmp vecs),
            ("oracle", Json.mkObj (lawsOn impl allSingle ++
              [("model_forms_agree", Json.bool lexAgree), ("lex_with_zeros_identified", Json.bool specOk)]))]
  else if k == "realgoal" then
    -- a real pragmatic goal (single-objective layers) on real solutions: the matrix the implementation reports must be the
    -- lexicographic comparison of the fitness vectors it reports, the laws hold of it, and neither changed on re-evaluation
    let impl ← fld j "impl"
    match impl.getObjVal? "error" with
    | .ok _ => return [("model", impl), ("oracle", Json.mkObj []), ("info", Json.mkObj [("no_solution", Json.bool true)])]
    | .error _ => pure ()
    let fits ← listF (listOf asU64) impl "fits"
    let m ← parseMatrix (← fld impl "m")
    let stable ← boolF impl "stable"
    let idx := List.range fits.length
    let specOk := idx.all (fun i => idx.all (fun k2 => get2 m i k2 == goalSpec (fits.getD i []) (fits.getD k2 [])))
    let modelM := matrix singleGoalCmp fits
    return [("model", Json.mkObj [("fits", fldD impl "fits" Json.null), ("m", modelM), ("stable", Json.bool true),
                                  ("unassigned", fldD impl "unassigned" Json.null)]),
            ("oracle", Json.mkObj (lawsOn m true ++
              [("lex_with_zeros_identified", Json.bool specOk), ("fitness_and_comparison_do_not_change_on_re_evaluation", Json.bool stable)]))]
  else if k == "dom" then
    let os ← listF ordOf j "os"
    return [("model", jOrd (domOrder os)), ("oracle", Json.mkObj [])]
  else if k == "icmp" then
    let vecs ← listF (listOf asU64) j "vecs"
    let impl ← parseMatrix (← fld j "impl")
    let idx := List.range vecs.length
    let specOk := idx.all (fun i => idx.all (fun k2 =>
      get2 impl i k2 == icostSpec (vecs.getD i []) (vecs.getD k2 [])))
    return [("model", matrix icmp vecs),
            ("oracle", Json.mkObj (lawsOn impl true ++ [("lex_zero_padded", Json.bool specOk)]))]
  else if k == "iarith" then
    let x ← listF asInt j "x"
    let y ← listF asInt j "y"
    let impl ← fld j "impl"
    -- the law on the implementation's own numbers: ((x+y)-y) compares equal to x, ((x-y)+y) too
    let aImpl ← listF asInt impl "add_sub"
    let sImpl ← listF asInt impl "sub_add"
    let law := icmpI aImpl x == .eq && icmpI sImpl x == .eq
    return [("model", Json.mkObj [
              ("add", jList jInt (iadd x y)), ("sub", jList jInt (isub x y)),
              ("add_sub", jList jInt (isub (iadd x y) y)), ("sub_add", jList jInt (iadd (isub x y) y)),
              ("cmp", jOrd (icmpI x y))]),
            ("oracle", Json.mkObj [("inverse", Json.bool law)])]
  else throw s!"unknown case kind {k}"

end Drv.C09

def main : IO Unit := Drv.run Drv.C09.handle
