import Drv.Common
import VrpModel.C10
open Lean Drv C10

/-! JSON-lines driver of C10: parses the simplified document of a case (same shape the Rust harness
renders into the repository's structs), runs the model of validation and evaluates the documented
rules (`Rules.violates`) against the codes the implementation reported. Glue only. -/
namespace Drv.C10

def isNullF (j : Json) (k : String) : Bool := (fldD j k Json.null).isNull

def parseTm (j : Json) : R Tm :=
  match j.getInt? with
  | .ok t => pure (.at t)
  | .error _ => pure .bad

def parseLoc (j : Json) : R Loc := do
  match j.getObjVal? "i" with
  | .ok v => return .idx (← asNat v)
  | .error _ =>
    let c ← arrF j "c"
    match c with
    | [a, b] => return .coord (← asInt a) (← asInt b)
    | _ => throw "bad coordinate"

def parseTimes (j : Json) : R (Option (List (List Tm))) := optOf (listOf (listOf parseTm)) j

def parsePlace (j : Json) : R Place := do
  return { loc := ← parseLoc (← fld j "loc"), dur := ← intF j "dur", times := ← parseTimes (fldD j "times" Json.null) }

def parseTask (j : Json) : R Task := do
  return { places := ← listF parsePlace j "places",
           demand := ← optF (listOf asInt) j "demand",
           order := ← optF asInt j "order" }

def parseJob (j : Json) : R Job := do
  return { id := ← strF j "id",
           pickups := ← optF (listOf parseTask) j "p",
           deliveries := ← optF (listOf parseTask) j "d",
           replacements := ← optF (listOf parseTask) j "r",
           services := ← optF (listOf parseTask) j "s",
           value2 := ← optF asInt j "value2" }

def parseRel (j : Json) : R Rel := do
  let t ← strF j "type"
  let ty ← if t == "any" then pure RelType.any else if t == "sequence" then pure RelType.sequence
           else if t == "strict" then pure RelType.strict else throw s!"bad relation type {t}"
  return { type := ty, jobs := ← listF asStr j "jobs", vehicle := ← strF j "vehicle", shift := ← optF asNat j "shift" }

def parseBreakLocs (j : Json) : R (List (Option Loc)) := do
  (← arrF j "places").mapM (fun p => optF parseLoc p "loc")

def parseBreak (j : Json) : R Break := do
  let k ← strF j "kind"
  if k == "otw" then return .optTw (← listF parseTm j "tw") (← parseBreakLocs j)
  else if k == "ooff" then return .optOff (← listF asInt j "off") (← parseBreakLocs j)
  else if k == "rex" then return .reqExact (← parseTm (← fld j "e")) (← parseTm (← fld j "l")) (← intF j "dur")
  else if k == "roff" then return .reqOff (← intF j "e") (← intF j "l") (← intF j "dur")
  else throw s!"bad break kind {k}"

def parseReload (j : Json) : R Reload := do
  return { loc := ← parseLoc (← fld j "loc"), times := ← parseTimes (fldD j "times" Json.null), res := ← optF asStr j "res" }

def parseShift (j : Json) : R Shift := do
  let st ← fld j "start"
  let en := fldD j "end" Json.null
  let end_ ← if en.isNull then pure none else do
    pure (some { earliest := ← optF parseTm en "e", latest := ← parseTm (← fld en "l"), loc := ← parseLoc (← fld en "loc") : ShiftEnd })
  let rc := fldD j "recharges" Json.null
  let recharges ← if rc.isNull then pure none else some <$> listF parsePlace rc "stations"
  return { startE := ← parseTm (← fld st "e"), startL := ← optF parseTm st "l", startLoc := ← parseLoc (← fld st "loc"),
           end_ := end_, breaks := ← optF (listOf parseBreak) j "breaks",
           reloads := ← optF (listOf parseReload) j "reloads", recharges := recharges }

def parseVeh (j : Json) : R Veh := do
  return { typeId := ← strF j "type", ids := ← listF asStr j "ids", profile := ← strF j "profile",
           costDist := ← intF j "cdist", costTime := ← intF j "ctime",
           shifts := ← listF parseShift j "shifts", cap := ← listF asInt j "cap" }

def parseKind (s : String) : R ObjKind :=
  match s with
  | "minimize-cost" => pure .minCost | "minimize-distance" => pure .minDistance
  | "minimize-duration" => pure .minDuration | "minimize-tours" => pure .minTours
  | "maximize-tours" => pure .maxTours | "maximize-value" => pure .maxValue
  | "minimize-unassigned" => pure .minUnassigned | "minimize-arrival-time" => pure .minArrival
  | "balance-max-load" => pure .balLoad | "balance-activities" => pure .balActivities
  | "balance-distance" => pure .balDistance | "balance-duration" => pure .balDuration
  | "compact-tour" => pure .compactTour | "tour-order" => pure .tourOrder
  | "fast-service" => pure .fastService | "hierarchical-areas" => pure .hierAreas
  | _ => throw s!"bad objective {s}"

def parseObj (j : Json) : R Obj := do
  let t ← strF j "t"
  if t == "multi-objective" then
    let inner ← (← arrF j "os").mapM (fun o => do parseKind (← strF o "t"))
    return .multi inner
  else return .leaf (← parseKind t)

def parseMat (j : Json) : R Mat := do
  return { profile := ← optF asStr j "profile", ts := ← optF parseTm j "ts", tt := ← natF j "tt", dist := ← natF j "dist" }

def parseDoc (j : Json) : R Doc := do
  let profs ← arrF j "profiles"
  return { jobs := ← listF parseJob j "jobs",
           relations := ← optF (listOf parseRel) j "relations",
           clustering := ← optF asStr j "clustering",
           vehicles := ← listF parseVeh j "vehicles",
           profiles := ← profs.mapM (fun p => strF p "name"),
           resources := ← optF (listOf (fun r => do
              return { id := ← strF r "id", cap := ← listF asInt r "cap" : Resource })) j "resources",
           objectives := ← optF (listOf parseObj) j "objectives",
           matrices := ← listF parseMat j "matrices" }

/-- `map_to_problem_with_approx`: matrices synthesised from coordinates (one per profile, one row per
    distinct location) unless indices are used, there is no profile, or a speed is not positive -/
def approxMatrices (d : Doc) (speedsOk : Bool) : List Mat :=
  if Validate.hasIndices d || d.profiles.isEmpty || !speedsOk then []
  else
    let n := (Validate.coordKeys d).length
    d.profiles.map (fun p => { profile := some p, ts := none, tt := n * n, dist := n * n })

def handle (j : Json) : R (List (String × Json)) := do
  let k ← strF j "k"
  if k != "doc" then throw s!"unknown case kind {k}"
  let dj ← fld j "doc"
  let d0 ← parseDoc dj
  let entry := (fldD j "entry" (Json.str "str")).getStr?.toOption.getD "str"
  let d ← if entry == "approx" then do
      let profs ← arrF dj "profiles"
      let speedsOk := profs.all (fun p => match (fldD p "speed" Json.null).getInt? with
        | .ok s => decide (0 < s)
        | .error _ => true)
      pure { d0 with matrices := approxMatrices d0 speedsOk }
    else pure d0
  let modelCodes := (Validate.run d).map Rule.code
  let violated := (Rule.all.filter (Rules.violates d)).map Rule.code
  let impl ← fld j "impl"
  let sorted (l : List String) : List String := (l.toArray.qsort (· < ·)).toList
  let oracle : List (String × Json) :=
    match impl.getObjVal? "codes" with
    | .ok cs =>
      match listOf asStr cs with
      | .ok implCodes =>
        [("sound", Json.bool (implCodes.all (fun c => violated.contains c))),
         ("complete", Json.bool (violated.all (fun c => implCodes.contains c))),
         ("codes_unique", Json.bool (Rules.nodupB implCodes))]
      | .error _ => [("well_formed_output", Json.bool false)]
    | .error _ => [("no_panic", Json.bool false)]
  return [("model", Json.mkObj [("codes", jList Json.str (sorted modelCodes))]),
          ("oracle", Json.mkObj oracle),
          ("violated", jList Json.str (sorted violated)),
          ("mapper_safe", Json.bool (Mapper.mapperSafe d))]

end Drv.C10

def main : IO Unit := Drv.run Drv.C10.handle
