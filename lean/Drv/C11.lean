import Drv.Common
import VrpModel.C11
import VrpModel.C11Init
import VrpModel.C11Csv
import VrpModel.Generated.C11Schema
open Lean Drv

namespace Drv.C11
open _root_.C11

/-! ## neutral JSON form ⇄ model `Json` (glue) -/

partial def njOf (j : Lean.Json) : R C11.Json :=
  match j with
  | .null => pure .null
  | .bool b => pure (.bool b)
  | .num n => if n.exponent = 0 then pure (.int n.mantissa) else throw "non-integer number in neutral form"
  | .str s => pure (.str s)
  | .arr xs => do pure (.arr (← xs.toList.mapM njOf))
  | .obj _ =>
    match j.getObjVal? "f" with
    | .ok b => do pure (.flt (← asNat b))
    | .error _ => do
      let kvs ← arrF j "o"
      let ps ← kvs.mapM (fun kv => do
        let a ← asArr kv
        if a.size != 2 then throw "bad key/value pair"
        let k ← asStr a[0]!
        let v ← njOf a[1]!
        pure (k, v))
      pure (.obj ps)

partial def njTo : C11.Json → Lean.Json
  | .null => .null
  | .bool b => .bool b
  | .int i => jInt i
  | .flt q => Lean.Json.mkObj [("f", jNat q)]
  | .str s => .str s
  | .arr xs => .arr (xs.map njTo).toArray
  | .obj kvs => Lean.Json.mkObj [("o", .arr (kvs.map (fun kv => Lean.Json.arr #[.str kv.1, njTo kv.2])).toArray)]

/-- structural equality with float tokens allowed to differ by one unit in the last place -/
partial def near : C11.Json → C11.Json → Bool
  | .flt a, .flt b => a == b || a + 1 == b || b + 1 == a
  | .arr xs, .arr ys => xs.length == ys.length && (List.zip xs ys).all (fun p => near p.1 p.2)
  | .obj xs, .obj ys => xs.length == ys.length && (List.zip xs ys).all (fun p => p.1.1 == p.2.1 && near p.1.2 p.2.2)
  | a, b => a == b

def fuel : Nat := 400

def env : Env := envOf Generated.defs

/-- model of deserialise + serialise: `none` = the parser rejects -/
def reser (root : String) (j : C11.Json) : Option C11.Json :=
  match decode env fuel (.ref root) j with
  | some w => encode env fuel (.ref root) w
  | none => none

def part1 (j : Lean.Json) (k : String) : R (List (String × Lean.Json)) := do
  let root ← strF j "root"
  let doc ← njOf (← fld j "doc")
  let impl ← fld j "impl"
  let implOk := (fldD impl "ok" (.bool false)) == .bool true
  let implIdem := (fldD impl "idem" (.bool false)) == .bool true
  let implReser ← optF njOf impl "reser"
  let m := reser root doc
  let mIdem := match m with
    | some r => reser root r == some r
    | none => true
  let model := Lean.Json.mkObj [("ok", .bool m.isSome), ("reser", jOpt njTo m), ("idem", .bool mIdem)]
  -- the specification, evaluated on what the REAL code returned
  let oracle : List (String × Lean.Json) ←
    if k == "rt" then
      pure [("reparse_ok", .bool implOk),
            ("reserialised_equal", .bool (implReser == some doc)),
            ("parsed_value_equals_written_value", .bool ((fldD impl "value_ok" (.bool false)) == .bool true)),
            ("idempotent", .bool implIdem)]
    else if k == "fbits" then
      pure [("reparse_ok", .bool implOk),
            ("reserialised_within_1ulp", .bool (match implReser with | some r => near r doc | none => false))]
    else do
      let expect ← strF j "expect"
      let orig ← njOf (← fld j "orig")
      let met :=
        if expect == "same" then implOk && implReser == some orig
        else if expect == "reject" then !implOk
        else true
      pure [("expectation_met", .bool met), ("idempotent", .bool implIdem)]
  return [("model", model), ("oracle", Lean.Json.mkObj oracle)]


/-! ## part 2: initial-solution round trip -/
section Init
open C11.Init

def parseSpans (tws : List Lean.Json) : R (List Span) := do
  if tws.isEmpty then pure [{ offset := false, s := 0, e := tmax }]
  else tws.mapM (fun tw => do
    let a ← asArr tw
    if a.size != 2 then throw "bad window"
    pure { offset := false, s := (← asInt a[0]!), e := (← asInt a[1]!) })

def parsePlace (j : Lean.Json) : R Place := do
  pure { loc := some (← natF j "loc"), dur := (← intF j "dur"), spans := (← parseSpans (← arrF j "tws")),
         tag := (← optF asStr j "tag") }

/-- the job index the pragmatic reader builds for a pragen problem: customer jobs (singles in the order
    pickups, deliveries, replacements, services) and the vehicle-bound break / reload jobs -/
def parseProblem (sp : Lean.Json) : R Problem := do
  let jobs ← arrF sp "jobs"
  let cust ← jobs.mapM (fun j => do
    let tasks ← arrF j "tasks"
    let singles ← ["pickup", "delivery", "replacement", "service"].flatMapM (fun kind => do
      let ts ← tasks.filterM (fun t => do pure ((← strF t "kind") == kind))
      ts.mapM (fun t => do pure ({ places := (← (← arrF t "places").mapM parsePlace) } : Single)))
    pure ({ id := (← strF j "id"), singles := singles, bound := false } : JobDef))
  let vehicles ← arrF sp "vehicles"
  let bound ← vehicles.flatMapM (fun v => do
    let ids ← listF asStr v "ids"
    let shifts ← arrF v "shifts"
    (shifts.zipIdx).flatMapM (fun (sh, si) => do
      let breaks ← arrF sh "breaks"
      let reloads ← arrF sh "reloads"
      let bjobs ← (breaks.zipIdx).flatMapM (fun (b, bi) => do
        let off ← boolF b "offset"
        let tm ← asArr (← fld b "time")
        let span : Span := { offset := off, s := (← asInt tm[0]!), e := (← asInt tm[1]!) }
        let places ← (← arrF b "places").mapM (fun p => do
          pure ({ loc := (← optF asNat p "loc"), dur := (← intF p "dur"), spans := [span], tag := (← optF asStr p "tag") } : Place))
        pure (ids.map (fun vid => ({ id := s!"{vid}_break_{si}_{bi+1}", singles := [{ places := places }], bound := true } : JobDef))))
      let rjobs ← (reloads.zipIdx).flatMapM (fun (r, ri) => do
        let pl ← parsePlace r
        pure (ids.map (fun vid => ({ id := s!"{vid}_reload_{si}_{ri+1}", singles := [{ places := [pl] }], bound := true } : JobDef))))
      pure (bjobs ++ rjobs)))
  pure { jobs := cust ++ bound }

def parseAct (j : Lean.Json) : R Act := do
  pure { job := (← strF j "job"), kind := (← strF j "kind"), task := (← natF j "task"), place := (← natF j "place"),
         loc := (← natF j "loc"), arr := (← intF j "arr"), dep := (← intF j "dep"), tws := (← intF j "tws"),
         dur := (← intF j "dur") }

def parseTour (j : Lean.Json) : R Tour := do
  pure { vehicle := (← strF j "vehicle"), shift := (← natF j "shift"), acts := (← listF parseAct j "acts") }

def parseRTour (j : Lean.Json) : R RTour := do
  pure { vehicle := (← strF j "vehicle"), shift := (← natF j "shift"),
         acts := (← listF (fun a => do
           pure ({ job := (← strF a "job"), task := (← natF a "task"), place := (← natF a "place"), loc := (← natF a "loc") } : RAct)) j "acts") }

def jWAct (w : WAct) : Lean.Json := Lean.Json.mkObj [
  ("jobId", .str w.jobId), ("type", .str w.kind), ("loc", jOpt jNat w.loc),
  ("time", jOpt (fun p => Lean.Json.arr #[jInt p.1, jInt p.2]) w.time), ("tag", jOpt Lean.Json.str w.tag)]

def jWTour (t : WTour) : Lean.Json := Lean.Json.mkObj [
  ("vehicle", .str t.vehicle), ("shift", jNat t.shift),
  ("stops", jList (fun s => Lean.Json.mkObj [("loc", jNat s.loc), ("arrival", jInt s.arrival),
      ("departure", jInt s.departure), ("acts", jList jWAct s.acts)]) t.stops)]

def jRTour (t : RTour) : Lean.Json := Lean.Json.mkObj [
  ("vehicle", .str t.vehicle), ("shift", jNat t.shift),
  ("acts", jList (fun a => Lean.Json.mkObj [("job", .str a.job), ("task", jNat a.task), ("place", jNat a.place),
      ("loc", jNat a.loc)]) t.acts)]

def sortStrs (l : List String) : List String := l.mergeSort (fun a b => decide (a ≤ b))

def errName : RErr → String
  | .unknownJob => "unknownJob" | .multiTags => "multiTags" | .cannotMatchJob => "cannotMatchJob"
  | .cannotMatchBound => "cannotMatchBound" | .unknownType => "unknownType" | .doubleAssignment => "doubleAssignment"
  | .unknownUnassigned => "unknownUnassigned" | .emptyTour => "emptyTour"

def part2 (j : Lean.Json) : R (List (String × Lean.Json)) := do
  let impl ← fld j "impl"
  match j.getObjVal? "sp", impl.getObjVal? "trace" with
  | .ok sp, .ok tr =>
    let P ← parseProblem sp
    let tours ← listF parseTour tr "tours"
    let unassigned ← listF asStr tr "unassigned"
    let wtours := tours.map (writeTour P)
    let wun := writeUnassigned P unassigned
    let rr := readInit P wtours wun
    let rrJ := match rr with
      | .ok r => Lean.Json.mkObj [("ok", Lean.Json.mkObj [("tours", jList jRTour r.tours),
          ("unassigned", jList Lean.Json.str (sortStrs (customerIds P r.unassigned))),
          ("unused_bound", jList Lean.Json.str (sortStrs (r.unassigned.filter (fun id => !(customerIds P [id]).contains id))))])]
      | .error e => Lean.Json.mkObj [("err", .str (errName e))]
    let model := Lean.Json.mkObj [
      ("written", Lean.Json.mkObj [("tours", jList jWTour wtours), ("unassigned", jList Lean.Json.str wun)]),
      ("init_read_ok", .bool (match rr with | .ok _ => true | .error _ => false)),
      ("reread", rrJ)]
    -- the property, evaluated on what the REAL reader returned, under the theorem's hypotheses
    let hyp := initHyp P tours unassigned
    let implOk := (fldD impl "init_read_ok" (.bool false)) == .bool true
    let implRe := fldD (fldD impl "reread" .null) "ok" .null
    let (actsOk, unOk) ← if implOk then do
        let rts ← listF parseRTour implRe "tours"
        let un ← listF asStr implRe "unassigned"
        pure (sameCustomerActs P tours rts, sameSet (customerIds P unassigned) un)
      else pure (false, false)
    let oracle := Lean.Json.mkObj [
      ("init_read_ok", .bool (!hyp || implOk)),
      ("same_customer_activities_with_places", .bool (!hyp || actsOk)),
      ("same_unassigned_customers", .bool (!hyp || unOk))]
    return [("model", model), ("oracle", oracle), ("hyp", .bool hyp)]
  | _, _ =>
    -- raw pragmatic problem (required breaks) or a run without trace (invalid problem, inexact times):
    -- outside the model; the property's first clause is still evaluated on the real output
    let hasTrace := (impl.getObjVal? "trace").toOption.isSome
    let implOk := (fldD impl "init_read_ok" (.bool false)) == .bool true
    return [("model", .null), ("oracle", Lean.Json.mkObj (if hasTrace then [("init_read_ok", .bool implOk)] else [])),
            ("hyp", .bool false)]

end Init


/-! ## part 3: CSV import -/
section Csv
open C11.Csv

def parseDate (j : Lean.Json) : R Date :=
  match j with
  | .null => pure (.bad "")
  | .num _ => do pure (.ok (← asInt j))
  | _ => do pure (.bad (← strF j "bad"))

def parseOptDate (j : Lean.Json) : R (Option Date) :=
  if j.isNull then pure none else some <$> parseDate j

def parseJobRow (j : Lean.Json) : R JobRow := do
  pure { id := (← strF j "id"), lat := (← intF j "lat"), lng := (← intF j "lng"), demand := (← intF j "demand"),
         duration := (← intF j "duration"), twStart := (← parseOptDate (fldD j "tw_start" .null)),
         twEnd := (← parseOptDate (fldD j "tw_end" .null)) }

def parseVehRow (j : Lean.Json) : R VehRow := do
  pure { id := (← strF j "id"), lat := (← intF j "lat"), lng := (← intF j "lng"), capacity := (← intF j "capacity"),
         twStart := (← parseDate (fldD j "tw_start" .null)), twEnd := (← parseDate (fldD j "tw_end" .null)),
         amount := (← intF j "amount"), profile := (← strF j "profile") }

def jDate : Date → Lean.Json
  | .ok t => jInt t
  | .bad s => Lean.Json.mkObj [("bad", .str s)]

def jLoc (lat lng : Int) : Lean.Json := .arr #[jInt lat, jInt lng]

def jTasks (ts : List Task) : Lean.Json :=
  if ts.isEmpty then .null else
  jList (fun t => Lean.Json.mkObj [
    ("places", .arr #[Lean.Json.mkObj [("loc", jLoc t.lat t.lng), ("duration", jInt t.duration), ("tag", .null),
       ("times", jOpt (fun w => Lean.Json.arr #[Lean.Json.arr #[jDate w.1, jDate w.2]]) t.times)]]),
    ("demand", jOpt (fun d => Lean.Json.arr #[jInt d]) t.demand), ("order", .null)]) ts

def jDoc (d : Doc) : Lean.Json :=
  let jobs := d.jobs.mergeSort (fun a b => decide (a.id ≤ b.id))
  Lean.Json.mkObj [
    ("jobs", jList (fun j => Lean.Json.mkObj [("id", .str j.id), ("pickups", jTasks j.pickups),
        ("deliveries", jTasks j.deliveries), ("services", jTasks j.services), ("replacements", .null),
        ("extras", .bool false)]) jobs),
    ("vehicles", jList (fun v => Lean.Json.mkObj [("typeId", .str v.typeId),
        ("vehicleIds", jList (fun p => Lean.Json.str s!"{p.1}_{p.2}") v.vehicleIds), ("profile", .str v.profile),
        ("scale", .null), ("costs", .arr #[.str "25", .str "0.0002", .str "0.005"]),
        ("shifts", .arr #[Lean.Json.mkObj [("start", .arr #[jDate v.startEarliest, .null, jLoc v.lat v.lng]),
                                           ("end", .arr #[.null, jDate v.endLatest, jLoc v.lat v.lng]),
                                           ("extras", .bool false)]]),
        ("capacity", .arr #[jInt v.capacity]), ("extras", .bool false)]) d.vehicles),
    ("profiles", jList (fun p => Lean.Json.arr #[.str p, .null]) (sortStrs d.profiles)),
    ("extras", .bool false)]

/-- reads the rows back from the REAL document summary (for the oracle) -/
def rowsFromDoc (doc : Lean.Json) : R (List JobRow × List VehRow × List String) := do
  let jobs ← arrF doc "jobs"
  let jrows ← jobs.flatMapM (fun j => do
    let id ← strF j "id"
    let side (key : String) (sign : Int) : R (List JobRow) := do
      let ts := fldD j key .null
      if ts.isNull then pure [] else
      (← asArr ts).toList.mapM (fun t => do
        let places ← arrF t "places"
        match places with
        | [p] =>
          let loc ← asArr (← fld p "loc")
          let times := fldD p "times" .null
          let (s, e) ← if times.isNull then pure (none, none) else do
            let tws ← asArr times
            if tws.size != 1 then throw "several windows"
            let w ← asArr tws[0]!
            pure (some (← parseDate w[0]!), some (← parseDate w[1]!))
          let dem := fldD t "demand" .null
          let d ← if dem.isNull then pure 0 else do
            let a ← asArr dem
            if a.size != 1 then throw "demand dimensions"
            asInt a[0]!
          pure ({ id := id, lat := (← asInt loc[0]!), lng := (← asInt loc[1]!), demand := sign * d,
                  duration := (← intF p "duration"), twStart := s, twEnd := e } : JobRow)
        | _ => throw "task without exactly one place")
    pure ((← side "pickups" 1) ++ (← side "deliveries" (-1)) ++ (← side "services" 0)))
  let vs ← arrF doc "vehicles"
  let vrows ← vs.mapM (fun v => do
    let shifts ← arrF v "shifts"
    match shifts with
    | [sh] =>
      let st ← asArr (← fld sh "start")
      let en ← asArr (← fld sh "end")
      let loc ← asArr st[2]!
      let ids ← listF asStr v "vehicleIds"
      let id ← strF v "typeId"
      let cap ← asArr (← fld v "capacity")
      -- ids "{ID}_{seq}", seq = 1.., end location = start location: otherwise not the row's data
      if ids != (List.range ids.length).map (fun i => s!"{id}_{i+1}") then throw "vehicle ids"
      if en[2]! != st[2]! then throw "end location"
      pure ({ id := id, lat := (← asInt loc[0]!), lng := (← asInt loc[1]!), capacity := (← asInt cap[0]!),
              twStart := (← parseDate st[0]!), twEnd := (← parseDate en[1]!), amount := ids.length,
              profile := (← strF v "profile") } : VehRow)
    | _ => throw "vehicle type without exactly one shift")
  let profiles ← (← arrF doc "profiles").mapM (fun p => do asStr (← asArr p)[0]!)
  pure (jrows, vrows, profiles)

def sameMultiset [DecidableEq α] (a b : List α) : Bool :=
  (a ++ b).all (fun x => a.count x == b.count x)

def part3 (j : Lean.Json) : R (List (String × Lean.Json)) := do
  let t : Tables := { jobs := (← listF parseJobRow j "jobs"), vehicles := (← listF parseVehRow j "vehicles") }
  let impl ← fld j "impl"
  let model := match importCsv t with
    | .error .parse => Lean.Json.mkObj [("import", .str "error")]
    | .error .overflow => Lean.Json.mkObj [("import", .str "panic")]
    | .ok d => Lean.Json.mkObj [("import", .str "ok"), ("doc", jDoc d), ("codes", jList Lean.Json.str (validate d))]
  let hyp := tablesOk t
  let implOk := (fldD impl "import" .null) == .str "ok"
  let oracle ← if !hyp then pure [] else do
    if !implOk then pure [("import_ok", Lean.Json.bool false)] else
    let codes ← listF asStr impl "codes"
    let back := rowsFromDoc (← fld impl "doc")
    let (jobsOk, vehOk, profOk) := match back with
      | .ok (jr, vr, pr) =>
        (sameMultiset jr t.jobs, decide (vr = t.vehicles),
         C11.Init.sameSet pr (t.vehicles.map (·.profile)))
      | .error _ => (false, false, false)
    pure [("import_ok", Lean.Json.bool true), ("valid", Lean.Json.bool codes.isEmpty),
          ("read_pragmatic_ok", Lean.Json.bool ((fldD impl "reads" .null) == Lean.Json.bool true)),
          ("job_rows_carried", Lean.Json.bool jobsOk), ("vehicle_rows_carried", Lean.Json.bool vehOk),
          ("profiles_carried", Lean.Json.bool profOk)]
  return [("model", model), ("oracle", Lean.Json.mkObj oracle), ("hyp", .bool hyp)]

end Csv

def handle (j : Lean.Json) : R (List (String × Lean.Json)) := do
  let k ← strF j "k"
  if k == "rt" || k == "foreign" || k == "fbits" then part1 j k
  else if k == "init" then part2 j
  else if k == "csv" then part3 j
  else throw s!"unknown case kind {k}"

end Drv.C11

def main : IO Unit := Drv.run Drv.C11.handle
