import Drv.Common
import VrpModel.C11
import VrpModel.Generated.C11Schema
open Lean Drv

namespace Drv.C11
open _root_.C11

/-! ## neutral JSON form ⇄ model `Json` (glue) -/

partial def njOf (j : Lean.Json) : R C11.Json :=
  match j with
  | .null => pure .null
  | .bool b => pure (.bool b)
  | .num n => if n.exponent = 0 then pure (.int n.mantissa) else throw "non-integer number in neutral form"
  | .str s => pure (.str s)
  | .arr xs => do pure (.arr (← xs.toList.mapM njOf))
  | .obj _ =>
    match j.getObjVal? "f" with
    | .ok b => do pure (.flt (← asNat b))
    | .error _ => do
      let kvs ← arrF j "o"
      let ps ← kvs.mapM (fun kv => do
        let a ← asArr kv
        if a.size != 2 then throw "bad key/value pair"
        let k ← asStr a[0]!
        let v ← njOf a[1]!
        pure (k, v))
      pure (.obj ps)

partial def njTo : C11.Json → Lean.Json
  | .null => .null
  | .bool b => .bool b
  | .int i => jInt i
  | .flt q => Lean.Json.mkObj [("f", jNat q)]
  | .str s => .str s
  | .arr xs => .arr (xs.map njTo).toArray
  | .obj kvs => Lean.Json.mkObj [("o", .arr (kvs.map (fun kv => Lean.Json.arr #[.str kv.1, njTo kv.2])).toArray)]

/-- structural equality with float tokens allowed to differ by one unit in the last place -/
partial def near : C11.Json → C11.Json → Bool
  | .flt a, .flt b => a == b || a + 1 == b || b + 1 == a
  | .arr xs, .arr ys => xs.length == ys.length && (List.zip xs ys).all (fun p => near p.1 p.2)
  | .obj xs, .obj ys => xs.length == ys.length && (List.zip xs ys).all (fun p => p.1.1 == p.2.1 && near p.1.2 p.2.2)
  | a, b => a == b

def fuel : Nat := 400

def env : Env := envOf Generated.defs

/-- model of deserialise + serialise: `none` = the parser rejects -/
def reser (root : String) (j : C11.Json) : Option C11.Json :=
  match decode env fuel (.ref root) j with
  | some w => encode env fuel (.ref root) w
  | none => none

def part1 (j : Lean.Json) (k : String) : R (List (String × Lean.Json)) := do
  let root ← strF j "root"
  let doc ← njOf (← fld j "doc")
  let impl ← fld j "impl"
  let implOk := (fldD impl "ok" (.bool false)) == .bool true
  let implIdem := (fldD impl "idem" (.bool false)) == .bool true
  let implReser ← optF njOf impl "reser"
  let m := reser root doc
  let mIdem := match m with
    | some r => reser root r == some r
    | none => true
  let model := Lean.Json.mkObj [("ok", .bool m.isSome), ("reser", jOpt njTo m), ("idem", .bool mIdem)]
  -- the specification, evaluated on what the REAL code returned
  let oracle : List (String × Lean.Json) ←
    if k == "rt" then
      pure [("reparse_ok", .bool implOk),
            ("reserialised_equal", .bool (implReser == some doc)),
            ("parsed_value_equals_written_value", .bool ((fldD impl "value_ok" (.bool false)) == .bool true)),
            ("idempotent", .bool implIdem)]
    else if k == "fbits" then
      pure [("reparse_ok", .bool implOk),
            ("reserialised_within_1ulp", .bool (match implReser with | some r => near r doc | none => false))]
    else do
      let expect ← strF j "expect"
      let orig ← njOf (← fld j "orig")
      let met :=
        if expect == "same" then implOk && implReser == some orig
        else if expect == "reject" then !implOk
        else true
      pure [("expectation_met", .bool met), ("idempotent", .bool implIdem)]
  return [("model", model), ("oracle", Lean.Json.mkObj oracle)]

def handle (j : Lean.Json) : R (List (String × Lean.Json)) := do
  let k ← strF j "k"
  if k == "rt" || k == "foreign" || k == "fbits" then part1 j k
  else throw s!"unknown case kind {k}"

end Drv.C11

def main : IO Unit := Drv.run Drv.C11.handle
