import Drv.Common
import Drv.PragParse
import VrpModel.C12
import VrpProofs.C12Complete
open Lean Drv C12

namespace Drv.C12

/-! JSON glue for C12: parses the simplified (problem, solution) pair, applies the mutant patches, runs the model
checker and the specification. -/

def optNull (f : Json → R α) (j : Json) (k : String) : R (Option α) := optF f j k

def parseTKind (s : String) : R TKind :=
  if s == "pickup" then pure .pickup else if s == "delivery" then pure .delivery
  else if s == "replacement" then pure .replacement else if s == "service" then pure .service
  else throw s!"bad task kind {s}"

def parseATy (s : String) : ATy :=
  if s == "departure" then .departure else if s == "arrival" then .arrival
  else if s == "pickup" then .pickup else if s == "delivery" then .delivery
  else if s == "replacement" then .replacement else if s == "service" then .service
  else if s == "break" then .brk else if s == "reload" then .reload
  else if s == "recharge" then .recharge else .other

def parsePair (j : Json) : R (Int × Int) := do
  let a ← asArr j
  if a.size != 2 then throw "pair expected"
  return (← asInt a[0]!, ← asInt a[1]!)

def parseTws (j : Json) (k : String) : R (List TW) := do
  let l ← listF parsePair j k
  -- `parse_times(None)` = one unbounded window
  if l.isEmpty then return [⟨0, none⟩] else return l.map (fun p => ⟨p.1, some p.2⟩)

def parsePlace (j : Json) : R Place := do
  return { loc := ← natF j "loc", dur := ← intF j "dur", tws := ← parseTws j "tws", tag := ← optNull asStr j "tag",
           resource := ← optNull asStr j "resource" }

/-- a shared reload resource: `[id, capacity]` (serde form of a pair) -/
def parseResource (j : Json) : R (String × Load) := do
  let a ← asArr j
  if a.size != 2 then throw "resource: [id, capacity] expected"
  return (← asStr a[0]!, ← listOf asInt a[1]!)

def parseTask (j : Json) : R Task := do
  return { kind := ← parseTKind (← strF j "kind"), places := ← listF parsePlace j "places", demand := ← listF asInt j "demand" }

def parseJob (j : Json) : R Job := do
  return { id := ← strF j "id", tasks := ← listF parseTask j "tasks", group := ← optNull asStr j "group" }

def parseBreakPlace (j : Json) : R BreakPlace := do
  return { dur := ← intF j "dur", loc := ← optNull asNat j "loc", tag := ← optNull asStr j "tag" }

def parseBreak (j : Json) : R Break := do
  let tm ← parsePair (← fld j "time")
  let pol ← optNull asStr j "policy"
  let policy : Option BPolicy := match pol with
    | some "skip-if-arrival-before-end" => some .arrivalBeforeEnd
    | some _ => some .noIntersection
    | none => none
  return { offset := ← boolF j "offset", t0 := tm.1, t1 := tm.2, places := ← listF parseBreakPlace j "places", policy }

def parseShiftEnd (j : Json) : R ShiftEnd := do
  return { latest := ← intF j "latest", loc := ← natF j "loc" }

def parseShift (j : Json) : R Shift := do
  return { startEarliest := ← intF j "start_earliest", startLoc := ← natF j "start_loc",
           end_ := ← optNull parseShiftEnd j "end", breaks := ← listF parseBreak j "breaks",
           reloads := ← listF parsePlace j "reloads" }

def parseVType (j : Json) : R VType := do
  let scale ← optNull parsePair j "scale"
  let (sn, sd) := scale.getD (1, 1)
  return { typeId := ← strF j "type_id", ids := ← listF asStr j "ids", profile := ← natF j "profile",
           scaleNum := sn, scaleDen := sd, shifts := ← listF parseShift j "shifts",
           capacity := ← listF asInt j "capacity", maxDistance := ← optNull asInt j "max_distance",
           maxDuration := ← optNull asInt j "max_duration", tourSize := ← optNull asNat j "tour_size" }

def parseRelation (j : Json) : R Relation := do
  let k ← strF j "kind"
  let kind ← (if k == "any" then pure RKind.any else if k == "sequence" then pure RKind.sequence
              else if k == "strict" then pure RKind.strict else throw s!"bad relation kind {k}")
  return { kind, jobs := ← listF asStr j "jobs", vehicleId := ← strF j "vehicle_id",
           shiftIndex := ← optNull asNat j "shift_index" }

def parseProfile (j : Json) : R Profile := do
  return { dur := ← listF asInt j "dur", dist := ← listF asInt j "dist" }

def parseProblem (j : Json) : R Problem := do
  -- `resources` is absent in cases stored before shared resources were generated
  let resources ← match j.getObjVal? "resources" with
    | .ok r => listOf parseResource r
    | .error _ => pure []
  return { n := ← natF j "n", profiles := ← listF parseProfile j "profiles", jobs := ← listF parseJob j "jobs",
           vehicles := ← listF parseVType j "vehicles", relations := ← listF parseRelation j "relations", resources }

def parseAct (j : Json) : R Act := do
  let st ← optNull asInt j "start"
  let en ← optNull asInt j "end"
  let time := match st, en with | some a, some b => some (a, b) | _, _ => none
  return { jobId := ← strF j "jobId", ty := parseATy (← strF j "type"), tag := ← optNull asStr j "tag",
           loc := ← optNull asNat j "loc", time }

def parseStop (j : Json) : R Stop := do
  return { loc := ← natF j "loc", arrival := ← intF j "arrival", departure := ← intF j "departure",
           distance := ← intF j "distance", load := ← listF asInt j "load", acts := ← listF parseAct j "activities" }

def parseStat (j : Json) : R Stat := do
  return { distance := ← intF j "distance", duration := ← intF j "duration" }

def parseTour (j : Json) : R Tour := do
  return { vehicleId := ← strF j "vehicleId", typeId := ← strF j "typeId", shiftIndex := ← natF j "shiftIndex",
           stops := ← listF parseStop j "stops", stat := ← parseStat (← fld j "statistic") }

def parseViolation (j : Json) : R (String × Nat) := do
  return (← strF j "vehicle_id", ← natF j "shift_index")

def parseSolution (j : Json) : R Solution := do
  return { stat := ← parseStat (← fld j "statistic"), tours := ← listF parseTour j "tours",
           unassigned := ← listF (fun u => strF u "jobId") j "unassigned",
           violations := ← listF parseViolation j "violations" }

/-! patches (the same as `apply_patch` of the harness) -/

def setIdx (l : List Json) (i : Nat) (v : Json) : List Json := if i < l.length then l.set i v else l ++ [v]

def applyPatch (sp sol m : Json) : R (Json × Json) := do
  -- "sol": the whole solution document is replaced (clean structural mutants re-rendered by the real writer)
  let mut sol := match m.getObjVal? "sol" with
    | .ok (Json.obj kvs) => Json.obj kvs
    | _ => sol
  match m.getObjVal? "set" with
  | .ok (Json.obj kvs) =>
    for (k, v) in kvs.toList do
      sol := sol.setObjVal! k v
  | _ => pure ()
  match m.getObjVal? "tours" with
  | .ok (Json.arr ps) =>
    let mut tours := (← arrF sol "tours")
    for p in ps.toList do
      let a ← asArr p
      tours := setIdx tours (← asNat a[0]!) a[1]!
    sol := sol.setObjVal! "tours" (Json.arr tours.toArray)
  | _ => pure ()
  let mut sp := sp
  match m.getObjVal? "veh" with
  | .ok (Json.arr ps) =>
    let mut vs := (← arrF sp "vehicles")
    for p in ps.toList do
      let a ← asArr p
      vs := setIdx vs (← asNat a[0]!) a[1]!
    sp := sp.setObjVal! "vehicles" (Json.arr vs.toArray)
  | _ => pure ()
  match m.getObjVal? "rel" with
  | .ok r => sp := sp.setObjVal! "relations" r
  | _ => pure ()
  -- "res": the list of shared resources of the problem is replaced
  match m.getObjVal? "res" with
  | .ok r => sp := sp.setObjVal! "resources" r
  | _ => pure ()
  return (sp, sol)

def sortDedup (l : List String) : List String :=
  let a := (l.toArray.qsort (fun a b => a < b)).toList
  C12.dedup a

def codesJson (P : Problem) (S : Solution) : Json :=
  jList Json.str (sortDedup ((check P S).map Code.name))

def partsJson (P : Problem) (S : Solution) : Json :=
  Json.mkObj ((Spec.parts P S).map (fun p => (p.1, Json.bool p.2)))

def implCodes (j : Json) : R (List String) := listOf asStr j

/-- tours with transit stops (required break on the road): outside the checker model; where the real checker accepts the
    solver's own document it must reject every document whose transit arrival was moved inside the break -/
def handleTransit (j : Json) : R (List (String × Json)) := do
  let impl ← fld j "impl"
  match impl.getObjVal? "base" with
  | .error _ => return [("model", impl), ("oracle", Json.mkObj []), ("info", Json.mkObj [("skipped", Json.bool true)])]
  | .ok b =>
    let base ← listOf asStr b
    let muts ← listF (listOf asStr) impl "muts"
    let rejectsAll := muts.all (fun m => !m.isEmpty)
    return [("model", impl),
            ("oracle", Json.mkObj [("rejects_breach:transit_arrival_shift", Json.bool (!base.isEmpty || rejectsAll))]),
            ("info", Json.mkObj [("transit", Json.bool true), ("base_accepted", Json.bool base.isEmpty), ("mutants", jNat muts.length),
                                 ("base_codes", Json.arr (base.map Json.str).toArray)])]

def handle (j : Json) : R (List (String × Json)) := do
  if (fldD j "k" Json.null) == Json.str "transit" then return (← handleTransit j)
  let spJ ← fld j "sp"
  let solJ ← fld j "sol"
  let P ← parseProblem spJ
  let S ← parseSolution solJ
  let impl ← fld j "impl"
  let implBase ← implCodes (← fld impl "base")
  let implMuts ← listF implCodes impl "muts"
  let muts ← arrF j "muts"
  let baseSupported := Spec.supported P S
  let baseValid := Spec.validSolution P S
  let mut modelMuts : List Json := []
  let mut bad : List (String × Json) := []
  let mut mutValid : List Json := []
  let mut acceptsValid := !(baseSupported && baseValid) || implBase.isEmpty
  -- open deviations D9 / D11: a valid solution of one of the two excluded shapes which the real checker rejects is
  -- reported (and matched against the known findings), not skipped
  match Spec.deviationOf P S with
  | some dv =>
    -- on these two shapes the load formula of `C12.Spec` follows the checker's stop-level intervals, so validity is judged
    -- by the solver-level specifications of C01-C03 instead (activity-level reload intervals; `VrpModel/Spec.lean`)
    let pragValid := match Drv.PragParse.parseProblem spJ, Drv.PragParse.parseSolution solJ with
      | .ok p, .ok s => (_root_.Spec.feasible p s).isEmpty && (_root_.Spec.partition p s).isEmpty &&
                        -- witnesses are stored without costs: the cost line of the replay is not a matter of the checker's load rule
                        ((_root_.Spec.replay p s).filter (fun m => (m.splitOn ": cost ").length == 1)).isEmpty
      | _, _ => false
    if (baseValid || pragValid) && !implBase.isEmpty then
      acceptsValid := false
      bad := bad ++ [(s!"accepts_valid:open-deviation-{dv}:base", Json.bool false)]
  | none => pure ()
  let mut rejectsBreach := true
  let mut idx := 0
  for m in muts do
    let (sp2, sol2) ← applyPatch spJ solJ m
    let P2 ← parseProblem sp2
    let S2 ← parseSolution sol2
    modelMuts := modelMuts ++ [codesJson P2 S2]
    let v := Spec.validSolution P2 S2
    let sup := Spec.supported P2 S2
    -- the rules of the specification the mutant breaks (a clean structural mutant breaks "partition" only)
    let failing := ((Spec.parts P2 S2).filter (fun p => !p.2)).map (fun p => Json.str p.1)
    mutValid := mutValid ++ [Json.mkObj [("valid", Json.bool v), ("supported", Json.bool sup),
                                         ("in_thm", Json.bool (sup && v && C12Complete.inputWF P2 S2 && C12Complete.unambiguous P2 S2)),
                                         ("fail", Json.arr failing.toArray)]]
    let implM := implMuts.getD idx ["<missing>"]
    let name := s!"{(strF m "cls").toOption.getD "?"}@{(strF m "site").toOption.getD "?"}"
    if sup && v && !implM.isEmpty then
      acceptsValid := false
      bad := bad ++ [(s!"accepts_valid:{name}", Json.bool false)]
    match Spec.deviationOf P2 S2 with
    | some dv =>
      if v && !implM.isEmpty then
        acceptsValid := false
        bad := bad ++ [(s!"accepts_valid:open-deviation-{dv}:{name}", Json.bool false)]
    | none => pure ()
    if baseSupported && baseValid && !v && implM.isEmpty then
      rejectsBreach := false
      bad := bad ++ [(s!"rejects_breach:{name}", Json.bool false)]
    idx := idx + 1
  let model := Json.mkObj [("base", codesJson P S), ("muts", Json.arr modelMuts.toArray)]
  return [("model", model),
          ("oracle", Json.mkObj ([("accepts_valid", Json.bool acceptsValid), ("rejects_breach", Json.bool rejectsBreach)] ++ bad)),
          ("spec", Json.mkObj [("supported", Json.bool baseSupported), ("valid", Json.bool baseValid),
                               ("core_supported", Json.bool (Spec.supportedCore P S)),
                               -- the base document lies within the hypotheses of `C12Complete.checker_complete`
                               ("in_completeness_theorem", Json.bool (baseSupported && baseValid && C12Complete.inputWF P S && C12Complete.unambiguous P S)),
                               ("deviation", match Spec.deviationOf P S with | some d => Json.str d | none => Json.null),
                               ("prag", match Drv.PragParse.parseProblem spJ, Drv.PragParse.parseSolution solJ with
                                  | .ok p, .ok s => Json.arr ((_root_.Spec.feasible p s ++ _root_.Spec.partition p s ++ _root_.Spec.replay p s).map Json.str).toArray
                                  | .error e, _ => Json.str ("problem: " ++ e)
                                  | _, .error e => Json.str ("solution: " ++ e)),
                               ("parts", partsJson P S), ("muts", Json.arr mutValid.toArray)])]

end Drv.C12

def main : IO Unit := Drv.run Drv.C12.handle
