import Drv.Common
import VrpModel.C13
open Lean Drv C13

namespace Drv.C13

/-! JSON glue for C13 (nothing here is reasoned about) -/

def parseVal (j : Json) : R Val :=
  match j with
  | .str s => pure (.w s)
  | _ => do pure (.n (← asInt j))

def parseLine (j : Json) : R Line :=
  match j with
  | .null => pure .text
  | .str s => pure (.word s)
  | .arr _ => do pure (.nums (← listOf asInt j))
  | _ => do
    let k ← strF j "k"
    let v ← parseVal (← fld j "v")
    pure (.kv k v)

def parseDepot (j : Json) : R Depot := do
  pure ⟨← intF j "x", ← intF j "y", ← intF j "ready", ← intF j "due"⟩

def parseCustLine (j : Json) : R CustLine := do
  pure ⟨← intF j "id", ← intF j "x", ← intF j "y", ← intF j "demand", ← intF j "start", ← intF j "stop",
        ← intF j "service"⟩

def parseRow (j : Json) : R Row := do
  pure ⟨← intF j "id", ← intF j "x", ← intF j "y", ← intF j "demand", ← intF j "start", ← intF j "stop",
        ← intF j "service", ← intF j "pIdx", ← intF j "dIdx"⟩

def parseSolomonFile (j : Json) : R SolomonFile := do
  pure ⟨← natF j "vehicles", ← intF j "capacity", ← parseDepot (← fld j "depot"), ← listF parseCustLine j "customers"⟩

def parseLilimFile (j : Json) : R LilimFile := do
  pure ⟨← natF j "vehicles", ← intF j "capacity", ← parseDepot (← fld j "depot"), ← listF parseRow j "rows"⟩

def int3 (j : Json) : R (Int × Int × Int) := do
  match ← listOf asInt j with
  | [a, b, c] => pure (a, b, c)
  | _ => throw "expected 3 numbers"

def int2 (j : Json) : R (Int × Int) := do
  match ← listOf asInt j with
  | [a, b] => pure (a, b)
  | _ => throw "expected 2 numbers"

def parseTsplibFile (j : Json) : R TsplibFile := do
  pure ⟨← intF j "capacity", ← listF int3 j "nodes", ← listF int2 j "demands", ← intF j "depot"⟩

/-! ### dump <-> JSON -/

def jBound : Bound → Json
  | .fin i => jInt i
  | .max => Json.str "max"

def jXY : Option (Int × Int) → Json
  | some (x, y) => Json.arr #[jInt x, jInt y]
  | none => Json.null

def jTW (t : TW) : Json := Json.arr #[jInt t.lo, jBound t.hi]

def jSingle (s : DSingle) : Json :=
  Json.mkObj [("id", jInt s.id), ("xy", jXY s.xy), ("dur", jInt s.dur), ("tws", jList jTW s.tws),
              ("dem", jList jInt [s.dem.ps, s.dem.pd, s.dem.ds, s.dem.dd])]

def jJob (j : DJob) : Json :=
  Json.mkObj [("id", jInt j.id), ("multi", Json.bool j.multi), ("subs", jList jSingle j.subs)]

def jVehicle (v : DVehicle) : Json :=
  Json.mkObj [("idx", jNat v.idx), ("cap", jInt v.cap), ("s", jXY v.s), ("e", jXY v.e),
              ("t", jList (jOpt jBound) [v.sE, v.sL, v.eE, v.eL])]

def jDist (d : List (List (Nat × Bool))) : Json :=
  jList (jList (fun (e : Nat × Bool) => Json.arr #[jNat e.1, Json.bool e.2])) d

def jDump (d : Dump) (locs : Option (List Nat)) (bits : List (List Nat)) : Json :=
  Json.mkObj [("veh", jList jVehicle d.vehicles), ("jobs", jList jJob d.jobs), ("dist", jDist d.dist),
              ("dist_bits", jList (jList jNat) bits), ("locs", jOpt (jList jNat) locs)]

def parseBound (j : Json) : R Bound :=
  match j with
  | .str "max" => pure .max
  | _ => do pure (.fin (← asInt j))

def parseXY (j : Json) : R (Option (Int × Int)) := optOf int2 j

def parseTW (j : Json) : R TW := do
  match ← asArr j with
  | #[a, b] => pure ⟨← asInt a, ← parseBound b⟩
  | _ => throw "bad window"

def parseDSingle (j : Json) : R DSingle := do
  if (j.getObjVal? "places").isOk then throw "several places"
  let dem ← match ← listF asInt j "dem" with
    | [a, b, c, d] => pure (⟨a, b, c, d⟩ : Demand4)
    | _ => throw "bad demand"
  pure ⟨← intF j "id", ← parseXY (← fld j "xy"), ← intF j "dur", ← listF parseTW j "tws", dem⟩

def parseDJob (j : Json) : R DJob := do
  pure ⟨← intF j "id", ← boolF j "multi", ← listF parseDSingle j "subs"⟩

def parseDVehicle (j : Json) : R DVehicle := do
  match ← listF (optOf parseBound) j "t" with
  | [a, b, c, d] =>
    pure ⟨← natF j "idx", ← intF j "cap", ← parseXY (← fld j "s"), ← parseXY (← fld j "e"), a, b, c, d⟩
  | _ => throw "bad vehicle times"

def parseDistEntry (j : Json) : R (Nat × Bool) := do
  match ← asArr j with
  | #[a, b] => pure (← asNat a, ← asBool b)
  | _ => throw "bad dist entry"

def parseDump (j : Json) : R Dump := do
  pure ⟨← listF parseDVehicle j "veh", ← listF parseDJob j "jobs", ← listF (listOf parseDistEntry) j "dist"⟩

/-! ### canonical orders (TSPLIB iterates a hash map: both sides are compared sorted by id) -/

def insertBy (key : α → Int) (a : α) : List α → List α
  | [] => [a]
  | b :: bs => if key a ≤ key b then a :: b :: bs else b :: insertBy key a bs

def sortBy (key : α → Int) (l : List α) : List α := l.foldr (insertBy key) []

def jobKey : Job' → Int
  | .single s => s.id
  | .multi id _ => id

def errName : Err → String
  | .vehicleLine => "vehicleLine" | .customerLine => "customerLine" | .colon => "colon" | .key => "key"
  | .badType => "badType" | .badEdge => "badEdge" | .parse => "parse" | .expecting => "expecting"
  | .coordData => "coordData" | .demandData => "demandData" | .noDemand => "noDemand" | .noDepot => "noDepot"
  | .unmodelled => "unmodelled"

def parseModel (fmt : String) (rounded : Bool) (lines : List Line) : R (Except Err Problem') :=
  if fmt == "sol" then pure (parseSolomon rounded lines)
  else if fmt == "lil" then pure (parseLilim rounded lines)
  else if fmt == "tsp" then
    pure ((parseTsplib rounded lines).map (fun P => { P with jobs := sortBy jobKey P.jobs }))
  else throw s!"unknown format {fmt}"

def modelDumpJson (fmt : String) (P : Problem') : Json :=
  let d := observe P
  jDump d (if fmt == "tsp" then none else some (locsOf P)) (bitsMatrix P.rounded (pointsOf d.vehicles d.jobs))

/-! ### the specification evaluated on the implementation's output -/

def sortCustomers (I : Instance) : Instance := { I with customers := sortBy (·.id) I.customers }

structure FileView where
  printed : List Line
  wf : Bool
  meaning : Instance
  /-- file id -> job id of the single that serves it -/
  jobId : Int → Int
  pd : Bool

def fileView (fmt : String) (j : Json) : R FileView := do
  if fmt == "sol" then
    let F ← parseSolomonFile j
    pure ⟨printSolomon F, wfSolomon F, meaningSolomon F, id, false⟩
  else if fmt == "lil" then
    let F ← parseLilimFile j
    pure ⟨printLilim F, wfLilim F, meaningLilim F, id, true⟩
  else
    let F ← parseTsplibFile j
    pure ⟨printTsplib F, wfTsplib F, sortCustomers (meaningTsplib F), (· - 1), false⟩

def decodeFor (fmt : String) (d : Dump) : Option Instance :=
  if fmt == "sol" then decodeSolomon d else if fmt == "lil" then decodeLilim d
  else (decodeTsplib d).map sortCustomers

def countAccept (l : List (Option Bool)) (b : Bool) : Nat := l.countP (· == some b)

/-- oracle entries + extra info for a problem-reading case with a file description -/
def problemOracle (fmt : String) (rounded : Bool) (lines : List Line) (fileJ : Json) (tours : List (List Int))
    (implJ : Json) : R (List (String × Json) × List (String × Json)) := do
  let fv ← fileView fmt fileJ
  let base := [("harness_text_is_print_of_file", Json.bool (fv.printed == lines)),
               ("file_wellformed", Json.bool fv.wf)]
  match implJ.getObjVal? "ok" with
  | .error _ => pure (base ++ [("accepted", Json.bool false)], [])
  | .ok dj =>
    match parseDump dj with
    | .error e => pure (base ++ [("impl_dump_wellformed", Json.bool false)], [("impl_dump_error", Json.str e)])
    | .ok d =>
      let dec := decodeFor fmt d
      let I := fv.meaning
      let singles := d.jobs.flatMap (·.subs)
      let once := I.customers.all (fun c => singles.countP (fun s => s.id == fv.jobId c.id) == 1) &&
                  singles.length == I.customers.length
      let distOk := match dec with
        | some J => d.dist == instDist rounded J
        | none => false
      -- bit-exact: every entry is the double nearest to the Euclidean distance of the file's coordinates (rounded mode:
      -- the nearest integer), computed from the decoded instance
      let implBits := (listF (listOf asNat) dj "dist_bits").toOption
      let bitsOk := match dec with
        | some J => implBits == some (bitsMatrix rounded ((some J.depotXY) :: J.customers.map (fun c => some (c.x, c.y))))
        | none => false
      let implAcc := tours.map (fun t => dumpAccepts d (t.map fv.jobId))
      let fileAcc := tours.map (fun t => if fv.pd then fileAcceptsPD I t else fileAcceptsDelivery I t)
      let capOk := implAcc == fileAcc && implAcc.all (·.isSome)
      let pairsOk := !fv.pd || d.jobs.all (fun j => match j.subs with
        | [p, q] => p.dem.pd == q.dem.dd && decide (0 < p.dem.pd) &&
                    instDemand I p.id == some p.dem.pd && instDemand I q.id == some (-q.dem.dd) &&
                    I.pairs.contains (p.id, q.id)
        | _ => false)
      pure (base ++ [("accepted", Json.bool true),
                     ("decoded_instance_is_file", Json.bool (dec == some I)),
                     ("every_customer_exactly_once", Json.bool once),
                     ("distances_are_nearest_integer_euclid", Json.bool distOk),
                     ("distances_bit_exact", Json.bool bitsOk),
                     ("capacity_binds_as_file", Json.bool capOk),
                     ("pairs_joined_with_opposite_amounts", Json.bool pairsOk)],
            [("customers", jNat I.customers.length), ("cap_accept", jNat (countAccept fileAcc true)),
             ("cap_reject", jNat (countAccept fileAcc false))])

def parseSolLine (j : Json) : R SolLine :=
  match j with
  | .null => pure .skip
  | _ => do pure (.route (← natF j "n") (← listF asInt j "ids"))

def jSolLine : SolLine → Json
  | .skip => Json.null
  | .route n ids => Json.mkObj [("n", jNat n), ("ids", jList jInt ids)]

def jInitSol (s : InitSol) : Json :=
  Json.mkObj [("routes", jList (jList jInt) s.routes), ("unassigned", jList jInt (sortBy id s.unassigned)),
              ("distinct_actors", Json.bool true), ("acts_ok", Json.bool true)]

/-- specification of reading a solution text, evaluated on the implementation's answer: the routes are the id
    lists of the colon lines in order, unassigned are exactly the jobs named nowhere -/
def initOracle (jobIds : List Int) (expectedRoutes : List (List Int)) (readJ : Json) : R (List (String × Json)) := do
  let routes ← listF (listOf asInt) readJ "routes"
  let un ← listF asInt readJ "unassigned"
  let expectedUn := sortBy id (jobIds.filter (fun i => !(expectedRoutes.any (·.contains i))))
  pure [("same_routes", Json.bool (routes == expectedRoutes)),
        ("unassigned_are_the_unvisited", Json.bool (un == expectedUn)),
        ("distinct_actors", Json.bool ((← boolF readJ "distinct_actors"))),
        ("activities_carry_job_place", Json.bool ((← boolF readJ "acts_ok")))]

def handle (j : Json) : R (List (String × Json)) := do
  let k ← strF j "k"
  let rounded ← boolF j "rounded"
  let lines ← listF parseLine j "lines"
  let impl ← fld j "impl"
  let fileJ := fldD j "file" Json.null
  if k == "sol" || k == "lil" || k == "tsp" then
    let res ← parseModel k rounded lines
    let model := match res with
      | .ok P => Json.mkObj [("ok", modelDumpJson k P)]
      | .error e => Json.mkObj [("err", Json.str (errName e))]
    if fileJ.isNull then
      return [("model", model), ("oracle", Json.mkObj [])]
    else
      let tours ← listF (listOf asInt) j "tours"
      let (orc, info) ← problemOracle k rounded lines fileJ tours impl
      return [("model", model), ("oracle", Json.mkObj orc), ("info", Json.mkObj info)]
  else if k == "init" || k == "initread" then
    let fmt ← strF j "fmt"
    let res ← parseModel fmt rounded lines
    match res with
    | .error e => return [("model", Json.mkObj [("err", Json.str (errName e))]), ("oracle", Json.mkObj [("problem_accepted", Json.bool false)])]
    | .ok P =>
      let ids := (singleIds P.jobs).getD []
      if k == "init" then
        let routes ← listF (listOf asInt) j "routes"
        let complete := completeSol ids P.vehicles.length routes
        if !(ids.all (fun i => routes.any (·.contains i))) then
          -- the writer refuses solutions with unassigned jobs
          return [("model", Json.mkObj [("write_err", Json.bool true)]), ("oracle", Json.mkObj [])]
        let written := writeSol routes
        let model := match readInit P written with
          | some s => Json.mkObj [("written", jList jSolLine written), ("read", jInitSol s)]
          | none => Json.mkObj [("unmodelled", Json.bool true)]
        let orc ← match impl.getObjVal? "read", impl.getObjVal? "written" with
          | .ok readJ, .ok wJ => do
            let w ← listOf parseSolLine wJ
            let o ← initOracle ids routes readJ
            pure (o ++ [("written_lists_the_routes", Json.bool (w == writeSol routes)),
                        ("complete_solution", Json.bool complete)])
          | _, _ => pure [("written_and_read", Json.bool false)]
        return [("model", model), ("oracle", Json.mkObj orc),
                ("info", Json.mkObj [("routes", jNat (routes.filter (· ≠ [])).length)])]
      else
        let sl ← listF parseSolLine j "sol_lines"
        let model := match readInit P sl with
          | some s => Json.mkObj [("read", jInitSol s)]
          | none => Json.mkObj [("unmodelled", Json.bool true)]
        let expected := sl.filterMap (fun l => match l with | .route _ ids => some ids | .skip => none)
        let orc ← match impl.getObjVal? "read" with
          | .ok readJ => initOracle ids expected readJ
          | _ => pure [("read", Json.bool false)]
        return [("model", model), ("oracle", Json.mkObj orc),
                ("info", Json.mkObj [("routes", jNat (expected.filter (· ≠ [])).length)])]
  else if k == "bind" then
    let fmt ← strF j "fmt"
    let res ← parseModel fmt rounded lines
    let fv ← fileView fmt fileJ
    let pre := (← listF asInt j "pre").map fv.jobId
    let target := fv.jobId (← intF j "target")
    let jOB : Option Bool → Json := fun o => match o with | some b => Json.bool b | none => Json.null
    let model := match res with
      | .ok P => Json.mkObj [("append_ok", jOB (dumpAppendOk (observe P) pre target))]
      | .error e => Json.mkObj [("err", Json.str (errName e))]
    -- the file's own verdict (independent of the reader model): the instance it denotes, ids in job numbering
    let off : Int := if fmt == "tsp" then 1 else 0
    let spec := instAppendOk rounded fv.pd off fv.meaning pre target
    let implOk := (impl.getObjVal? "append_ok").toOption.bind (fun b => b.getBool?.toOption)
    return [("model", model),
            ("oracle", Json.mkObj [("harness_text_is_print_of_file", Json.bool (fv.printed == lines)),
                                   ("file_wellformed", Json.bool fv.wf),
                                   ("tour_before_is_feasible", Json.bool spec.isSome),
                                   ("constraints_bind_as_file", Json.bool (spec.isSome && implOk == spec))]),
            ("info", Json.mkObj [("stops", jNat (pre.length + 1)), ("spec", jOB spec)])]
  else throw s!"unknown case kind {k}"

end Drv.C13

def main : IO Unit := Drv.run Drv.C13.handle
