import Drv.Common
import VrpModel.C14
open Lean Drv C14

namespace Drv.C14

/-! JSON glue for C14: runs the mirror machine (→ `model`) and the reference machine + the declarative
well-formedness predicate on the implementation's own trace (→ `oracle`). -/

def actJson : Act → Json
  | .start => Json.str "S"
  | .finish => Json.str "E"
  | .job j s => Json.arr #[jNat j, jNat s]

def parseAct (j : Json) : R Act :=
  match j with
  | Json.str "S" => pure .start
  | Json.str "E" => pure .finish
  | Json.arr #[a, b] => do return .job (← asNat a) (← asNat b)
  | _ => throw s!"bad activity {j.compress}"

def tourObsJson (o : TourObs) : Json :=
  Json.mkObj [
    ("acts", jList actJson o.acts), ("jobs", jList jNat o.jobs),
    ("n", jList jNat [o.jobCount, o.jac, o.total]),
    ("legs", jList (fun l => Json.arr #[jList actJson l.1, jNat l.2]) o.legs),
    ("hj", Json.bool o.hasJobs),
    ("se", Json.arr #[jOpt actJson o.start, jOpt actJson o.end_, jOpt jNat o.endIdx]),
    ("ix", jList (fun e => Json.arr #[jOpt jNat e.1, jOpt jNat e.2.1, Json.bool e.2.2.1, jList jNat e.2.2.2]) o.ix),
    ("ok", Json.bool true)]

def parseTourObs (j : Json) : R TourObs := do
  let acts ← listF parseAct j "acts"
  let jobs ← listF asNat j "jobs"
  let n ← listF asNat j "n"
  let legs ← listF (fun l => do
    let a ← asArr l
    if a.size != 2 then throw "bad leg"
    return ((← listOf parseAct a[0]!), (← asNat a[1]!))) j "legs"
  let se ← arrF j "se"
  let ix ← listF (fun e => do
    let a ← asArr e
    if a.size != 4 then throw "bad ix entry"
    return ((← optOf asNat a[0]!), (← optOf asNat a[1]!), (← asBool a[2]!), (← listOf asNat a[3]!))) j "ix"
  if n.length != 3 || se.length != 3 then throw "bad counts"
  return { acts := acts, jobs := jobs, jobCount := n[0]!, jac := n[1]!, total := n[2]!, legs := legs,
           hasJobs := (← boolF j "hj"),
           start := (← optOf parseAct se[0]!), end_ := (← optOf parseAct se[1]!), endIdx := (← optOf asNat se[2]!),
           ix := ix }

def kindStr : Kind → String
  | .tour => "tour"
  | .route => "route"
  | .rc => "rc"

def obsJson : Obs → Json
  | .route k a t stale st cnt =>
    Json.mkObj [("t", Json.str (kindStr k)), ("a", jNat a), ("tour", tourObsJson t),
                ("stale", jOpt Json.bool stale), ("st", jOpt jInt st), ("cnt", jOpt jNat cnt)]
  | .reg isCtx all avail =>
    Json.mkObj [("t", Json.str (if isCtx then "rctx" else "reg")), ("all", jList jNat all), ("avail", jList jNat avail)]

def outJson : Out → Json
  | .unit => Json.null
  | .bool b => Json.bool b
  | .job j => jNat j
  | .panic => Json.str "panic"
  | .actors l => jList jNat l
  | .protos l => jList (fun p => Json.arr #[jNat p.1, obsJson p.2]) l
  | .inadmissible => Json.str "inadmissible"

/-- the picks of a `next` operation are the implementation's (sorted actor ids) -/
def picksOf (r : Json) : List Nat :=
  match r with
  | Json.arr xs => xs.toList.filterMap (fun x =>
      match x with
      | Json.arr ys => (ys[0]? >>= fun y => y.getNat?.toOption)
      | y => y.getNat?.toOption)
  | _ => []

def parseOp (j : Json) (implR : Json) : R Op := do
  let a ← asArr j
  let name ← asStr (a[0]?.getD Json.null)
  let n (i : Nat) : R Nat := asNat (a[i]?.getD Json.null)
  match name with
  | "new_tour" => return .newR .tour (← n 1) (← n 2)
  | "new_route" => return .newR .route (← n 1) (← n 2)
  | "new_rc" => return .newR .rc (← n 1) (← n 2)
  | "copy" => return .copy (← n 1) (← n 2)
  | "drop" => return .drop (← n 1)
  | "ins_at" => return .insAt (← n 1) (← n 2) (← n 3) (← n 4)
  | "ins_last" => return .insLast (← n 1) (← n 2) (← n 3)
  | "ins_nojob" => return .insNoJob (← n 1) (← n 2)
  | "rem" => return .rem (← n 1) (← n 2)
  -- the key is a task of a multi job wrapped as a job of its own: a job no tour owns (ids of the world are small)
  | "rem_sub" => return .rem (← n 1) (1000000 + 100 * (← n 2) + (← n 3))
  | "rem_at" => return .remAt (← n 1) (← n 2)
  | "touch" => return .touch (← n 1)
  | "accept" => return .accept (← n 1)
  | "set_state" => return .setState (← n 1) (← asInt (a[2]?.getD Json.null))
  | "new_reg" => return .newReg (← n 1)
  | "new_rctx" => return .newRctx (← n 1)
  | "use" => return .use (← n 1) (← n 2)
  | "free" => return .free (← n 1) (← n 2)
  | "get_route" => return .getRoute (← n 1) (← n 2) (← n 3)
  | "free_route" => return .freeRoute (← n 1) (← n 2)
  | "use_route" => return .useRoute (← n 1) (← n 2)
  | "next" => return .next (← n 1) (picksOf implR)
  | "slice" => return .slice (← n 1) (← n 2) (← listOf asNat (a[3]?.getD Json.null))
  | other => throw s!"unknown operation {other}"

/-- observations of all handles, ascending by handle -/
def observeAll (f : β → Obs) (st : Store β) : List (Nat × Json) :=
  let l := st.map (fun p => (p.1, obsJson (f p.2)))
  l.mergeSort (fun a b => decide (a.1 ≤ b.1))

/-- `[h, obs]` for every handle whose observation is new or different, `[h, null]` for a vanished one -/
def diffObs (old new : List (Nat × Json)) : List (Nat × Json) :=
  let changed := new.filter (fun p => match old.lookup p.1 with | some o => o != p.2 | none => true)
  let gone := (old.filter (fun p => (new.lookup p.1).isNone)).map (fun p => (p.1, Json.null))
  (changed ++ gone).mergeSort (fun a b => decide (a.1 ≤ b.1))

def chJson (ch : List (Nat × Json)) : Json := jList (fun p => Json.arr #[jNat p.1, p.2]) ch

def parseCh (j : Json) : R (List (Nat × Json)) :=
  listOf (fun e => do
    let a ← asArr e
    if a.size != 2 then throw "bad change entry"
    return ((← asNat a[0]!), a[1]!)) j

/-- the declarative check of one observation of the implementation -/
def obsWf (w : World) (j : Json) : Bool :=
  if j.isNull then true else
  match j.getObjVal? "tour" with
  | .ok t =>
    match parseTourObs t, (j.getObjVal? "a" >>= Json.getNat?) with
    | .ok o, .ok a => wfObs w.nJobs (w.closedOf a) o
    | _, _ => false
  | .error _ =>
    -- a registry: the available actors are registered ones, listed once
    match (j.getObjVal? "all" >>= listOf asNat), (j.getObjVal? "avail" >>= listOf asNat) with
    | .ok all, .ok avail => avail.all (fun a => all.contains a) && avail.eraseDups.length == avail.length
                              && all.eraseDups.length == all.length
    | _, _ => false

def obsApiOk (j : Json) : Bool :=
  match j.getObjVal? "tour" with
  | .ok t => (t.getObjVal? "ok" >>= Json.getBool?).toOption.getD false
  | .error _ => true

structure Acc where
  mst : Store Obj := []
  mobs : List (Nat × Json) := []
  rst : Option (Store RObj) := some []     -- `none`: the reference stopped (operation outside the contract)
  robs : List (Nat × Json) := []
  model : Array Json := #[]
  wf : Bool := true
  api : Bool := true
  indep : Bool := true
  refRes : Bool := true
  refObs : Bool := true
  admissible : Bool := true
  refStoppedAt : Option Nat := none
  firstBad : Option Nat := none
  wfAfterStop : Bool := true   -- exploration only: do the observations stay well-formed after the contract was left

def handle (j : Json) : R (List (String × Json)) := do
  let jobs ← listF asNat j "jobs"
  let actors ← arrF j "actors"
  let closed ← actors.mapM (fun a => boolF a "closed")
  let group ← actors.mapM (fun a => natF a "g")
  let w : World := { nJobs := jobs.length, closed := closed, group := group }
  let inHyp := (fldD j "in_hyp" (Json.bool true)).getBool?.toOption.getD true
  let ops ← arrF j "ops"
  let implJ := fldD j "impl" Json.null
  let impl : List Json := match implJ with | Json.arr xs => xs.toList | _ => []
  let mut acc : Acc := {}
  let mut i := 0
  for opJ in ops do
    let implStep := impl.getD i Json.null
    let implR := fldD implStep "r" Json.null
    let implCh ← (match implStep.getObjVal? "ch" with | .ok c => parseCh c | .error _ => pure [])
    let op ← parseOp opJ implR
    -- mirror
    let (mst', out) ← Obj.step w acc.mst op
    let mobs' := observeAll (Obj.observe w.nJobs) mst'
    let stepJ := Json.mkObj [("r", outJson out), ("ch", chJson (diffObs acc.mobs mobs'))]
    acc := { acc with mst := mst', mobs := mobs', model := acc.model.push stepJ }
    -- specification on the implementation's trace
    let okWf := implCh.all (fun p => obsWf w p.2)
    let okApi := implCh.all (fun p => obsApiOk p.2)
    let okIndep := implCh.all (fun p => op.targets.contains p.1)
    let mut okRes := true
    let mut okObs := true
    let mut okAdm := true
    match acc.rst with
    | none => pure ()
    | some rst =>
      match RObj.step w rst op with
      | none => acc := { acc with rst := none, refStoppedAt := some i }
      | some (rst', rout) =>
        let robs' := observeAll (RObj.observe w.nJobs) rst'
        okAdm := rout != Out.inadmissible
        okRes := outJson rout == implR
        okObs := chJson (diffObs acc.robs robs') == chJson implCh
        acc := { acc with rst := some rst', robs := robs' }
    -- after the reference stopped (out-of-contract stream) nothing is required any more
    let active := acc.refStoppedAt.isNone
    if !active then
      acc := { acc with wfAfterStop := acc.wfAfterStop && okWf }
    if active then
      let bad := !(okWf && okApi && okIndep && okRes && okObs && okAdm)
      acc := { acc with wf := acc.wf && okWf, api := acc.api && okApi, indep := acc.indep && okIndep,
                        refRes := acc.refRes && okRes, refObs := acc.refObs && okObs,
                        admissible := acc.admissible && okAdm,
                        firstBad := if bad && acc.firstBad.isNone then some i else acc.firstBad }
    i := i + 1
  let complete := impl.length == ops.length
  let oracle := Json.mkObj [
    ("well_formed", Json.bool acc.wf), ("api_consistent", Json.bool acc.api),
    ("copies_independent", Json.bool acc.indep), ("results_match_reference", Json.bool acc.refRes),
    ("observations_match_reference", Json.bool acc.refObs), ("next_admissible", Json.bool acc.admissible),
    ("trace_complete", Json.bool complete),
    -- inside the hypotheses the reference never stops
    ("within_contract", Json.bool (!inHyp || acc.refStoppedAt.isNone)),
    ("first_bad_step", jOpt jNat acc.firstBad)]
  return [("model", Json.arr acc.model), ("oracle", oracle),
          ("explore", Json.mkObj [("reference_stopped_at", jOpt jNat acc.refStoppedAt),
                                  ("well_formed_after_stop", Json.bool acc.wfAfterStop)])]

end Drv.C14

def main : IO Unit := Drv.run Drv.C14.handle
