import Drv.EvalCase
import Drv.C15Parse
import VrpModel.C15
open Lean Drv Route C06 C15 Drv.EvalCase Drv.C15Parse

namespace Drv.C15

def handle (j : Json) : R (List (String × Json)) := do
  let m : Mat := { n := ← natF j "n", dur := ← listF asInt j "dur", dist := ← listF asInt j "dist" }
  let obj := if (← strF j "obj") == "cost" then Objective.cost else Objective.distance
  let routes ← listF (parseRouteCtx m obj) j "routes"
  let dims := (routes.headD { m := m, veh := ⟨0, 0, 0, none⟩, cap := [], costs := ⟨0, 0, 0⟩, obj := obj, tour := [] }).cap.length
  let cands ← listF (parseJob dims) j "cands"
  let impl ← fld j "impl"
  let order ← listF asNat impl "route_order"
  -- work list in the order the evaluator saw it: routes × jobs
  let items : List (Option (List Int)) := order.flatMap (fun ri =>
    match routes[ri]? with
    | none => []
    | some c => cands.map (fun jb => (evalJob c jb .any).map (·.cost)))
  let seqMin := minOpt costLe items
  let implPairs ← listF parseCost impl "pairs"
  let implPools ← listF (listOf parseCost) impl "pools"
  let implSeqMin := minOpt costLe implPairs
  let allEqMin := implPools.all (fun runs => runs.all (fun c => c == implSeqMin))
  let model := Json.mkObj [("route_order", jList jNat order), ("pairs", jList jCost items),
    ("pools", jList (fun (runs : List (Option (List Int))) => jList (fun _ => jCost seqMin) runs) implPools)]
  return [("model", model),
          ("oracle", Json.mkObj [("every_pool_and_repeat_equals_sequential_minimum", Json.bool allEqMin)]),
          ("info", Json.mkObj [("successes", jNat (implPairs.filter (·.isSome)).length),
                               ("distinct_costs", jNat (implPairs.filterMap id).eraseDups.length)])]

end Drv.C15

def main : IO Unit := Drv.run Drv.C15.handle
