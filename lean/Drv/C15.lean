import Drv.EvalCase
import Drv.C15Parse
import VrpModel.C15
open Lean Drv Route C06 C15 Drv.EvalCase Drv.C15Parse

namespace Drv.C15

def handle (j : Json) : R (List (String × Json)) := do
  if (fldD j "k" Json.null) == Json.str "swapstar" then
    -- the SWAP* operator under seven pool layouts, twice each: one outcome (tours and fitness bits), whatever the layout
    let impl ← fld j "impl"
    let outcomes ← arrF impl "outcomes"
    let same := match outcomes with
      | [] => true
      | o :: rest => rest.all (fun x => x.compress == o.compress)
    return [("model", impl),
            ("oracle", Json.mkObj [("swap_star_outcome_does_not_depend_on_the_pool", Json.bool same)]),
            ("info", Json.mkObj [("successes", jNat 2), ("multi_task_candidates", jNat 0), ("distinct_costs", jNat 2)])]
  let m : Mat := { n := ← natF j "n", dur := ← listF asInt j "dur", dist := ← listF asInt j "dist" }
  let obj := if (← strF j "obj") == "cost" then Objective.cost else Objective.distance
  let routes ← listF (parseRouteCtx m obj) j "routes"
  let dims := (routes.headD { m := m, veh := ⟨0, 0, 0, none⟩, cap := [], costs := ⟨0, 0, 0⟩, obj := obj, tour := [] }).cap.length
  -- a multi-task candidate (`multi`) is evaluated by `eval_multi`, which the model does not predict: its unpruned cost is
  -- taken over from the implementation's own sequential scan (traced), everything else is predicted from the bare tours
  let candsJ ← arrF j "cands"
  -- work lists evaluated under the heuristic goal (known_edge objective on a footprint): the cost vector has a layer the
  -- model does not predict; the unpruned pair costs are taken from the implementation's own sequential scan (traced)
  let fp := (j.getObjVal? "fp").isOk
  let cands : List (Option JobS) ← candsJ.mapM (fun cj =>
    match cj.getObjVal? "multi", fp with
    | _, true => pure none
    | .ok _, _ => pure none
    | .error _, _ => do pure (some (← parseJob dims cj)))
  let impl ← fld j "impl"
  let order ← listF asNat impl "route_order"
  let implPairs ← listF parseCost impl "pairs"
  -- work list in the order the evaluator saw it: routes × jobs
  let items : List (Option (List Int)) := (order.zipIdx).flatMap (fun (ri, pos) =>
    match routes[ri]? with
    | none => []
    | some c => (cands.zipIdx).map (fun (jb, k) =>
        match jb with
        | some job => (evalJob c job .any).map (·.cost)
        | none => (implPairs[pos * cands.length + k]?).join))
  let seqMin := minOpt costLe items
  let implPools ← listF (listOf parseCost) impl "pools"
  let implSeqMin := minOpt costLe implPairs
  let allEqMin := implPools.all (fun runs => runs.all (fun c => c == implSeqMin))
  let model := Json.mkObj [("route_order", jList jNat order), ("pairs", jList jCost items),
    ("pools", jList (fun (runs : List (Option (List Int))) => jList (fun _ => jCost seqMin) runs) implPools)]
  return [("model", model),
          ("oracle", Json.mkObj [("every_pool_and_repeat_equals_sequential_minimum", Json.bool allEqMin)]),
          ("info", Json.mkObj [("successes", jNat (implPairs.filter (·.isSome)).length),
                               ("multi_task_candidates", jNat (cands.filter (·.isNone)).length),
                               ("distinct_costs", jNat (implPairs.filterMap id).eraseDups.length)])]

end Drv.C15

def main : IO Unit := Drv.run Drv.C15.handle
