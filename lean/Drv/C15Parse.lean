import Drv.EvalCase
/-! glue shared by the multi-route drivers (C15, C05) -/
open Lean Drv Route C06 Drv.EvalCase

namespace Drv.C15Parse

def parseRouteCtx (m : Mat) (obj : Objective) (j : Json) : R Ctx := do
  -- reuse the single-route parser by assembling the fields it expects
  let full := Json.mkObj [("n", jNat m.n), ("dur", jList jInt m.dur), ("dist", jList jInt m.dist),
    ("veh", ← fld j "veh"), ("cap", ← fld j "cap"), ("costs", ← fld j "costs"),
    ("obj", Json.str (if obj == .cost then "cost" else "distance")), ("tour", ← fld j "tour")]
  parseCtx full

def jCost : Option (List Int) → Json
  | none => Json.null
  | some c => jList jInt c

def parseCost (j : Json) : R (Option (List Int)) := optOf (listOf asInt) j

end Drv.C15Parse
