import Drv.Common
import VrpModel.C16
open Lean Drv C16

namespace Drv.C16

/-! JSON glue for C16: rationals travel as `[num, den]`. -/

def ratOf (j : Json) : R Rat := do
  let a ← asArr j
  if a.size != 2 then throw "rational: expected [num, den]"
  let n ← asInt a[0]!
  let d ← asNat a[1]!
  if d == 0 then throw "rational: zero denominator"
  pure (mkRat n d)

def jRat (r : Rat) : Json := Json.arr #[jInt r.num, jNat r.den]

structure Query where
  v : Nat
  frm : Nat
  to : Nat
  at_ : Rat

def parseQuery (j : Json) : R Query := do
  pure ⟨← natF j "v", ← natF j "f", ← natF j "t", ← ratOf (← fld j "at")⟩

def parseMatrixData (j : Json) : R MatrixData := do
  pure ⟨← natF j "p", ← optF asInt j "ts", ← listF asInt j "dur", ← listF asInt j "dist"⟩

def parseApiMatrix (j : Json) : R ApiMatrix := do
  pure ⟨← optF asStr j "name", ← optF asInt j "ts", ← listF asInt j "tt", ← listF asInt j "dist",
        ← optF (listOf asInt) j "err"⟩

def parseApiVehicle (j : Json) : R ApiVehicle := do
  pure ⟨← strF j "prof", ← optF ratOf j "sc"⟩

/-- the four trait methods of one query; `null` when the real code would panic in any of them -/
def answer (pr : Provider) (fb : Fallback) (p : Profile) (q : Query) : Json :=
  match pr.duration fb p q.frm q.to q.at_, pr.distance fb p q.frm q.to q.at_,
        pr.durationApprox fb p q.frm q.to, pr.distanceApprox fb p q.frm q.to with
  | some a, some b, some c, some d => Json.arr #[jRat a, jRat b, jRat c, jRat d]
  | _, _, _, _ => Json.null

/-- the implementation's answer to a query: `none` = null (panic), else the four rationals -/
def implAnswer (j : Json) : R (Option (Rat × Rat × Rat × Rat)) := do
  if j.isNull then return none
  let a ← asArr j
  if a.size != 4 then throw "answer: expected 4 values"
  return some (← ratOf a[0]!, ← ratOf a[1]!, ← ratOf a[2]!, ← ratOf a[3]!)

def buildErrorName : BuildError → String
  | .empty => "empty" | .lenMismatch => "lenMismatch" | .distSize => "distSize" | .durSize => "durSize"
  | .notSquare => "notSquare" | .duplicateTimestamp => "duplicateTimestamp"
  | .timedInAgnostic => "timedInAgnostic" | .agnosticProfiles => "agnosticProfiles"
  | .missingTimestamp => "missingTimestamp" | .singleTimed => "singleTimed"

def readerErrorName : ReaderError → String
  | .mixedNames => "mixedNames" | .timedUnnamed => "timedUnnamed" | .notEnough => "notEnough"
  | .invalidIndex => "invalidIndex" | .errorCodesLength => "errorCodesLength" | .profileCount => "profileCount" | .unknownName => "unknownName" | .mixedKnownNames => "mixedKnownNames"
  | .build e => buildErrorName e

def optEq (a : Option Rat) (b : Rat) : Bool :=
  match a with
  | some x => x == b
  | none => false

/-- ORACLE (values): every in-range answer of the implementation equals the specification computed from the
    unsorted input; `specDu`/`specDi` give the spec for (vehicle, from, to, time) -/
def valuesMatch (size : Nat) (qs : List Query) (impl : List (Option (Rat × Rat × Rat × Rat)))
    (specDu specDi : Query → Rat → Option Rat) : Bool :=
  (qs.zip impl).all (fun (q, r) =>
    if q.frm < size && q.to < size then
      match r with
      | none => false                                    -- an in-range query must not panic
      | some (du, di, adu, adi) =>
        optEq (specDu q q.at_) du && optEq (specDi q q.at_) di && optEq (specDu q 0) adu && optEq (specDi q 0) adi
    else true)

/-- ORACLE: all vehicles of one profile see the same distances and durations proportional to their scales -/
def sameForProfile (qs : List Query) (impl : List (Option (Rat × Rat × Rat × Rat)))
    (profOf : Nat → Option (Nat × Rat)) : Bool :=
  let rows := qs.zip impl
  rows.all (fun (q1, r1) => rows.all (fun (q2, r2) =>
    match profOf q1.v, profOf q2.v, r1, r2 with
    | some (p1, s1), some (p2, s2), some (du1, di1, _, _), some (du2, di2, _, _) =>
      if p1 == p2 && q1.frm == q2.frm && q1.to == q2.to && q1.at_ == q2.at_ then
        di1 == di2 && du1 * s2 == du2 * s1
      else true
    | _, _, _, _ => true))

def handleCore (j : Json) : R (List (String × Json)) := do
  let ms ← listF parseMatrixData j "ms"
  let fb : Fallback ← optF (fun f => do
      let a ← asArr f
      pure ((← asInt a[0]!), (← asInt a[1]!))) j "fb"
  let vs ← listF (fun v => do pure (⟨← natF v "p", ← ratOf (← fld v "sc")⟩ : Profile)) j "vs"
  let qs ← listF parseQuery j "qs"
  let impl ← fld j "impl"
  let implErr := (impl.getObjVal? "err").toOption
  let model : Json :=
    match build ms with
    | .error e => Json.mkObj [("err", Json.str (buildErrorName e))]
    | .ok pr =>
      Json.mkObj [("size", jNat pr.size),
        ("rs", jList (fun q => match vs[q.v]? with
          | some p => answer pr fb p q
          | none => Json.null) qs)]
  -- oracles on the implementation's output
  let rejects := !(inconsistent ms) || implErr.isSome
  -- the converse: a well-formed set is served (theorem `well_formed_is_served`)
  let n0 := match ms with
    | [] => 0
    | m :: _ => Nat.sqrt m.durations.length
  let serves := !(wellFormed ms n0) || implErr.isNone
  let mut values := true
  let mut same := true
  if implErr.isNone && !(impl.getObjVal? "inexact").toOption.isSome then
    let size ← natF impl "size"
    let rs ← listF implAnswer impl "rs"
    let n := match ms with
      | [] => 0
      | m :: _ => Nat.sqrt m.durations.length
    values := size == n && valuesMatch size qs rs
      (fun q t => (vs[q.v]?).bind (fun p => specDuration ms n p q.frm q.to t))
      (fun q t => (vs[q.v]?).bind (fun p => specDistance ms n p q.frm q.to t))
    same := sameForProfile qs rs (fun v => (vs[v]?).map (fun p => (p.index, p.scale)))
  return [("model", model),
          ("oracle", Json.mkObj [("rejects_inconsistent", Json.bool rejects),
                                 ("serves_well_formed", Json.bool serves),
                                 ("returns_supplied_entry", Json.bool values),
                                 ("same_for_all_vehicles_of_profile", Json.bool same)])]

/-- SPEC (reader level): what makes the routing input of a pragmatic problem inconsistent -/
def readerInconsistent (profiles : List String) (maxIndex : Nat) (ms : List ApiMatrix) : Bool :=
  let n := maxIndex + 1
  ms.isEmpty ||
  (ms.any (fun m => m.profile.isSome) && ms.any (fun m => m.profile.isNone)) ||
  (ms.any (fun m => m.profile.isNone) && ms.any (fun m => m.timestamp.isSome)) ||
  !(namesKnown profiles ms) ||
  ms.any (fun m => m.travelTimes.length != n * n || m.distances.length != n * n ||
    (match m.errorCodes with
     | some c => c.length != n * n
     | none => false)) ||
  profiles.any (fun p => inconsistent (namedFor profiles ms p))

def handlePrag (j : Json) : R (List (String × Json)) := do
  let profiles ← listF asStr j "profiles"
  let vs ← listF parseApiVehicle j "vs"
  let locs ← listF asNat j "locs"
  let ms ← listF parseApiMatrix j "ms"
  let qs ← listF parseQuery j "qs"
  let dev := (fldD j "dev" Json.null)
  let devName := dev.getStr?.toOption.getD ""
  let inHyp := (fldD j "in_hyp" (Json.bool true)).getBool?.toOption.getD true
  let impl ← fld j "impl"
  let implErr := (impl.getObjVal? "err").toOption
  let maxIndex := locs.foldl max 0
  let codes := validateRouting profiles vs maxIndex ms
  let withUnk := (fldD j "unk" (Json.bool false)).getBool?.toOption.getD false
  let fb : Fallback := if withUnk then unknownFallback else none
  let cidx := customIndex locs
  let model : Json :=
    if !codes.isEmpty then Json.mkObj [("err", jList Json.str codes)]
    else
      match createTransportCosts readerMode profiles ms with
      | .error e => Json.mkObj [("err", jList Json.str ["E0002:" ++ readerErrorName e])]
      | .ok pr =>
        let probe (f t : Nat) : Json := match (vs[0]?).bind (vehicleProfile profiles) with
          | some p => answer pr fb p ⟨0, f, t, 0⟩
          | none => Json.null
        Json.mkObj ([("size", jNat pr.size),
          ("rs", jList (fun q => match (vs[q.v]?).bind (vehicleProfile profiles) with
            | some p => answer pr fb p q
            | none => Json.null) qs)] ++
          (if withUnk then [("unk", Json.mkObj [("idx", jNat cidx),
              ("to", jList (fun i => probe i cidx) (List.range pr.size)),
              ("from", jList (fun i => probe cidx i) (List.range pr.size)),
              ("self", probe cidx cidx)])] else []))
  -- a deviation case (S28 / D1 / D2) that is still outside the hypotheses is exempt from the oracle it is about
  let exempt (name : String) : Bool := devName == name && !inHyp
  -- a set in which no matrix name is a fleet profile (stream S28u) is mapped by position: documented behaviour
  let unknownRejected := namesKnown profiles ms || implErr.isSome || exempt "S28u"
  let rejects := !(readerInconsistent profiles maxIndex ms) || implErr.isSome || !inHyp
  -- the converse at reader level: a valid routing input (known names, one well-formed group per fleet profile, all of
  -- the size the locations need) is accepted
  let nn := maxIndex + 1
  let readerWellFormed :=
    !profiles.isEmpty && !hasDuplicates profiles && vs.all (fun v => profiles.contains v.matrix) &&
    !(readerInconsistent profiles maxIndex ms) &&
    (if ms.all (fun m => m.profile.isNone) then ms.length == profiles.length && ms.all (fun m => m.timestamp.isNone)
     else
       ms.all (fun m => m.profile.isSome) &&
       (profiles.all (fun p => wellFormed ((namedFor profiles ms p).map (fun d => { d with index := 0 })) nn)) &&
       (ms.all (fun m => m.timestamp.isSome) || ms.all (fun m => m.timestamp.isNone)))
  let serves := !readerWellFormed || implErr.isNone
  let mut values := true
  let mut same := true
  let mut unreachable := true
  if implErr.isNone && !(impl.getObjVal? "inexact").toOption.isSome &&
      !(impl.getObjVal? "panic").toOption.isSome && inHyp then
    let size ← natF impl "size"
    let rs ← listF implAnswer impl "rs"
    let n := maxIndex + 1
    values := size == n && valuesMatch size qs rs
      (fun q t => (vs[q.v]?).bind (fun v => specReaderDuration profiles ms n v q.frm q.to t))
      (fun q t => (vs[q.v]?).bind (fun v => specReaderDistance profiles ms n v q.frm q.to t))
    same := sameForProfile qs rs (fun v => (vs[v]?).bind (fun a =>
      (profileIndex profiles a.matrix).map (fun i => (i, a.scale.getD 1))))
    -- unreachable entries of an untimed matrix surface as negative values (scale > 0)
    unreachable := (qs.zip rs).all (fun (q, r) =>
      match vs[q.v]?, r with
      | some v, some (du, di, _, _) =>
        match namedFor profiles ms v.matrix, ms.filter (fun m => m.profile == some v.matrix || m.profile.isNone) with
        | [_], _ =>
          let flagged := ms.any (fun m =>
            (m.profile == some v.matrix ||
              (m.profile.isNone && (profileIndex profiles v.matrix).bind (fun i => ms[i]?) == some m)) &&
            m.timestamp.isNone &&
            (match m.errorCodes with
             | some c => c.getD (q.frm * n + q.to) 0 > 0
             | none => false))
          !(flagged && q.frm < n && q.to < n) || (di < 0 && (v.scale.getD 1 ≤ 0 || du < 0))
        | _, _ => true
      | _, _ => true)
  -- the location of custom type `unknown` is at zero duration and distance from every location (D3 exempt)
  let mut unkZero := true
  if withUnk && implErr.isNone && !(impl.getObjVal? "panic").toOption.isSome then
    match (impl.getObjVal? "unk").toOption with
    | none => unkZero := false
    | some u =>
      let to ← listF implAnswer u "to"
      let frm ← listF implAnswer u "from"
      let self ← implAnswer (← fld u "self")
      unkZero := (to ++ frm ++ [self]).all (fun r => match r with
        | some (a, b, c, d) => a == 0 && b == 0 && c == 0 && d == 0
        | none => false)
  return [("model", model),
          ("oracle", Json.mkObj [("rejects_inconsistent", Json.bool rejects),
                                 ("serves_well_formed", Json.bool serves),
                                 ("unknown_location_is_at_zero", Json.bool unkZero),
                                 ("unknown_name_rejected", Json.bool unknownRejected),
                                 ("reader_maps_by_name", Json.bool values),
                                 ("same_for_all_vehicles_of_profile", Json.bool same),
                                 ("unreachable_is_negative", Json.bool unreachable)])]

def handleSimple (j : Json) : R (List (String × Json)) := do
  let dur ← listF asInt j "dur"
  let dist ← listF asInt j "dist"
  let qs ← listF (fun q => do pure ((← natF q "f"), (← natF q "t"))) j "qs"
  let impl ← fld j "impl"
  let model : Json :=
    match Simple.new dur dist with
    | none => Json.mkObj [("err", Json.str "len")]
    | some s => Json.mkObj [("size", jNat s.size),
        ("rs", jList (fun (f, t) => Json.arr #[jInt (s.duration f t), jInt (s.distance f t)]) qs)]
  let mut ok := true
  if (impl.getObjVal? "err").toOption.isNone then
    let size ← natF impl "size"
    let rs ← listF (listOf asInt) impl "rs"
    -- the entry at (from, to) of the supplied row-major matrices, for pairs inside the matrix
    ok := (qs.zip rs).all (fun ((f, t), r) =>
      !(f < size && t < size && size * size == dur.length && size * size == dist.length) ||
        (r == [dur.getD (f * size + t) 0, dist.getD (f * size + t) 0]))
  else
    -- rejected only when the two collections describe matrices of different dimension
    ok := Nat.sqrt dur.length != Nat.sqrt dist.length || dur.length != (Nat.sqrt dur.length) ^ 2 ||
      dist.length != (Nat.sqrt dist.length) ^ 2
  return [("model", model), ("oracle", Json.mkObj [("returns_supplied_entry", Json.bool ok)])]

/-- an `f64` bit pattern of a non-negative finite number as a rational -/
def ratOfBits (b : Nat) : Rat :=
  let e : Nat := (b / 2 ^ 52) % 2048
  let f : Nat := b % 2 ^ 52
  if e == 0 then mkRat (f : Int) (2 ^ 1074)
  else if e ≥ 1075 then (((2 ^ 52 + f) * 2 ^ (e - 1075) : Nat) : Rat)
  else mkRat ((2 ^ 52 + f : Nat) : Int) (2 ^ (1075 - e))

def handleEuclid (j : Json) : R (List (String × Json)) := do
  let pts ← listF (fun p => do
    let a ← asArr p
    pure ((← asInt a[0]!), (← asInt a[1]!))) j "pts"
  let rounded ← boolF j "rounded"
  let impl ← fld j "impl"
  let uniq := collectPoints pts []
  let ids := pts.map (fun p => uniq.idxOf p)
  let n := uniq.length
  let base := [("ids", jList jNat ids), ("size", jNat n), ("same", Json.bool true)]
  let idx := List.range n
  let implSize ← natF impl "size"
  let implSame ← boolF impl "same"
  if rounded && !(fldD impl "non_integral" Json.null).isNull then
    -- the implementation's rounded matrix has a non-integral entry
    let bits ← listF asNat impl "bits"
    let at_ (f t : Nat) : Nat := bits.getD (f * implSize + t) 1
    let sym := idx.all (fun f => idx.all (fun t => at_ f t == at_ t f))
    return [("model", Json.mkObj (base ++ [("m", jList jNat (euclidRounded uniq))])),
            ("oracle", Json.mkObj [("rounded_entries_integral", Json.bool false), ("symmetric", Json.bool (sym && implSize == n)),
                                   ("four_methods_agree", Json.bool implSame)])]
  else if rounded then
    let m ← listF asInt impl "m"
    let at_ (f t : Nat) : Int := m.getD (f * implSize + t) (-1)
    let sym := idx.all (fun f => idx.all (fun t => at_ f t == at_ t f))
    let diag := idx.all (fun f => at_ f f == 0)
    -- nearest integer to the Euclidean distance: (2 v - 1)^2 <= 4 d^2 <= (2 v + 1)^2
    let near := idx.all (fun f => idx.all (fun t =>
      let v := at_ f t
      let s : Int := sqDist (uniq.getD f (0, 0)) (uniq.getD t (0, 0))
      v ≥ 0 && (v == 0 || (2 * v - 1) * (2 * v - 1) ≤ 4 * s) && 4 * s ≤ (2 * v + 1) * (2 * v + 1)))
    return [("model", Json.mkObj (base ++ [("m", jList jNat (euclidRounded uniq))])),
            ("oracle", Json.mkObj [("symmetric", Json.bool (sym && implSize == n)), ("zero_diagonal", Json.bool diag),
                                   ("nearest_integer", Json.bool near), ("four_methods_agree", Json.bool implSame)])]
  else
    let bits ← listF asNat impl "bits"
    let at_ (f t : Nat) : Nat := bits.getD (f * implSize + t) 1
    let sym := idx.all (fun f => idx.all (fun t => at_ f t == at_ t f))
    let diag := idx.all (fun f => at_ f f == 0)
    -- within one part in 2^51 of the exact square root
    let close := idx.all (fun f => idx.all (fun t =>
      let v := ratOfBits (at_ f t)
      let s : Rat := ((sqDist (uniq.getD f (0, 0)) (uniq.getD t (0, 0)) : Nat) : Rat)
      let lo := v * (1 - mkRat 1 (2 ^ 51))
      let hi := v * (1 + mkRat 1 (2 ^ 51))
      lo * lo ≤ s && s ≤ hi * hi))
    return [("model", Json.mkObj (base ++ [("bits", Json.null)])),
            ("oracle", Json.mkObj [("symmetric", Json.bool (sym && implSize == n)), ("zero_diagonal", Json.bool diag),
                                   ("close_to_sqrt", Json.bool close), ("four_methods_agree", Json.bool implSame)])]

def handleApprox (j : Json) : R (List (String × Json)) := do
  let profs ← listF (fun p => do pure ((← strF p "name"), (← optF asInt p "speed"))) j "profiles"
  let vs ← listF parseApiVehicle j "vs"
  let impl ← fld j "impl"
  let matsJ ← fld impl "mats"
  let mats ← listOf (fun m => do
    pure ((← strF m "name"), (← listF asInt m "tt"), (← listF asInt m "dist"))) matsJ
  let names := profs.map (·.1)
  let api : List ApiMatrix := mats.map (fun (n, tt, d) => ⟨some n, none, tt, d, none⟩)
  let n := match mats with
    | [] => 0
    | (_, _, d) :: _ => Nat.sqrt d.length
  let readModel : Json :=
    match createTransportCosts readerMode names api with
    | .error e => Json.mkObj [("err", jList Json.str ["E0002:" ++ readerErrorName e])]
    | .ok pr =>
      let pairs := (List.range pr.size).flatMap (fun f => (List.range pr.size).map (fun t => (f, t)))
      Json.mkObj [("size", jNat pr.size),
        ("vs", jList (fun v =>
          match vehicleProfile names v with
          | some p => Json.mkObj [
              ("du", jList (fun (f, t) => jOpt jRat (pr.duration none p f t 0)) pairs),
              ("di", jList (fun (f, t) => jOpt jRat (pr.distance none p f t 0)) pairs)]
          | none => Json.null) vs)]
  let idx := List.range n
  let get (l : List Int) (f t : Nat) : Int := l.getD (f * n + t) (-1)
  -- the approximation itself: one matrix per profile in profile order, n × n, symmetric, zero diagonal, non-negative
  let shape := mats.map (·.1) == names && mats.all (fun (_, tt, d) => tt.length == n * n && d.length == n * n)
  let sym := mats.all (fun (_, tt, d) => idx.all (fun f => idx.all (fun t =>
    get tt f t == get tt t f && get d f t == get d t f)))
  let diag := mats.all (fun (_, tt, d) => idx.all (fun f => get tt f f == 0 && get d f f == 0))
  let nonneg := mats.all (fun (_, tt, d) => tt.all (· ≥ 0) && d.all (· ≥ 0))
  -- distances do not depend on the profile; duration = distance / speed up to the two roundings
  let sameDist := mats.all (fun (_, _, d) => some d == (mats.head?.map (·.2.2)))
  let speedOk := (mats.zip profs).all (fun ((_, tt, d), (_, sp)) =>
    let s : Int := sp.getD 10
    (tt.zip d).all (fun (a, b) => 2 * (a * s - b).natAbs ≤ s.natAbs + 1))
  -- the provider read_pragmatic builds: every vehicle sees the approximated matrix of its profile, durations times scale
  let readJ ← fld impl "read"
  let mut provided := (readJ.getObjVal? "err").toOption.isNone
  if provided then
    let size ← natF readJ "size"
    let perV ← arrF readJ "vs"
    provided := size == n && (vs.zip perV).all (fun (v, r) =>
      match mats.find? (fun (nm, _, _) => nm == v.matrix),
            (listF (optOf ratOf) r "du").toOption, (listF (optOf ratOf) r "di").toOption with
      | some (_, tt, d), some du, some di =>
        du == tt.map (fun (x : Int) => some ((x : Rat) * v.scale.getD 1)) && di == d.map (fun (x : Int) => some (x : Rat))
      | _, _, _ => false)
  return [("model", Json.mkObj [("mats", matsJ), ("read", readModel)]),
          ("oracle", Json.mkObj [("shape", Json.bool shape), ("symmetric", Json.bool sym),
                                 ("provider_returns_approximation", Json.bool provided),
                                 ("zero_diagonal", Json.bool diag), ("non_negative", Json.bool nonneg),
                                 ("same_distances", Json.bool sameDist), ("duration_is_distance_over_speed", Json.bool speedOk)])]

def handle (j : Json) : R (List (String × Json)) := do
  let k ← strF j "k"
  if k == "core" then handleCore j
  else if k == "prag" then handlePrag j
  else if k == "simple" then handleSimple j
  else if k == "euclid" then handleEuclid j
  else if k == "approx" then handleApprox j
  else throw s!"unknown case kind {k}"

end Drv.C16

def main : IO Unit := Drv.run Drv.C16.handle
