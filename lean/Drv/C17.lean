import Drv.Common
import VrpModel.C17
open Lean Drv C17

namespace Drv.C17

def pairOf (j : Json) : R (Nat × Nat) := do
  let l ← listOf asNat j
  match l with
  | [a, b] => pure (a, b)
  | _ => throw "edge is not a pair"

/-- matrix lookup, 0 outside -/
def lookup (m : Array (Array Int)) (i k : Nat) : Int := (m.getD i #[]).getD k 0

def matF (j : Json) (k : String) : R (Array (Array Int)) := do
  let rows ← listF (listOf asInt) j k
  pure (rows.map (·.toArray)).toArray

def tableF (j : Json) (k : String) : R (Array (List Nat)) := do
  let rows ← listF (listOf asNat) j k
  pure rows.toArray

def jPath (p : List Nat) : Json := jList jNat p
def jClusters (cl : KMed.Clusters) : Json := jList (fun kv => Json.arr #[jNat kv.1, jPath kv.2]) cl

def clusterOf (j : Json) : R (Nat × List Nat) := do
  let a ← asArr j
  match a.toList with
  | [k, v] => pure (← asNat k, ← listOf asNat v)
  | _ => throw "cluster is not a [key, points] pair"

/-- insertion sort of clusters by key (canonical order of a `HashMap`'s content) -/
def sortByKey (cl : KMed.Clusters) : KMed.Clusters :=
  cl.foldl (fun acc kv =>
    let lo := acc.filter (fun x => x.1 ≤ kv.1)
    let hi := acc.filter (fun x => !(x.1 ≤ kv.1))
    lo ++ [kv] ++ hi) []

def bool (b : Bool) : Json := Json.bool b

def handle (j : Json) : R (List (String × Json)) := do
  let k ← strF j "k"
  let impl ← fld j "impl"
  if k == "trypath" then
    let path ← listF asNat j "path"
    let broken ← listF pairOf j "broken"
    let joined ← listF pairOf j "joined"
    let cm ← matF j "c"
    let c := lookup cm
    let model := Lkh.tryPathHook path broken joined
    let bs := Lkh.mkSet (broken.map (fun p => Lkh.mkEdge p.1 p.2))
    let js := Lkh.mkSet (joined.map (fun p => Lkh.mkEdge p.1 p.2))
    let es := Lkh.surgery path bs js
    -- the specification on the implementation's own answer
    let implR ← optOf (listOf asNat) (← fld impl "r")
    let nodup := nodupB path
    let hyp := nodup && js.all (fun e => path.contains e.1 && path.contains e.2)
    let oracle : List (String × Json) :=
      match implR with
      | none => [("perm", bool true), ("degree_preserving_move_uses_exactly_the_set", bool true), ("start", bool true), ("legs_in_surgered_set", bool true), ("cost_accounting", bool true)]
      | some q =>
        let exact := Lkh.moveOk path bs js && nodup && es.length == path.length && Lkh.usesExactly q es
        let degMove := hyp && path.length ≥ 3 && es.length == path.length && Lkh.degOk path es
        [("perm", bool (!hyp || Lkh.isPermOf q path)),
         ("degree_preserving_move_uses_exactly_the_set", bool (!degMove || Lkh.usesExactly q es)),
         ("start", bool (Lkh.sameStart q path)),
         ("legs_in_surgered_set", bool (Lkh.legsIn q es)),
         ("cost_accounting", bool (!exact ||
            Lkh.closedCost c q == Lkh.closedCost c path - Lkh.edgeSum c bs + Lkh.edgeSum c js))]
    let exactI := match implR with
      | none => false
      | some q => Lkh.moveOk path bs js && nodup && es.length == path.length && Lkh.usesExactly q es
    return [("model", Json.mkObj [("r", jOpt jPath model)]), ("oracle", Json.mkObj oracle),
            ("info", Json.mkObj [("hyp", bool hyp), ("exact", bool exactI)])]
  else if k == "lkh" then
    let path ← listF asNat j "path"
    let cm ← matF j "c"
    let c := lookup cm
    -- no executable model of the neighbour search (HashMap order): the contract is checked on the output
    match impl.getObjVal? "paths" with
    | .ok ps =>
      let paths ← listOf (listOf asNat) ps
      let nodup := nodupB path
      return [("model", Json.null), ("oracle", Json.mkObj [
        ("returned", bool true),
        ("nonempty", bool (!paths.isEmpty)),
        ("perm", bool (!nodup || paths.all (fun q => Lkh.isPermOf q path))),
        ("start", bool (paths.all (fun q => Lkh.sameStart q path))),
        ("cost_not_above_input", bool (paths.all (fun q => Lkh.closedCost c q ≤ Lkh.closedCost c path)))])]
    | .error _ =>
      let notRun := (impl.getObjVal? "not_run").isOk
      return [("model", Json.null), ("oracle", Json.mkObj [("returned", bool notRun)]), ("not_run", bool notRun)]
  else if k == "lkh_grid" then
    -- bulk search inside the harness: the verdict is what it found (instances that exceeded the evaluation budget, instances
    -- whose result is no permutation with the same start and a cost not above the input)
    let exceeded ← arrF impl "exceeded"
    let broken ← arrF impl "contract_broken"
    return [("model", Json.null), ("oracle", Json.mkObj [
      ("every_instance_returned_within_the_evaluation_budget", bool exceeded.isEmpty),
      ("every_result_is_a_permutation_with_the_same_start_and_no_higher_cost", bool broken.isEmpty)]),
      ("info", Json.mkObj [("instances", fldD impl "instances" Json.null)])]
  else if k == "lkh_pts" then
    -- Euclidean costs (f64 square roots in the implementation): the cost clause is decided on square roots scaled by
    -- 10^12 and rounded down, with one unit of slack per leg; termination, permutation and start are exact
    let path ← listF asNat j "path"
    let pts ← listF (fun p => do
      let a ← asArr p
      pure ((← asInt a[0]!), (← asInt a[1]!))) j "pts"
    let sq (a b : Nat) : Nat :=
      let p := pts.getD a (0, 0)
      let q := pts.getD b (0, 0)
      ((p.1 - q.1) * (p.1 - q.1) + (p.2 - q.2) * (p.2 - q.2)).toNat
    let scaled (a b : Nat) : Nat := Nat.sqrt (sq a b * 10 ^ 24)
    let closed (q : List Nat) : Nat :=
      match q with
      | [] => 0
      | h :: _ => ((q.zip (q.drop 1 ++ [h])).map (fun e => scaled e.1 e.2)).sum
    match impl.getObjVal? "paths" with
    | .ok ps =>
      let paths ← listOf (listOf asNat) ps
      let nodup := nodupB path
      return [("model", Json.null), ("oracle", Json.mkObj [
        ("returned", bool true),
        ("nonempty", bool (!paths.isEmpty)),
        ("perm", bool (!nodup || paths.all (fun q => Lkh.isPermOf q path))),
        ("start", bool (paths.all (fun q => Lkh.sameStart q path))),
        ("cost_not_above_input", bool (paths.all (fun q => closed q ≤ closed path + path.length + 1)))])]
    | .error _ =>
      let notRun := (impl.getObjVal? "not_run").isOk
      return [("model", Json.null), ("oracle", Json.mkObj [("returned", bool notRun)]), ("not_run", bool notRun)]
  else if k == "dbscan" then
    let n ← natF j "n"
    let points ← listF asNat j "points"
    let tbl ← tableF j "nb"
    let minPts ← natF j "min_pts"
    let nb (p : Nat) : List Nat := tbl.getD p []
    let fuel := Dbscan.fuelBound nb (List.range n)
    let model := Dbscan.createClusters nb minPts fuel points
    let cs ← listOf (listOf asNat) impl
    return [("model", jOpt (jList jPath) model),
            ("oracle", Json.mkObj [
              ("disjoint", bool (Dbscan.specDisjoint cs)),
              ("seed_is_core", bool (Dbscan.specSeedCore nb minPts points cs)),
              ("members_reachable", bool (Dbscan.specReachable nb minPts (n + 1) cs)),
              ("no_core_unclustered", bool (Dbscan.specNoCoreLeft nb minPts points cs))])]
  else if k == "kmed" then
    let points ← listF asNat j "points"
    let dm ← matF j "d"
    let d := lookup dm
    let kk ← natF j "kk"
    let cl ← listOf clusterOf impl
    let keys := cl.map (·.1)
    let strict := points.all (fun x => points.all (fun y => if x == y then d x y == 0 else d x y > 0))
    let enough := points.eraseDups.length ≥ kk
    -- exact comparison where the answer is determined by the medoids: no point with two nearest medoids
    let tie := points.any (fun p => keys.any (fun m => keys.any (fun m' => m != m' && d p m == d p m' &&
      keys.all (fun m'' => d p m ≤ d p m''))))
    let model : Json :=
      if cl.isEmpty then (if points.isEmpty || !enough then jClusters [] else Json.null)
      else if tie then Json.null
      else match KMed.assign d points keys with
        | some r => jClusters (sortByKey r)
        | none => Json.str "panic"
    let oracle : List (String × Json) :=
      if !enough then [("empty_when_fewer_points_than_k", bool cl.isEmpty)]
      else [("partition", bool (KMed.specPartition points cl)),
            ("nearest_own_medoid", bool (KMed.specNearest d cl)),
            ("medoids_are_points", bool (KMed.specKeysInData points cl)),
            ("at_most_k", bool (cl.length ≤ max kk 1)),
            ("medoid_in_own_cluster", bool (!strict || KMed.specKeyInOwn cl)),
            ("k_clusters_when_strict", bool (!strict || cl.length == min (max kk 1) points.length))]
    return [("model", model), ("oracle", Json.mkObj oracle),
            ("info", Json.mkObj [("tie", bool tie), ("strict", bool strict), ("enough", bool enough)])]
  else if k == "hier" then
    let points ← listF asNat j "points"
    let dm ← matF j "d"
    let d := lookup dm
    let levels ← natF j "levels"
    let tiers ← listOf (listOf clusterOf) impl
    let strict := points.all (fun x => points.all (fun y => if x == y then d x y == 0 else d x y > 0))
    let stopOk := tiers.length == levels ||
      (match tiers.getLast? with
       | none => points.length ≤ 4
       | some t => t.all (fun kv => kv.2.length ≤ 4))
    -- exact model of the scan (propagation of unsplit clusters, map inserts, stop rules); the individual
    -- `create_kmedoids(.., 2, ..)` calls are looked up in the implementation's own next tier
    let tiersA := tiers.toArray
    let splitImpl (i : Nat) (data : List Nat) : KMed.Clusters :=
      match tiersA[i]? with
      | none => []
      | some tier => sortByKey (tier.filter (fun kv => !kv.2.isEmpty && KMed.inside kv.2 data))
    let model := (KMed.createHier splitImpl points levels).map sortByKey
    return [("model", jList jClusters model),
            ("oracle", Json.mkObj [
              ("per_split_contract", bool (KMed.specHier d points [points] tiers)),
              ("at_most_levels", bool (tiers.length ≤ levels)),
              ("tier_has_big_cluster", bool (tiers.all (fun t => t.any (fun kv => kv.2.length > 2)))),
              ("stops_only_when_small", bool stopOk),
              ("medoid_in_own_cluster", bool (!strict || tiers.all KMed.specKeyInOwn))])]
  else throw s!"unknown case kind {k}"

end Drv.C17

def main : IO Unit := Drv.run Drv.C17.handle
