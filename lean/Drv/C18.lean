import Drv.Common
import VrpModel.C18
open Lean Drv C18

/-!
Driver of C18. Floats travel as binary64 bit patterns. A model value is printed either as the bit pattern of the
rational (when every intermediate of the Rust expression is representable, so `f64` arithmetic was exact) or as
`{"approx": bits, "scale": bits}`: nearest binary64 of the exact value, compared by `lib/propcfg/C18.py` with the
tolerance `1e-9 · max(|value|, scale)`. `{"skip": true}` marks a sub-result the exact model cannot decide (a
comparison closer than 1e-9 to its threshold, an unstable clock reading). Keys of `impl` that the model does not
print are trace-only observables (used by the oracle entries).
-/
namespace Drv.C18

def ratOf (j : Json) : R Rat := do
  let bits ← asU64 j
  match F64.toRat? bits with
  | some q => pure q
  | none => throw s!"non-finite input {bits}"

def ratsOf (j : Json) : R (List Rat) := listOf ratOf j

/-- decode a value of the implementation; `none` = not finite / not a number -/
def fin? (j : Json) : Option Rat :=
  match asU64 j with
  | .ok bits => F64.toRat? bits
  | .error _ => none

def finAll (js : List Json) : Bool := js.all (fun j => (fin? j).isSome)

def bitsJ (q : Rat) : Json := jNat (F64.ofRat q).1.toNat

def leaf (q : Rat) (exact : Bool) (scale : Rat := 0) : Json :=
  let r := F64.ofRat q
  if exact && r.2 then jNat r.1.toNat else Json.mkObj [("approx", jNat r.1.toNat), ("scale", bitsJ scale)]

def skipJ : Json := Json.mkObj [("skip", Json.bool true)]

def close (a b tol : Rat) : Bool := decide (absR (a - b) ≤ tol)

def eps9 : Rat := 1 / 1000000000
def eps12 : Rat := 1 / 1000000000000

def maxOf (d : Rat) (l : List Rat) : Rat := l.foldl maxR d
def minOf (d : Rat) (l : List Rat) : Rat := l.foldl minR d

def getA (j : Json) (i : Nat) : Json := match j with
  | .arr a => a.getD i Json.null
  | _ => Json.null

def objB (kvs : List (String × Bool)) : Json := Json.mkObj (kvs.map (fun (k, v) => (k, Json.bool v)))

def perfectSquare (q : Rat) : Bool :=
  decide (0 ≤ q) && Nat.sqrt q.num.toNat ^ 2 == q.num.toNat && Nat.sqrt q.den ^ 2 == q.den

/-! ### slot machine -/

structure SlotAcc where
  s : Slot
  exA : Bool
  exB : Bool
  exM : Bool
  exV : Bool

def slotStep (a : SlotAcc) (r : Rat) : SlotAcc :=
  let tr := a.s.updateTrace r
  let exA := a.exA && F64.allExact tr.1
  let exB := a.exB && a.exM && F64.allExact tr.2.1
  let exM := a.exM && F64.allExact tr.2.2.1
  let exV := exA && exB && F64.allExact tr.2.2.2
  { s := a.s.update r, exA := exA, exB := exB, exM := exM, exV := exV }

def slotParamsJ (a : SlotAcc) (sc : Rat) : Json :=
  Json.arr #[leaf a.s.alpha a.exA, leaf a.s.beta a.exB (sc * sc), leaf a.s.mu a.exM sc, leaf a.s.v a.exV (sc * sc), jNat a.s.n]

def slotCallJ (a : SlotAcc) (sc g : Rat) (z : Json) (t : Nat) : Json :=
  let c := a.s.sample g
  Json.mkObj [("shape", leaf c.shape a.exA), ("scale", leaf c.scale (a.exB && F64.isExact c.scale) (sc * sc / (a.s.beta * a.s.beta))),
    ("mean", leaf c.mean a.exM sc), ("var", leaf c.variance false), ("ret", z),
    ("ncalls", Json.arr #[jNat (t + 1), jNat (t + 1)])]

/-- oracle of one observed state `t` (after `t` updates) on the implementation's values -/
def slotOracleAt (t : Nat) (seen : List Rat) (sc : Rat) (g : Rat) (z : Json) (p call real : Json) : List (String × Bool) :=
  match fin? (getA p 0), fin? (getA p 1), fin? (getA p 2), fin? (getA p 3) with
  | some alpha, some beta, some mu, some v =>
    let n := (getA p 4).getNat?.toOption.getD 0
    let shape := fin? (fldD call "shape" Json.null)
    let scale := fin? (fldD call "scale" Json.null)
    let mean := fin? (fldD call "mean" Json.null)
    let std := fin? (fldD call "std" Json.null)
    let argsOk := match shape, scale, mean, std with
      | some sh, some scl, some mn, some sd =>
        decide (sh = alpha) && decide (0 < sh) && decide (0 < scl) && close (scl * beta) 1 eps12 && decide (mn = mu) && decide (0 < sd)
      | _, _, _, _ => false
    let guardOk := match std with
      | some sd => if g = 0 ∨ t = 0 then close (sd * sd) 1000 (eps9 * 1000) else close (sd * sd * g) 1 eps9
      | none => false
    [("finite", true),
     ("shape_positive", decide (alpha = 1 + (t : Rat) / 2)),
     ("rate_at_least_prior", decide (10 ≤ beta)),
     ("rate_is_prior_plus_half_squared_deviations",
        if t == 0 then decide (beta = 10) else close beta (10 + sqDev seen / 2) (eps9 * maxR beta (sc * sc))),
     ("variance_positive", decide (0 < v) && close (v * (alpha + 1)) beta (eps12 * beta)),
     ("count", n == t),
     ("mean_in_hull", t == 0 || (decide (minOf (seen.headD 0) seen - eps9 * sc ≤ mu) && decide (mu ≤ maxOf (seen.headD 0) seen + eps9 * sc))),
     ("sampler_arguments_valid", argsOk),
     ("zero_precision_guard", guardOk),
     ("sample_is_sampler_output", fldD call "ret" Json.null == z && fldD call "ncalls" Json.null == Json.arr #[jNat (t + 1), jNat (t + 1)]),
     ("default_sampler_finite", (fin? real).isSome)]
  | _, _, _, _ => [("finite", false)]

def andAll (xs : List (List (String × Bool))) : List (String × Bool) :=
  let names := xs.foldl (fun acc l => l.foldl (fun acc kv => if acc.contains kv.1 then acc else acc ++ [kv.1]) acc) ([] : List String)
  names.map (fun nm => (nm, xs.all (fun l => l.all (fun kv => kv.1 != nm || kv.2))))

def handleSlot (j : Json) : R (List (String × Json)) := do
  let prior ← ratOf (← fld j "prior")
  let rewards ← ratsOf (← fld j "rewards")
  let gammas ← ratsOf (← fld j "gammas")
  let zs ← arrF j "zs"
  let impl ← fld j "impl"
  let sc := maxOf (maxR 1 (absR prior)) rewards
  let a0 : SlotAcc := { s := Slot.init prior, exA := true, exB := true, exM := true, exV := true }
  -- states after 0, 1, …, n updates
  let accs := (rewards.foldl (fun (acc : List SlotAcc × SlotAcc) r => let a := slotStep acc.2 r; (acc.1 ++ [a], a)) ([a0], a0)).1
  let idx := List.range accs.length
  let params := idx.map (fun t => slotParamsJ (accs.getD t a0) sc)
  let calls := idx.map (fun t => slotCallJ (accs.getD t a0) sc (gammas.getD t 0) (zs.getD t Json.null) t)
  let implParams := fldD impl "params" Json.null
  let implCalls := fldD impl "calls" Json.null
  let implReal := fldD impl "real" Json.null
  let betas := idx.map (fun t => (fin? (getA (getA implParams t) 1)).getD 0)
  let monotone := (List.range (accs.length - 1)).all (fun t => decide (betas.getD t 0 ≤ betas.getD (t + 1) 0))
  let lens := match implParams with
    | .arr a => a.size == accs.length
    | _ => false
  let per := idx.map (fun t => slotOracleAt t (rewards.take t) sc (gammas.getD t 0) (zs.getD t Json.null)
    (getA implParams t) (getA implCalls t) (getA implReal t))
  let oracle := andAll per ++ [("rate_non_decreasing", monotone), ("one_state_per_update", lens)]
  return [("model", Json.mkObj [("params", Json.arr params.toArray), ("calls", Json.arr calls.toArray)]),
          ("oracle", objB oracle)]

/-! ### selection -/

def natsOfJ (j : Json) : List Nat := match j with
  | .arr a => a.toList.filterMap (fun x => x.getNat?.toOption)
  | _ => []

def handleArgmax (j : Json) : R (List (String × Json)) := do
  let vals ← listF asU64 j "vals"
  let keys := vals.map F64.totalKey
  let impl ← fld j "impl"
  let picks := natsOfJ (fldD impl "picks" Json.null)
  let none := (fldD impl "none" Json.null) == Json.bool true
  let set := argmaxSet keys
  -- every oracle of the model lands in the set, e.g. the all-zero and the all-one draw
  let samples := [randomArgmax (fun _ => 0) keys, randomArgmax (fun _ => 1) keys, randomArgmax (fun i => i) keys]
  let modelOk := samples.all (fun o => match o with
    | some i => set.contains i
    | Option.none => keys.isEmpty)
  return [("model", Json.mkObj [("picks", jList jNat set), ("none", Json.bool keys.isEmpty)]),
          ("oracle", objB [("picks_are_maximal", picks.all (fun i => set.contains i)),
                           ("never_fails_on_non_empty", keys.isEmpty || (!none && !picks.isEmpty)),
                           ("model_oracles_in_spec", modelOk)])]

def handleWeighted (j : Json) : R (List (String × Json)) := do
  let ws ← listF asNat j "weights"
  let impl ← fld j "impl"
  let picks := natsOfJ (fldD impl "picks" Json.null)
  let none := (fldD impl "none" Json.null) == Json.bool true
  let sup := weightedSupport ws
  let samples := [weighted (fun _ => 1) ws, weighted (fun i => (i + 1 : Nat)) ws, weighted (fun i => 1 / ((i + 1 : Nat) : Rat)) ws]
  let modelOk := samples.all (fun o => match o with
    | some i => sup.contains i
    | Option.none => ws.isEmpty)
  return [("model", Json.mkObj [("picks", jList jNat sup), ("none", Json.bool ws.isEmpty)]),
          ("oracle", objB [("picks_in_support", picks.all (fun i => sup.contains i)),
                           ("never_fails_on_non_empty", ws.isEmpty || (!none && !picks.isEmpty)),
                           ("model_oracles_in_spec", modelOk)])]

def handleSelect (j : Json) : R (List (String × Json)) := do
  let slots ← arrF j "slots"
  let impl ← fld j "impl"
  let picks ← arrF impl "picks"
  let samples ← arrF impl "samples"
  let k := slots.length
  let ok := (List.range picks.length).all (fun r =>
    match (picks.getD r Json.null).getNat?.toOption, listOf asU64 (samples.getD r Json.null) with
    | some i, .ok vs =>
      let keys := vs.map F64.totalKey
      decide (i < k) && vs.length == k && (argmaxSet keys).contains i
    | _, _ => false)
  let finite := samples.all (fun row => match row with
    | .arr a => finAll a.toList
    | _ => false)
  return [("model", Json.mkObj []),
          ("oracle", objB [("picks_a_configured_slot_with_maximal_sample", ok), ("samples_finite", finite)])]

/-! ### rewards -/

def handleReward (j : Json) : R (List (String × Json)) := do
  let rev := (← strF j "mode") == "rev"
  let new ← ratsOf (← fld j "new")
  let init ← ratsOf (← fld j "init")
  let best ← optF ratsOf j "best"
  let median ← optF asNat j "median"
  let duration ← natF j "duration"
  let ratio ← ratOf (← fld j "ratio")
  let improved ← boolF j "improved"
  let sameSign := (fldD j "same_sign" (Json.bool true)) == Json.bool true
  let assertDoc := (fldD j "assert_documented" (Json.bool false)) == Json.bool true
  let impl ← fld j "impl"
  let order : List Rat → List Rat → Ordering := fun a b => if rev then lexOrder b a else lexOrder a b
  let dI := relDistance (order new init) new init
  let dIex := F64.allExact (relDistanceTrace (order new init) new init)
  let dB := best.map (fun bk => relDistance (order new bk) new bk)
  let dBex := match best with
    | some bk => F64.allExact (relDistanceTrace (order new bk) new bk)
    | none => true
  let base := distanceReward order best init new
  let baseEx := F64.allExact (distanceRewardTrace order best init new)
  let mult := perfMultiplier median duration ratio improved
  let n : Rat := new.length
  let bound : Rat := if sameSign then 3 * (n + 1) else 3 * (2 * n + 1)
  -- SPEC: the sign of a distance says whether `new` is better (documented on get_relative_distance)
  let signOk (ord : Ordering) (d : Option Rat) : Bool := match d with
    | some x => (match ord with
      | .lt => decide (0 < x)
      | .gt => decide (x < 0)
      | .eq => decide (x = 0))
    | none => false
  let signsOk := signOk (order new init) (fin? (fldD impl "d_init" Json.null)) &&
    (match best with
     | some bk => signOk (order new bk) (fin? (fldD impl "d_best" Json.null))
     | none => true)
  let oracle := match fin? (fldD impl "base" Json.null), fin? (fldD impl "mult" Json.null), fin? (fldD impl "reward" Json.null) with
    | some ib, some im, some ir =>
      [("finite", true), ("reward_non_negative", decide (0 ≤ ib) && decide (0 ≤ ir)),
       ("reward_within_true_range", decide (ib ≤ bound) && decide (ir ≤ 3 * bound)),
       ("multiplier_within_documented_range", decide (9 / 16 ≤ im) && decide (im ≤ 3)),
       ("reward_within_documented_range", !assertDoc || decide (ib ≤ 6)),
       ("distance_sign_is_improvement", signsOk),
       ("positive_reward_iff_improves_parent",
          if best.isSome then decide (0 < ib) == (order new init == .lt) else decide (ib = 0))]
    | _, _, _ => [("finite", false)]
  return [("model", Json.mkObj [("d_init", leaf dI dIex), ("d_best", jOpt (fun d => leaf d dBex) dB),
            ("base", leaf base baseEx), ("mult", leaf mult true), ("reward", leaf (base * mult) false)]),
          ("oracle", objB oracle)]

/-! ### termination -/

def unitInterval (j : Json) : Bool := match fin? j with
  | some e => decide (0 ≤ e) && decide (e ≤ 1)
  | none => false

def handleMaxgen (j : Json) : R (List (String × Json)) := do
  let limit ← natF j "limit"
  let generation ← natF j "generation"
  let impl ← fld j "impl"
  let e := maxGenEstimate limit generation
  let stop := (fldD impl "stop" Json.null) == Json.bool (decide (limit ≤ generation))
  return [("model", Json.mkObj [("estimate", leaf e (F64.isExact ((generation : Rat) / (limit : Rat)))), ("stop", Json.bool (maxGenStop limit generation))]),
          ("oracle", objB [("estimate_in_unit_interval", unitInterval (fldD impl "estimate" Json.null)),
                           ("stops_iff_limit_reached", stop)])]

inductive Part where
  | maxgen (limit : Nat)
  | target (t : List Rat) (th : Rat)
  | variation (sample : Nat) (th : Rat) (buf : Option (List (List Rat)))

def parsePart (p : Json) : R Part := do
  let t ← strF p "t"
  if t == "maxgen" then return .maxgen (← natF p "limit")
  else if t == "target" then return .target (← ratsOf (← fld p "target")) (← ratOf (← fld p "threshold"))
  else return .variation (← natF p "sample") (← ratOf (← fld p "threshold")) none

/-- `any` with short circuit: parts after the first firing one are not evaluated (and keep their state) -/
def partsStop (generation : Nat) (fitness : Option (List Rat)) : List Part → List Part × Bool
  | [] => ([], false)
  | p :: rest =>
    let (p', fired) : Part × Bool := match p with
      | .maxgen limit => (p, maxGenStop limit generation)
      | .target t th => (p, targetStop t th fitness)
      | .variation sample th buf =>
        match fitness with
        | none => (p, false)
        | some f => let r := sampleStep sample th buf generation f; (.variation sample th r.1, r.2)
    if fired then (p' :: rest, true)
    else let r := partsStop generation fitness rest; (p' :: r.1, r.2)

def partEstimate (generation : Nat) : Part → Rat
  | .maxgen limit => maxGenEstimate limit generation
  | _ => 0

def handleComposite (j : Json) : R (List (String × Json)) := do
  let parts ← (← arrF j "parts").mapM parsePart
  let steps ← arrF j "steps"
  let impl ← fld j "impl"
  let implSteps ← arrF impl "steps"
  let mut ps := parts
  let mut out : Array Json := #[]
  for s in steps do
    let g ← natF s "gen"
    let fit ← optF ratsOf s "fitness"
    let es := ps.map (partEstimate g)
    let e := compositeEstimate es
    let r := partsStop g fit ps
    ps := r.1
    out := out.push (Json.mkObj [("estimate", leaf e false), ("stop", Json.bool r.2)])
  let inUnit := implSteps.all (fun s => unitInterval (fldD s "estimate" Json.null))
  -- SPEC: the composite estimate is at least every part's estimate, and one of them (0 without parts)
  let idx := List.range steps.length
  let upper := idx.all (fun i =>
    match (steps.getD i Json.null).getObjVal? "gen" |>.toOption |>.bind (fun g => g.getNat?.toOption), fin? (fldD (implSteps.getD i Json.null) "estimate" Json.null) with
    | some g, some e =>
      let es := parts.map (partEstimate g)
      es.all (fun x => decide (x ≤ e + eps9)) && (es.isEmpty && e == 0 || es.any (fun x => close x e eps9))
    | _, _ => false)
  return [("model", Json.mkObj [("steps", Json.arr out)]),
          ("oracle", objB [("estimate_in_unit_interval", inUnit), ("estimate_is_largest_part", upper)])]

def relDistExact : List Rat → List Rat → Bool
  | a :: as, b :: bs =>
    let divider := maxR (absR a) (absR b)
    let change := if divider = 0 then 0 else absR (a - b) / divider
    F64.allExact [a - b, change, change * change, relDistSq (a :: as) (b :: bs)] && relDistExact as bs
  | _, _ => true

def handleTarget (j : Json) : R (List (String × Json)) := do
  let target ← ratsOf (← fld j "target")
  let fit ← optF ratsOf j "fitness"
  let th ← ratOf (← fld j "threshold")
  let impl ← fld j "impl"
  let stop := targetStop target th fit
  let decided := match fit with
    | none => true
    | some f =>
      let s := relDistSq target f
      let t2 := th * th
      if th ≤ 0 then true
      else if s = t2 then relDistExact target f && perfectSquare s
      else !close s t2 (eps9 * t2)
  -- SPEC on the implementation: the reported distance is compared with the threshold
  let consistent := match fit, fin? (fldD impl "distance" Json.null) with
    | some _, some d => (fldD impl "stop" Json.null) == Json.bool (decide (d < th)) && decide (0 ≤ d)
    | none, _ => (fldD impl "stop" Json.null) == Json.bool false
    | _, _ => false
  return [("model", Json.mkObj [("stop", if decided then Json.bool stop else skipJ), ("estimate", jNat 0)]),
          ("oracle", objB [("stops_iff_distance_below_threshold", consistent),
                           ("estimate_in_unit_interval", unitInterval (fldD impl "estimate" Json.null))])]

/-! ### min variation -/

/-- is every `cv > threshold` test of `check_threshold` on these rows decided with a margin (or exactly)? -/
def thresholdDecided (rows : List (List Rat)) (th : Rat) : Bool :=
  (List.range (maxLen rows)).all (fun idx =>
    let vs := column rows idx
    let vm := varianceMean vs
    let lhs := th * th * (vm.2 * vm.2)
    if vm.2 = 0 then true
    else if vm.1 = lhs then (vm.1 = 0 || (F64.isExact vm.2 && F64.isExact vm.1 && perfectSquare vm.1))
    else !close vm.1 lhs (eps9 * maxR lhs vm.1))

def isExploitation (s : Json) : Bool := (fldD s "phase" Json.null) == Json.str "exploitation"

def handleMvSample (j : Json) : R (List (String × Json)) := do
  let sample ← natF j "sample"
  let th ← ratOf (← fld j "threshold")
  let isGlobal ← boolF j "global"
  let steps ← arrF j "steps"
  let impl ← fld j "impl"
  let implFires ← arrF impl "fires"
  let inHyp := (fldD j "in_hyp" (Json.bool true)) == Json.bool true
  let mut buf : Option (List (List Rat)) := none
  let mut hist : List (List Rat) := []
  let mut fires : Array Json := #[]
  let mut decided := true
  let mut specOk := true
  let mut i := 0
  for s in steps do
    let g ← natF s "gen"
    let fit ← optF ratsOf s "fitness"
    let expl := isExploitation s
    match fit with
    | none => fires := fires.push (Json.bool false)
    | some f =>
      let r := sampleStep sample th buf g f
      buf := r.1
      hist := hist ++ [f]
      if !(g < sample - 1) then
        decided := decided && thresholdDecided (r.1.getD []) th
      fires := fires.push (Json.bool (mvFilter isGlobal expl r.2))
      if inHyp then
        specOk := specOk && (implFires.getD i Json.null == Json.bool (mvFilter isGlobal expl (sampleSpec sample th hist)))
    i := i + 1
  let est := (fldD impl "estimates" Json.null) == Json.arr (steps.map (fun _ => jNat 0)).toArray
  return [("model", Json.mkObj [("fires", if decided then Json.arr fires else skipJ)]),
          ("oracle", objB [("fires_iff_variation_over_last_generations_below_threshold", !decided || specOk),
                           ("estimate_in_unit_interval", est)])]

/-- keeps every tenth stored sample (the code shuffles first; scenarios that reach this path use a constant fitness,
    for which the subset does not matter) -/
def thin (l : List (Nat × List Rat)) : List (Nat × List Rat) :=
  ((List.range l.length).filter (fun i => i % 10 == 0)).filterMap (fun i => l[i]?)

def handleMvPeriodScenario (sc run : Json) : R (Json × Bool × Bool) := do
  let period := (← natF sc "period") * 1000
  let th ← ratOf (← fld sc "threshold")
  let isGlobal ← boolF sc "global"
  let calls ← arrF sc "calls"
  let times ← arrF run "times"
  let implFires ← arrF run "fires"
  let mut vals : List (Nat × List Rat) := []
  let mut hist : List (Nat × List Rat) := []
  let mut brackets : List (Nat × Nat) := []
  let mut fires : Array Json := #[]
  let mut stable := true
  let mut decided := true
  let mut specOk := true
  let mut total := 0
  let mut i := 0
  for c in calls do
    let lo ← asNat (getA (times.getD i Json.null) 0)
    let hi ← asNat (getA (times.getD i Json.null) 1)
    let fit ← optF ratsOf c "fitness"
    let repeat_ := (fldD c "repeat" (jNat 1)).getNat?.toOption.getD 1
    let expl := isExploitation c
    -- every comparison of the clock value read inside the call must have the same outcome for lo and hi
    stable := stable && (decide (period > hi) || decide (period ≤ lo)) &&
      brackets.all (fun (l, h) => decide (h + period < lo) || decide (l + period ≥ hi))
    match fit with
    | none => fires := fires.push (Json.bool false)
    | some f =>
      let mut last := false
      for _ in [0:repeat_] do
        let r := periodStep thin period th vals lo f
        if !(period > lo ∨ (vals.length + 1) < 2) then
          decided := decided && thresholdDecided (r.1.map (·.2)) th
        vals := r.1
        last := r.2
        total := total + 1
      hist := hist ++ [(lo, f)]
      brackets := brackets ++ [(lo, hi)]
      fires := fires.push (Json.bool (mvFilter isGlobal expl last))
      if total ≤ 1000 && repeat_ == 1 then
        specOk := specOk && (implFires.getD i Json.null == Json.bool (mvFilter isGlobal expl (periodSpec period th hist lo)))
    i := i + 1
  let ok := stable && decided
  return (Json.mkObj [("fires", if ok then Json.arr fires else skipJ)], ok, specOk)

def handleMvPeriod (j : Json) : R (List (String × Json)) := do
  let scs ← arrF j "scenarios"
  let impl ← fld j "impl"
  let runs ← arrF impl "runs"
  let mut out : Array Json := #[]
  let mut specOk := true
  let mut skipped := 0
  let mut i := 0
  for sc in scs do
    let r ← handleMvPeriodScenario sc (runs.getD i Json.null)
    out := out.push r.1
    if r.2.1 then specOk := specOk && r.2.2 else skipped := skipped + 1
    i := i + 1
  return [("model", Json.mkObj [("runs", Json.arr out)]),
          ("oracle", objB [("fires_iff_variation_over_period_window_below_threshold", specOk)]),
          ("skipped_scenarios", jNat skipped)]

/-! ### remedian, noise, sampling -/

def handleRemedian (j : Json) : R (List (String × Json)) := do
  let base ← natF j "base"
  let exponent ← natF j "exponent"
  let values ← listF asNat j "values"
  let impl ← fld j "impl"
  let mut r := Remedian.new base exponent
  let mut added : Array Json := #[]
  let mut medians : Array Json := #[jOpt jNat r.approxMedian]
  for v in values do
    let a := r.add v
    r := a.1
    added := added.push (Json.bool a.2)
    medians := medians.push (jOpt jNat r.approxMedian)
  let implAdded ← arrF impl "added"
  let implMedians ← arrF impl "medians"
  let accepted := (implAdded.filter (· == Json.bool true)).length
  -- observations that were accepted so far, per position
  let memOk := (List.range implMedians.length).all (fun i =>
    match (implMedians.getD i Json.null).getNat?.toOption with
    | some m => (values.take i).contains m
    | none => i == 0 || implMedians.getD i Json.null != Json.null)
  let someOk := (List.range implMedians.length).all (fun i => i == 0 || implMedians.getD i Json.null != Json.null)
  let prefixOk := (List.range implAdded.length).all (fun i =>
    implAdded.getD i Json.null == Json.bool (decide (i < base ^ exponent)))
  return [("model", Json.mkObj [("added", Json.arr added), ("medians", Json.arr medians)]),
          ("oracle", objB [("count_bounded_by_capacity", decide (accepted ≤ base ^ exponent) && prefixOk),
                           ("median_is_an_observation", memOk), ("median_available_after_first_observation", someOk)])]

def hitOf (p : Rat) (scripted : Bool) : Bool := if 1 ≤ p then true else if p ≤ 0 then false else scripted

def handleNoise (j : Json) : R (List (String × Json)) := do
  let values ← ratsOf (← fld j "values")
  let us ← ratsOf (← fld j "us")
  let hits ← listF asBool j "hits"
  let p ← ratOf (← fld j "probability")
  let add ← boolF j "addition"
  let impl ← fld j "impl"
  let implOut ← arrF impl "out"
  -- `uniform_real` is only consumed on a hit
  let res := values.foldl (fun (acc : List Json × List Bool × List Rat) v =>
    let hit := hitOf p (acc.2.1.headD true)
    let u := acc.2.2.headD 0
    let x := noiseGenerate add hit u v
    let tr := if hit then [v * u, x] else [x]
    (acc.1 ++ [leaf x (F64.allExact tr)], acc.2.1.tail, if hit then acc.2.2.tail else acc.2.2)) ([], hits, us)
  return [("model", Json.mkObj [("out", Json.arr res.1.toArray)]),
          ("oracle", objB [("finite", finAll implOut)])]

def strictlyIncreasingBelow (l : List Nat) (size : Nat) : Bool :=
  (List.range l.length).all (fun i => decide (l.getD i 0 < size) && (i == 0 || decide (l.getD (i - 1) 0 < l.getD i 0)))

def handleSampling (j : Json) : R (List (String × Json)) := do
  let size ← natF j "size"
  let amount ← natF j "amount"
  let hits ← listF asBool j "hits"
  let sampleSize ← natF j "sample_size"
  let pick ← natF j "pick"
  let impl ← fld j "impl"
  let items := natsOfJ (fldD impl "items" Json.null)
  let realItems := natsOfJ (fldD impl "real_items" Json.null)
  let range := natsOfJ (fldD impl "range" Json.null)
  let want := min amount size
  let contiguous := (List.range range.length).all (fun i => range.getD i 0 == range.getD 0 0 + i) &&
    range.all (fun x => decide (x < size)) && decide (range.length ≤ sampleSize)
  let asked := fldD impl "asked" Json.null == Json.arr #[Json.str "int", jNat 0, jNat (rangeSamplingMax size sampleSize)]
  return [("model", Json.mkObj [("items", jList jNat (selectionSampling size (size + 1) 0 amount hits)),
                                ("range", jList jNat (rangeSampling size sampleSize pick))]),
          ("oracle", objB [("selects_exactly_min_amount_size_in_order",
                              strictlyIncreasingBelow items size && items.length == want &&
                              strictlyIncreasingBelow realItems size && realItems.length == want),
                           ("range_is_a_chunk", contiguous && asked)])]

/-! ### the whole hyper-heuristic (trace only) -/

def handleDynamic (j : Json) : R (List (String × Json)) := do
  let ops ← natF j "ops"
  let nObj ← natF j "n_obj"
  let impl ← fld j "impl"
  let used := natsOfJ (fldD impl "used" Json.null)
  let rewards ← arrF impl "rewards"
  let params ← arrF impl "params"
  let names ← listF asStr impl "names"
  let bound : Rat := 3 * ((nObj : Rat) + 1) * 3
  let rewardsOk := rewards.all (fun r => match fin? r with
    | some x => decide (0 ≤ x) && decide (x ≤ bound)
    | none => false)
  let paramsOk := params.all (fun p =>
    match fin? (getA p 0), fin? (getA p 1), fin? (getA p 2), fin? (getA p 3), (getA p 4).getNat?.toOption with
    | some alpha, some beta, some mu, some v, some n =>
      decide (alpha = 1 + (n : Rat) / 2) && decide (10 ≤ beta) && decide (0 < v) && decide (0 ≤ mu) &&
      decide (mu ≤ maxR 1 bound)
    | _, _, _, _, _ => false)
  let script ← arrF j "script"
  return [("model", Json.mkObj []),
          ("oracle", objB [("picks_a_configured_operator", used.all (fun i => decide (i < ops)) && used.length == script.length &&
                              names.all (fun nm => (List.range ops).any (fun i => nm == s!"op{i}"))),
                           ("rewards_finite_within_true_range", rewardsOk && rewards.length == script.length),
                           ("learning_state_valid", paramsOk)])]

def handle (j : Json) : R (List (String × Json)) := do
  let k ← strF j "k"
  if k == "slot" then handleSlot j
  else if k == "argmax" then handleArgmax j
  else if k == "weighted" then handleWeighted j
  else if k == "select" then handleSelect j
  else if k == "reward" then handleReward j
  else if k == "maxgen" then handleMaxgen j
  else if k == "composite" then handleComposite j
  else if k == "target" then handleTarget j
  else if k == "mv_sample" then handleMvSample j
  else if k == "mv_period" then handleMvPeriod j
  else if k == "remedian" then handleRemedian j
  else if k == "noise" then handleNoise j
  else if k == "sampling" then handleSampling j
  else if k == "dynamic" then handleDynamic j
  else throw s!"unknown case kind {k}"

end Drv.C18

def main : IO Unit := Drv.run Drv.C18.handle
