import Drv.Common
import VrpModel.C19
open Lean Drv C19

namespace Drv.C19

/-! JSON glue for C19. The `model` field is what the model predicts exactly (offsets, coordinate sets after
smooth/compact/contract, phase sequence); every `oracle` entry is the specification evaluated on the implementation's
own dump. -/

def lexLe (a b : Coord) : Bool := a.1 < b.1 || (a.1 == b.1 && a.2 ≤ b.2)
def sortC (l : List Coord) : List Coord := l.mergeSort lexLe
def jCoord (c : Coord) : Json := Json.arr #[jInt c.1, jInt c.2]
def jCoords (l : List Coord) : Json := jList jCoord (sortC l)

def ints (j : Json) : R (List Int) := listOf asInt j

def nth (l : List Int) (i : Nat) : Int := l.getD i 0

/-- one row `[kx, ky, nx, ny, held, wdim, flags, hits]` of a network dump -/
structure Row where
  key : Coord
  node : Node
  flags : Int
  hits : Int

def parseRow (j : Json) : R Row := do
  let v ← ints j
  if v.length < 8 then throw "short row"
  pure ⟨(nth v 0, nth v 1), ⟨(nth v 2, nth v 3), (nth v 4).toNat, (nth v 5).toNat⟩, nth v 6, nth v 7⟩

structure NetState where
  rows : List Row
  size : Nat
  shape : List Int
  mse : Bool
  views : Bool
  finds : List (List Int)

def parseState (j : Json) : R NetState := do
  let rows ← listF parseRow j "n"
  pure ⟨rows, ← natF j "size", ← listF asInt j "shape", ← boolF j "mse", ← boolF j "views", ← listF ints j "find"⟩

def netOf (s : NetState) : Net := s.rows.map (fun r => (r.key, r.node))

def subsetB (a b : List Coord) : Bool := a.all (b.contains ·)

def sameKeys (a b : List Coord) : Bool := a.length == b.length && sameSetB a b

/-- lookup specification on a reported lookup `[qx, qy]` (not found) or `[qx, qy, fx, fy]` (found node's coordinate) -/
def findOk (net : Net) (f : List Int) : Bool :=
  let q : Coord := (nth f 0, nth f 1)
  if f.length == 2 then !(keys net).contains q
  else net.any (fun e => e.1 == q && e.2.coord == (nth f 2, nth f 3)) && (nth f 2, nth f 3) == q

def stateOk (cap dim : Nat) (s : NetState) : List (String × Bool) :=
  let net := netOf s
  let e := extent (keys net)
  [("wf_unique_key_eq_coord_capacity_dimension", wfB cap dim net),
   ("finite_weights_errors", s.rows.all (fun r => r.flags == 15) && s.mse),
   ("api_views_agree", s.views),
   ("size_is_node_count", s.size == s.rows.length),
   ("find_exact", s.finds.all (findOk net) && (keys net).all (fun k => s.finds.any (fun f => f.length == 4 && (nth f 0, nth f 1) == k))),
   ("shape_is_extent", s.shape == [e.1.1, e.1.2, e.2.1, e.2.2])]

def andAll (xs : List (List (String × Bool))) : List (String × Json) :=
  let names := (xs.flatMap (·.map (·.1))).eraseDups
  names.map (fun n => (n, Json.bool (xs.all (fun l => l.all (fun p => p.1 != n || p.2)))))

def hitsMonotone (pre post : NetState) : Bool :=
  pre.rows.all (fun r => post.rows.all (fun r2 => r2.key != r.key || r.hits ≤ r2.hits))

def handleNet (j : Json) : R (List (String × Json)) := do
  let dim ← natF j "dim"
  let cfg ← fld j "cfg"
  let cap ← natF cfg "node_size"
  let nInit := (← arrF j "init").length
  let ops ← arrF j "ops"
  let impl ← fld j "impl"
  let predErr := decide (nInit < Gen.sampleMin)
  match impl.getObjVal? "err" with
  | .ok _ =>
    return [("model", Json.mkObj [("err", Json.bool predErr)]),
            ("oracle", Json.mkObj [("new_fails_iff_fewer_than_4_inputs", Json.bool predErr)])]
  | .error _ =>
    let states ← listF parseState impl "states"
    let perState := states.map (stateOk cap dim)
    let mut posts : List Json := []
    let mut steps : List (List (String × Bool)) := []
    let mut idx := 0
    for op in ops do
      let pre := states.getD idx ⟨[], 0, [], false, false, []⟩
      let post := states.getD (idx + 1) ⟨[], 0, [], false, false, []⟩
      let preNet := netOf pre
      let preK := keys preNet
      let postK := keys (netOf post)
      let kind ← strF op "op"
      if kind == "store" then
        posts := posts ++ [Json.null]
        steps := steps ++ [[("store_keeps_every_coordinate", subsetB preK postK),
                            ("store_grows_next_to_nodes", grownAdjacentB preK postK),
                            ("store_never_resets_a_node", hitsMonotone pre post)]]
      else if kind == "smooth" then
        posts := posts ++ [jCoords (keys (smooth cap dim preNet []))]
        steps := steps ++ [[("smooth_keeps_coordinate_set", sameKeys preK postK)]]
      else
        let (dmin, dmax) ← (if kind == "compact" then pure (Gen.decimMin, Gen.decimMax)
                            else do pure ((← intF op "dmin"), (← intF op "dmax")))
        posts := posts ++ [jCoords (keys (contract preNet dmin dmax Gen.guardMin))]
        let spec := specContract preK dmin.toNat dmax.toNat 4
        steps := steps ++ [[("compact_never_grows", decide (postK.length ≤ preK.length)),
                            ("compact_leaves_ge_4", decide (min 4 preK.length ≤ postK.length)),
                            ("compact_is_row_column_deletion_spec", decide (dmin < 1 ∨ dmax < 1) || sameKeys postK spec)]]
      idx := idx + 1
    return [("model", Json.mkObj [("err", Json.bool predErr), ("posts", Json.arr posts.toArray)]),
            ("oracle", Json.mkObj (("new_fails_iff_fewer_than_4_inputs", Json.bool (!predErr)) ::
              ("one_state_per_operation", Json.bool (states.length == ops.length + 1)) :: andAll (perState ++ steps)))]

def handleOff (j : Json) : R (List (String × Json)) := do
  let mn ← intF j "min"
  let mx ← intF j "max"
  let d ← intF j "decim"
  let vs ← listF asInt j "vs"
  let impl ← listF (optOf asInt) j "impl"
  let model := vs.map (fun v => getOffset? v mn mx d)
  let pairs := vs.zip impl
  let zeroOk := pairs.all (fun p => (p.2.isNone) == (p.1 == 0)) && impl.length == vs.length
  -- survivors with their new coordinate, as the implementation computed it
  let surv : List (Int × Int) := pairs.filterMap (fun p =>
    match p.2 with
    | some o => if d > 0 && p.1 % d != 0 then some (p.1, p.1 + o) else none
    | none => none)
  let mono := surv.all (fun a => surv.all (fun b => !(a.1 < b.1) || a.2 < b.2))
  let inj := surv.all (fun a => surv.all (fun b => a.1 == b.1 || a.2 != b.2))
  let rank := pairs.all (fun p =>
    match p.2 with
    -- the rank specification counts columns one by one: evaluated on the contiguous part of the batch only
    | some o => d < 1 || p.1.natAbs > 4096 || p.1 + o == specPos p.1 (Int.natAbs mn) (Int.natAbs mx) d.toNat
    | none => true)
  return [("model", jList (jOpt jInt) model),
          ("oracle", Json.mkObj [("centre_column_is_the_only_undefined", Json.bool zeroOk),
                                 ("order_preserving_on_survivors", Json.bool mono),
                                 ("injective_on_survivors", Json.bool inj),
                                 ("offset_is_rank_spec", Json.bool rank)])]

/-- one row `[x, y, held, wdim, flags, hits]` of a population map dump -/
structure PRow where
  coord : Coord
  held : Nat
  wdim : Nat
  flags : Int

structure PState where
  rows : List PRow
  dim : Nat
  mse : Bool

def parsePState (j : Json) : R (Option PState) := do
  if j.isNull then return none
  let rows ← listF (fun r => do
    let v ← ints r
    pure (⟨(nth v 0, nth v 1), (nth v 2).toNat, (nth v 3).toNat, nth v 4⟩ : PRow)) j "n"
  return some ⟨rows, ← natF j "dim", ← boolF j "mse"⟩

def pKeys (s : PState) : List Coord := s.rows.map (·.coord)

def pStateOk (cap dim : Nat) (s : PState) : Bool :=
  decide (pKeys s).Nodup && s.rows.all (fun r => decide (r.held ≤ cap) && r.wdim == dim && r.flags == 13) &&
    s.dim == dim && s.mse && !s.rows.isEmpty

structure PTick where
  phaseAdd : Nat
  phase : Nat
  pre : Option PState
  post : Option PState
  size : Nat
  ranked : List Int
  selected : Nat

def parsePTick (j : Json) : R PTick := do
  pure ⟨← natF j "phase_add", ← natF j "phase", ← parsePState (← fld j "pre"), ← parsePState (← fld j "post"),
        ← natF j "size", ← listF asInt j "ranked", ← natF j "selected"⟩

def sortedB : List Int → Bool
  | a :: b :: rest => decide (a ≤ b) && sortedB (b :: rest)
  | _ => true

def handlePop (j : Json) : R (List (String × Json)) := do
  let dim ← natF j "dim"
  let cfg ← fld j "cfg"
  let initialSize ← natF cfg "initial_size"
  let eliteSize ← natF cfg "elite_size"
  let nodeSize ← natF cfg "node_size"
  let rebal ← natF cfg "rebal"
  let er64 ← intF cfg "er64"
  let ticksIn ← arrF j "ticks"
  let ticks ← ticksIn.mapM (fun t => do
    let n := (← arrF t "add").length
    let te ← intF t "te"
    let sp ← fld t "speed"
    let slow ← (match sp.getObjVal? "slow" with
      | .ok r => do pure (some (← asInt r))
      | .error _ => pure none)
    pure (n, (⟨te, slow⟩ : Stats)))
  let run := runPhases initialSize er64 (.initial 0) ticks
  let model := Json.mkObj [("phases", jList (fun pq => Json.arr #[jNat (rank pq.1), jNat (rank pq.2)]) run)]
  let impl ← listF parsePTick (← fld j "impl") "ticks"
  -- oracle on the implementation's ticks
  let flat := impl.flatMap (fun t => [t.phaseAdd, t.phase])
  let mut added := 0
  let mut eliteOk := true
  let mut selOk := true
  let mut mapOk := true
  let mut presenceOk := true
  let mut tickOk := true
  let mut storeOk := true
  let mut prevPost : Option PState := none
  let mut idx := 0
  for t in impl do
    added := added + (ticks.getD idx (0, ⟨0, none⟩)).1
    eliteOk := eliteOk && decide (t.size ≤ eliteSize) && (added == 0 || decide (1 ≤ t.size)) &&
      t.size == t.ranked.length && sortedB t.ranked
    selOk := selOk && (added == 0 || decide (1 ≤ t.selected))
    presenceOk := presenceOk && (t.pre.isSome == (t.phaseAdd == 1)) && (t.post.isSome == (t.phase == 1))
    for s in [t.pre, t.post] do
      match s with
      | some s => mapOk := mapOk && pStateOk nodeSize dim s
      | none => pure ()
    match t.pre, t.post with
    | some a, some b =>
      let ka := pKeys a
      let kb := pKeys b
      let spec := specContract ka Gen.decimMin.toNat Gen.decimMax.toNat Gen.guardMin
      let same := sameKeys kb ka
      let contracted := sameKeys kb spec
      -- keep_size lies in [rebalance_memory, 3 * rebalance_memory): below it no compaction, from 3x on always
      tickOk := tickOk && (same || contracted) && (decide (ka.length > rebal) || same) &&
        (decide (ka.length < 3 * rebal) || contracted) && decide (kb.length ≤ ka.length) &&
        decide (min 4 ka.length ≤ kb.length)
    | _, _ => pure ()
    match prevPost, t.pre with
    | some a, some b => storeOk := storeOk && subsetB (pKeys a) (pKeys b) && grownAdjacentB (pKeys a) (pKeys b)
    | _, _ => pure ()
    prevPost := t.post
    idx := idx + 1
  return [("model", model),
          ("oracle", Json.mkObj [("phases_only_forward", Json.bool (monotoneB flat)),
                                 ("one_record_per_tick", Json.bool (impl.length == ticks.length)),
                                 ("elite_within_bounds_sorted", Json.bool eliteOk),
                                 ("selection_not_empty", Json.bool selOk),
                                 ("map_present_iff_exploration", Json.bool presenceOk),
                                 ("map_wf_unique_capacity_dimension_finite", Json.bool mapOk),
                                 ("generation_tick_keeps_or_compacts_by_spec", Json.bool tickOk),
                                 ("add_all_only_grows_next_to_nodes", Json.bool storeOk)])]

def handleWts (j : Json) : R (List (String × Json)) := do
  let impl ← fld j "impl"
  let len ← natF impl "len"
  let finite ← listF asBool impl "finite"
  let map := fldD impl "map" Json.null
  let mut mapOk := true
  let mut phOk := true
  if !map.isNull then
    let phases ← listF asNat map "phases"
    phOk := monotoneB phases
    for s in (← arrF map "states") do
      if !s.isNull then
        let d ← natF s "dim"
        let mse ← boolF s "mse"
        let rows ← listF (listOf (fun x => pure x)) s "n"
        let mut coords : List Coord := []
        for r in rows do
          let x ← asInt (r.getD 0 Json.null)
          let y ← asInt (r.getD 1 Json.null)
          let wd ← asNat (r.getD 2 Json.null)
          let fin ← asBool (r.getD 3 Json.null)
          coords := (x, y) :: coords
          mapOk := mapOk && wd == len && fin
        mapOk := mapOk && d == len && mse && decide coords.Nodup
  return [("model", Json.null),
          ("oracle", Json.mkObj [("input_weights_finite", Json.bool (finite.all id && finite.length == len)),
                                 ("map_finite_unique_of_input_dimension", Json.bool mapOk),
                                 ("phases_only_forward", Json.bool phOk)])]

def handle (j : Json) : R (List (String × Json)) := do
  let k ← strF j "k"
  -- a panic of the real code (e.g. the `unreachable!()` arm, an `unwrap` on a missing node) is a property failure
  let panicked := match (fldD j "impl" Json.null).getObjVal? "panic" with
    | .ok _ => true
    | .error _ => false
  if panicked then
    return [("model", Json.null), ("oracle", Json.mkObj [("implementation_does_not_panic", Json.bool false)])]
  else if k == "off" then handleOff j
  else if k == "net" then handleNet j
  else if k == "pop" then handlePop j
  else if k == "wts" then handleWts j
  else throw s!"unknown case kind {k}"

end Drv.C19

def main : IO Unit := Drv.run Drv.C19.handle
