import Drv.EvalCase
import VrpModel.C20
open Lean Drv Route C06 C20 Drv.EvalCase

namespace Drv.C20

/-- multi-task candidate (pickup then delivery): no model of the sequential search; the quote is compared with the realised
    change per additive layer, and the reported fitness with the SPEC value of the tours before and after -/
def handleMulti (j : Json) : R (List (String × Json)) := do
  let c ← parseCtx j
  let impl ← fld j "impl"
  let rows ← arrF impl "rows"
  let valsJ := fldD j "values" Json.null
  let hasVals := !valsJ.isNull
  let tourVals ← if hasVals then listF asInt valsJ "tour" else pure []
  let jobVal ← if hasVals then intF valsJ "job" else pure 0
  let vq (l : List Int) (x : Int) : List Int := if hasVals then l ++ [x] else l
  let mut exactUnassigned := true
  let mut exactTours := true
  let mut exactDistance := true
  let mut exactCostNoWait := true
  let mut exactValue := true
  let mut fitnessIsFunctionOfTours := true
  let mut valueRows := 0
  for r in rows do
    if r.isNull then continue
    let cost ← listF asInt r "cost"
    let before ← listF asInt r "before"
    let after ← listF asInt r "after"
    let res ← parseImplRes (Json.mkObj [("acts", ← fld r "acts"), ("cost", ← fld r "cost")])
    let acts := match res with | some (a, _) => a | none => []
    -- the tour with the job's activities inserted one after another (indices refer to the shadow tour)
    let newJobs := acts.foldl (fun (st : List Act) (a : ImplAct) =>
      insertAt st a.idx { loc := a.loc, s := a.tw.1, e := a.tw.2, dur := a.dur }) c.acts
    let delta (k : Nat) : Int := after.getD k 0 - before.getD k 0
    if delta 0 != cost.getD 0 0 then exactUnassigned := false
    if delta 1 != cost.getD 1 0 then exactTours := false
    if before != vq (fitnessOf c c.acts 1) (valueFitness tourVals) ||
       after != vq (fitnessOf c newJobs 0) (valueFitness (tourVals ++ [jobVal])) then fitnessIsFunctionOfTours := false
    if hasVals then
      valueRows := valueRows + 1
      if cost.length != 4 || delta 3 != cost.getD 3 0 then exactValue := false
    match c.obj with
    | .distance => if delta 2 != cost.getD 2 0 then exactDistance := false
    | .cost =>
      if !hasWaiting c.m.t c.veh c.acts && !hasWaiting c.m.t c.veh newJobs then
        if delta 2 != cost.getD 2 0 then exactCostNoWait := false
  return [("model", Json.null),
          ("oracle", Json.mkObj [("unassigned_exact", Json.bool exactUnassigned), ("tours_exact", Json.bool exactTours),
                                 ("distance_exact", Json.bool exactDistance), ("cost_exact_without_waiting", Json.bool exactCostNoWait),
                                 ("value_exact", Json.bool exactValue),
                                 ("fitness_is_function_of_tours", Json.bool fitnessIsFunctionOfTours)]),
          ("info", Json.mkObj [("value_rows", jNat valueRows), ("multi", Json.bool true)])]

/-- impl per position: null | {cost:[..], place, tw, before:[..], after:[..]} -/
def handle (j : Json) : R (List (String × Json)) := do
  if (fldD j "k" Json.null) == Json.str "multi" then return ← handleMulti j
  let c ← parseCtx j
  let dims := c.cap.length
  let job ← parseJob dims (← fld j "job")
  let impl ← fld j "impl"
  let rows ← arrF impl "rows"
  let legs := legCount c
  -- optional maximize-value layer (a fourth component of quote and fitness)
  let valsJ := fldD j "values" Json.null
  let hasVals := !valsJ.isNull
  let tourVals ← if hasVals then listF asInt valsJ "tour" else pure []
  let jobVal ← if hasVals then intF valsJ "job" else pure 0
  let vq (l : List Int) (x : Int) : List Int := if hasVals then l ++ [x] else l
  -- MODEL: quoted cost, and predicted fitness before/after, per position
  let modelRows := (List.range legs).map (fun i =>
    match evalJob c job (.concrete i) with
    | none => Json.null
    | some f =>
      let p := job.places.getD f.place ⟨0, 0, []⟩
      let x : Act := { loc := p.loc, s := f.tw.1, e := f.tw.2, dur := p.dur }
      Json.mkObj [("cost", jList jInt (vq f.cost (valueQuote jobVal))), ("place", jNat f.place), ("tw", Json.arr #[jInt f.tw.1, jInt f.tw.2]),
                  ("before", jList jInt (vq (fitnessOf c c.acts 1) (valueFitness tourVals))),
                  ("after", jList jInt (vq (fitnessOf c (insertAt c.acts i x) 0) (valueFitness (insertAt tourVals i jobVal))))])
  -- ORACLE on the implementation's numbers: realised change == quote, per additive layer
  let mut exactUnassigned := true
  let mut exactTours := true
  let mut exactDistance := true
  let mut exactCostNoWait := true
  let mut exactValue := true
  let mut valueRows := 0
  let mut fitnessIsFunctionOfTours := true
  let mut nowaitCases := 0
  for (r, i) in rows.zipIdx do
    if r.isNull then continue
    let cost ← listF asInt r "cost"
    let before ← listF asInt r "before"
    let after ← listF asInt r "after"
    let place ← natF r "place"
    let tw ← parsePair (← fld r "tw")
    let delta (k : Nat) : Int := after.getD k 0 - before.getD k 0
    if delta 0 != cost.getD 0 0 then exactUnassigned := false
    if delta 1 != cost.getD 1 0 then exactTours := false
    let p := job.places.getD place ⟨0, 0, []⟩
    let x : Act := { loc := p.loc, s := tw.1, e := tw.2, dur := p.dur }
    let newJobs := insertAt c.acts i x
    -- the reported fitness must be the SPEC value of the tours (ties fitness to the bare tours)
    if before != vq (fitnessOf c c.acts 1) (valueFitness tourVals) ||
       after != vq (fitnessOf c newJobs 0) (valueFitness (insertAt tourVals i jobVal)) then fitnessIsFunctionOfTours := false
    if hasVals then
      valueRows := valueRows + 1
      if cost.length != 4 || delta 3 != cost.getD 3 0 then exactValue := false
    match c.obj with
    | .distance => if delta 2 != cost.getD 2 0 then exactDistance := false
    | .cost =>
      if !hasWaiting c.m.t c.veh c.acts && !hasWaiting c.m.t c.veh newJobs then
        nowaitCases := nowaitCases + 1
        if delta 2 != cost.getD 2 0 then exactCostNoWait := false
  return [("model", Json.mkObj [("rows", Json.arr modelRows.toArray)]),
          ("oracle", Json.mkObj [("unassigned_exact", Json.bool exactUnassigned), ("tours_exact", Json.bool exactTours),
                                 ("distance_exact", Json.bool exactDistance), ("cost_exact_without_waiting", Json.bool exactCostNoWait),
                                 ("value_exact", Json.bool exactValue),
                                 ("fitness_is_function_of_tours", Json.bool fitnessIsFunctionOfTours)]),
          ("info", Json.mkObj [("nowait_cost_rows", jNat nowaitCases), ("value_rows", jNat valueRows)])]

end Drv.C20

def main : IO Unit := Drv.run Drv.C20.handle
